"""C11 stream.Batch partitions its source under every timing and Close always returns (spec/batch)."""
from common import mc, mc_must_fail
from bubblecommon import bubble_tv


def run(ctx):
    design(ctx)
    # T: synctest bubbles with a fake clock: gated source (items singly / in bursts, End, error), consumer
    #    Next calls with live or cancelled contexts, time advancing around maxWait, the user's full()
    #    callback held and released (latency), Close at any moment; judged by Trace_Batch
    bubble_tv(ctx, "TestBatch", "batch", "Trace_Batch", "tv.cfg", "batch", {"n": ctx.pick(150, 1500), "reps": ctx.pick(3, 5)}, silent=False)
    bubble_tv(ctx, "TestBatch", "batch", "Trace_Batch", "tv.cfg", "batch perturbed", {"n": ctx.pick(150, 1500), "reps": ctx.pick(2, 4)}, silent=False, perturb=True)
    ctx.assumptions += ["the source honours the context it is given; the hand-over instant of an item is recorded by the source itself",
                        "bubbles use Go >= 1.23 timer semantics (the harness module's go version)"]


def design(ctx):
    # D: producer / batcher / consumer / Close / discrete clock, every interleaving (TLC exhaustive)
    mc(ctx, "batch", "Batch", "mc_q.cfg", "Batch I-layer (3 items, size 2, End)", coverage=False)
    if not ctx.quick():
        mc(ctx, "batch", "Batch", "mc_err.cfg", "Batch I-layer (source error)", coverage=False)
        mc(ctx, "batch", "Batch", "mc_s3.cfg", "Batch I-layer (4 items, size 3)", coverage=False, timeout=1800)
    # teeth: the pinned code's two defects are violations of the same invariants
    mc_must_fail(ctx, "batch", "Batch", "mc_f8.cfg", "producer not selecting on the background context (F8)", expect="CloseNotStuck")
    mc_must_fail(ctx, "batch", "Batch", "mc_f17.cfg", "waiting-branch flush without stopTimer (F17)")
