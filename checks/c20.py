"""C20 xtime: SleepContext honours d and the deadline; JitterTicker keeps its spacing (spec/xtime)."""
from bubblecommon import bubble_tv


def run(ctx):
    # T: fake-clock bubbles (exact, no tolerance): SleepContext for every duration x deadline position x
    #    cancellation moment; JitterTicker for (d, jitter) pairs incl. jitter = 0 with Reset / Stop at every
    #    phase, channel watched for 10*d after Stop; judged by Trace_XTime
    bubble_tv(ctx, "TestXTime", "xtime", "Trace_XTime", "tv.cfg", "xtime", {"n": ctx.pick(80, 800)}, silent=False)
    ctx.assumptions += ["a deadline that has already passed counts as 'closer than d' (DeadlineTooSoonError or the context's error are both accepted)",
                        "bubbles use Go >= 1.23 timer semantics"]
