"""C20 xtime: SleepContext honours d and the deadline; JitterTicker keeps its spacing (spec/xtime)."""
from bubblecommon import bubble_tv, rt_tv
from common import mc, mc_must_fail


def design(ctx):
    # D: JitterTicker over a discrete clock (mutex, gen, timer, started callbacks, channel of capacity 1, Stop, Reset):
    #    spacing >= d - jitter and no tick after Stop under every interleaving; Stop without gen++ must fail (teeth)
    for cfg in ("jt_a.cfg", "jt_c.cfg") + (() if ctx.quick() else ("jt_b.cfg",)):
        mc(ctx, "xtime", "JitterTicker", cfg, "JitterTicker I-layer " + cfg, coverage=False)
    mc_must_fail(ctx, "xtime", "JitterTicker", "jt_nogen.cfg", "Stop relying on timer.Stop alone", expect="NoTickAfterStop")


def run(ctx):
    design(ctx)
    # T: fake-clock bubbles (exact, no tolerance): SleepContext for every duration x deadline position x
    #    cancellation moment; JitterTicker for (d, jitter) pairs incl. jitter = 0 with Reset / Stop at every
    #    phase, channel watched for 10*d after Stop; judged by Trace_XTime
    bubble_tv(ctx, "TestXTime", "xtime", "Trace_XTime", "tv.cfg", "xtime", {"n": ctx.pick(80, 3000)}, silent=False)
    bubble_tv(ctx, "TestXTime", "xtime", "Trace_XTime", "tv.cfg", "xtime perturbed", {"n": ctx.pick(80, 800)}, silent=False, perturb=True)
    # real clock, pre-1.23 timer semantics (what the library's own go.mod selects): a sleep cancelled right when its timer
    # fires, followed at once by another sleep - nil only after at least d (lower bounds are sound on a real clock)
    rt_tv(ctx, "sleep", "xtime", "Trace_XTime", "tv.cfg", "sleep asynctimerchan=1", ctx.pick(400, 4000), confirm=False)
    # JitterTickers on the real clock under load (callbacks run late now and then): the spacing of the timestamps the ticker
    # sends is exact on any clock
    rt_tv(ctx, "ticker", "xtime", "Trace_XTime", "tv.cfg", "ticker real clock", ctx.pick(12, 48), confirm=False)
    ctx.assumptions += ["a deadline that has already passed is 'closer than d': DeadlineTooSoonError, as for any other deadline closer than d",
                        "bubbles use Go >= 1.23 timer semantics; the pre-1.23 semantics are covered by the real-clock lane for the lower bound only"]
