"""C08 stream failures surface intact and never lose or duplicate items (spec/seq Session.tla; async part: bubble)."""
from seqcommon import sessions


def run(ctx):
    # every caller-goroutine combinator and reducer x inputs up to length L x every fault position /
    # kind / pair of faults x expired-context patterns x stopping points x callback failures
    sessions(ctx, "faults", "faults", maxlen=ctx.pick(3, 3), keep=ctx.pick(0.02, 0.25))
    sessions(ctx, "faults", "faults-short", maxlen=2, keep=ctx.pick(0.3, 1.0))
    async_part(ctx)
    ctx.assumptions += ["callback failures are permanent: the session ends at the callback's error",
                        "a call with an expired context may fail with the context's error or deliver the next correct item"]


def async_part(ctx):
    # goroutine-backed streams (Batch, Merge, Pipe, MapStream): the same fault / stop-point / Close-timing space is
    # explored by environment schedules in bubbles; their monitors carry the error-surfacing and ownership rules
    from bubblecommon import bubble_tv
    n = ctx.pick(100, 1000)
    bubble_tv(ctx, "TestBatch", "batch", "Trace_Batch", "tv.cfg", "batch", {"n": n, "reps": 2}, silent=False)
    bubble_tv(ctx, "TestMerge", "merge", "Trace_Merge", "tv.cfg", "merge", {"n": n, "reps": 1}, silent=False)
    bubble_tv(ctx, "TestMapOrd", "parallel", "Trace_MapOrd", "tv.cfg", "mapstream", {"n": 2 * n}, silent=False)
    bubble_tv(ctx, "TestPipe", "pipe", "Trace_Pipe", "tv.cfg", "pipe", {"n": n, "reps": 2})
