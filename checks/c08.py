"""C08 stream failures surface intact and never lose or duplicate items (spec/seq Session.tla; async part: bubble)."""
from seqcommon import sessions
from common import mc, mc_must_fail


def design(ctx):
    # D: the combinators as the pull machines of stream.go (Pull.tla) over every script of <= 3 steps (items,
    #    transient and permanent faults), every parameter, every pattern of expired contexts: the invariant is the
    #    same SessionRules judge that validates the recorded sessions; two seeded defects must violate it (teeth)
    mc(ctx, "seq", "Pull", "pull.cfg", "Pull machines", coverage=False)
    mc_must_fail(ctx, "seq", "Pull", "pull_bug1.cfg", "Chunk dropping its partial chunk on an error", expect="MachinesOK")
    mc_must_fail(ctx, "seq", "Pull", "pull_bug2.cfg", "First spending its counter on a failed Next", expect="MachinesOK")
    pull_replay(ctx)


def pull_replay(ctx):
    """spec -> code: every complete behaviour of the pull machines is exported by TLC and replayed call by call"""
    import json, os, vlib
    raw = ctx.path("pull.raw")
    r = ctx.tlc("seq", "Pull", "pull_export.cfg", outfile=raw, timeout=900)
    if not r.ok:
        raise vlib.Trouble("Pull export failed: %s %s" % (r.violated, r.error))
    out = ctx.path("pull.ndjson")
    n = 0
    with open(raw) as f, open(out, "w") as g:
        for line in f:
            if line.startswith('<<"PULL", "'):
                body = line[len('<<"PULL", "'):].rstrip("\n")
                if body.endswith('">>'):
                    body = body[:-3]
                g.write(body.replace('\\"', '"').replace("\\\\", "\\") + "\n")
                n += 1
    os.unlink(raw)
    rc, o = ctx.run_vh(["pullreplay", out], timeout=900)
    reps = ctx.harness_report(o, "pull replay")
    if rc != 0 or not reps:
        raise vlib.Trouble("pullreplay died: " + o[-1500:])
    rep = reps[-1]
    ctx.extra["pull_replay"] = rep
    ctx.traces += rep["behaviours"] - rep["differences"]
    ctx.log("pull replay: %d TLC behaviours replayed on the code, %d differences" % (rep["behaviours"], rep["differences"]))
    if rep["differences"]:
        # the sessions recorded from the code are judged by SessionRules elsewhere; a difference here means the
        # machine model and the code took different (possibly both legal) steps
        ctx.notes.append("model-drift: Pull.tla and the code differ on %d behaviours, first: %s" % (rep["differences"], rep["first_difference"][:400]))


def run(ctx):
    design(ctx)
    # every caller-goroutine combinator and reducer x inputs up to length L x every fault position /
    # kind / pair of faults x expired-context patterns x stopping points x callback failures
    sessions(ctx, "faults", "faults", maxlen=ctx.pick(3, 3), keep=ctx.pick(0.02, 0.25))
    sessions(ctx, "faults", "faults-short", maxlen=2, keep=ctx.pick(0.3, 1.0))
    async_part(ctx)
    ctx.assumptions += ["callback failures are permanent: the session ends at the callback's error",
                        "a call with an expired context may fail with the context's error or deliver the next correct item"]


def async_part(ctx):
    # goroutine-backed streams (Batch, Merge, Pipe, MapStream): the same fault / stop-point / Close-timing space is
    # explored by environment schedules in bubbles; their monitors carry the error-surfacing and ownership rules
    from bubblecommon import bubble_tv
    n = ctx.pick(100, 1000)
    bubble_tv(ctx, "TestBatch", "batch", "Trace_Batch", "tv.cfg", "batch", {"n": n, "reps": 2}, silent=False)
    bubble_tv(ctx, "TestBatch", "batch", "Trace_Batch", "tv.cfg", "batch perturbed", {"n": n, "reps": 1}, silent=False, perturb=True)
    bubble_tv(ctx, "TestMerge", "merge", "Trace_Merge", "tv.cfg", "merge", {"n": n, "reps": 1}, silent=False)
    bubble_tv(ctx, "TestMerge", "merge", "Trace_Merge", "tv.cfg", "merge perturbed", {"n": n, "reps": 1}, silent=False, perturb=True)
    bubble_tv(ctx, "TestMapOrd", "parallel", "Trace_MapOrd", "tv.cfg", "mapstream", {"n": 2 * n}, silent=False)
    bubble_tv(ctx, "TestMapOrd", "parallel", "Trace_MapOrd", "tv.cfg", "mapstream perturbed", {"n": n}, silent=False, perturb=True)
    bubble_tv(ctx, "TestPipe", "pipe", "Trace_Pipe", "tv.cfg", "pipe", {"n": n, "reps": 2})
    bubble_tv(ctx, "TestPipe", "pipe", "Trace_Pipe", "tv.cfg", "pipe perturbed", {"n": n, "reps": 1}, perturb=True)
    from bubblecommon import async_env_part
    async_env_part(ctx, ctx.pick(800, 12000))
