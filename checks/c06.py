"""C06 xlist.List equals an ideal sequence of node handles (spec/xlist)."""
from common import mc, lts_replay, drive_tv


def run(ctx):
    # D: pointer structure refines the ideal sequence, exhaustively (<=4 live nodes of 5 ids)
    mc(ctx, "xlist", "XList", "mc.cfg", "XList refinement")
    # R: every transition of the bounded model + all call sequences to depth d on the real list
    lts_replay(ctx, "xlist", "XList", ctx.pick("lts.cfg", "lts4.cfg"), "xlist",
               depth=ctx.pick(4, 5), walks=ctx.pick(2000, 20000), wlen=40)
    # T: seeded random histories on lists of up to 9 nodes, validated by the trace spec
    drive_tv(ctx, "xlist", "Trace_XList", "tv.cfg", "xlist", runs=ctx.pick(40, 400), ops=ctx.pick(250, 500))
    ctx.assumptions += ["node handles are identified by their Value (= model id); Clear leaves dropped nodes linked (not 'removed')",
                        "TLC and the CommunityModules Json module are trusted"]
