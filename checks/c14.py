"""C14 parallel.MapIterator/MapStream keep order, bound the buffer, never deadlock (spec/parallel)."""
from common import mc, mc_must_fail
from bubblecommon import bubble_tv


def run(ctx):
    design(ctx)
    # T: gated source and gated f (release order = latency pattern: late items finish first), slow and
    #    fast consumer, failures in source and f, cancelled consumer contexts, Close after 0..len results
    bubble_tv(ctx, "TestMapOrd", "parallel", "Trace_MapOrd", "tv.cfg", "mapord", {"n": ctx.pick(500, 5000)}, silent=False)
    bubble_tv(ctx, "TestMapOrd", "parallel", "Trace_MapOrd", "tv.cfg", "mapord perturbed", {"n": ctx.pick(400, 4000)}, silent=False, perturb=True)
    bubble_tv(ctx, "TestMapOrd", "parallel", "Trace_MapOrd", "tv.cfg", "mapord gomaxprocs=3", {"n": ctx.pick(300, 3000)}, silent=False, env={"GOMAXPROCS": "3"})
    ctx.assumptions += ["a negative buffer size is read as 0, non-positive parallelism as GOMAXPROCS",
                        "f does not look at its context (the harness releases held calls after Close)"]


def design(ctx):
    # D: dispatcher / workers / errgroup / consumer / Close of MapStream, every interleaving: token bound,
    #    gap bound, no result beyond a failure, error provenance, End completeness, source closed once, no stuck call
    for cfg in ("mc_ms.cfg", "mc_ms_src.cfg", "mc_ms_b1.cfg") + (() if ctx.quick() else ("mc_ms_p3.cfg",)):
        mc(ctx, "parallel", "MapStream", cfg, "MapStream I-layer " + cfg, coverage=False)
    # MapIterator: dispatcher + condition variable + workers + consumer; deadlock checking is on, so no interleaving
    # of finishing calls and consumer pace may block the pipeline; a wrong Signal threshold must deadlock (teeth)
    for cfg in ("mi_a.cfg", "mi_b.cfg", "mi_c.cfg") + (() if ctx.quick() else ("mi_d.cfg",)):
        mc(ctx, "parallel", "MapIterator", cfg, "MapIterator I-layer " + cfg, coverage=False)
    mc_must_fail(ctx, "parallel", "MapIterator", "mi_bad.cfg", "MapIterator signalling at the wrong threshold", expect="deadlock")
