"""C14 parallel.MapIterator/MapStream keep order, bound the buffer, never deadlock (spec/parallel)."""
from common import mc
from bubblecommon import bubble_tv


def run(ctx):
    design(ctx)
    # T: gated source and gated f (release order = latency pattern: late items finish first), slow and
    #    fast consumer, failures in source and f, cancelled consumer contexts, Close after 0..len results
    bubble_tv(ctx, "TestMapOrd", "parallel", "Trace_MapOrd", "tv.cfg", "mapord", {"n": ctx.pick(500, 5000)}, silent=False)
    ctx.assumptions += ["a negative buffer size is read as 0, non-positive parallelism as GOMAXPROCS",
                        "f does not look at its context (the harness releases held calls after Close)"]


def design(ctx):
    import os
    if os.path.exists(os.path.join(os.path.dirname(os.path.dirname(os.path.abspath(__file__))), "spec", "parallel", "MapStream.tla")):
        mc(ctx, "parallel", "MapStream", "mc_ms.cfg", "MapStream I-layer", coverage=False)
