"""C10 stream.Pipe: FIFO per sender, nothing sent-before-close lost, no stuck call (spec/pipe)."""
from common import mc, mc_must_fail
from bubblecommon import bubble_tv


def run(ctx):
    # D: all interleavings of the pipe's select statements in the model (buffer 0, 1, 2)
    design(ctx)
    # T: random environment schedules in synctest bubbles (each repeated: the winning arm of a
    #    multi-ready select is the runtime's choice); Trace_Pipe = linearizability + quiescence
    bubble_tv(ctx, "TestPipe", "pipe", "Trace_Pipe", "tv.cfg", "pipe", {"n": ctx.pick(120, 1200), "reps": ctx.pick(4, 8)})
    # the same schedules with every statement of the library a seeded yield point (GOMAXPROCS=1): overtakings the Go
    # scheduler does not produce by itself
    bubble_tv(ctx, "TestPipe", "pipe", "Trace_Pipe", "tv.cfg", "pipe perturbed", {"n": ctx.pick(120, 1200), "reps": ctx.pick(3, 6)}, perturb=True)
    ctx.assumptions += ["the runtime's choice among ready select arms cannot be forced; schedules are repeated and every run is judged",
                        "a sender's calls are sequential; the receiver is a single consumer"]


def design(ctx):
    for b in (0, 1, 2):
        mc(ctx, "pipe", "Pipe", "mc_b%d.cfg" % b, "Pipe I-layer B=%d" % b, coverage=(b == 1))
    mc_must_fail(ctx, "pipe", "Pipe", "mc_b1_f7.cfg", "pinned (unrepaired) Pipe.Next, B=1", expect="NoLossBeforeClose")
