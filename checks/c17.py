"""C17 xsync.Group: StopAndWait is a barrier; triggers are never lost or overlapped (spec/xsync Trace_Group)."""
from bubblecommon import bubble_tv


def run(ctx):
    # T: fake-clock bubbles: Do/Periodic/Trigger/PeriodicOrTrigger registrations (also racing with the
    #    stop), trigger bursts during and right after a run, functions that ignore their context and are
    #    released by the harness, Stop / StopAndWait / parent cancellation; judged by Trace_Group
    bubble_tv(ctx, "TestGroup", "xsync", "Trace_Group", "tv_group.cfg", "group", {"n": ctx.pick(500, 5000), "race_n": ctx.pick(1500, 15000)}, silent=False)
    ctx.assumptions += ["registrations racing with StopAndWait are also exercised with true parallelism outside the bubble (same trace vocabulary)",
                        "'keeps being invoked': at quiescence the next periodic run is due at most interval+jitter after the previous one began (fake time)"]
