"""C17 xsync.Group: StopAndWait is a barrier; triggers are never lost or overlapped (spec/xsync Trace_Group)."""
from bubblecommon import bubble_tv, rt_tv
from common import mc, mc_must_fail


def design(ctx):
    # D: spawn (read lock, context check, wg.Add, unlock, go) racing with Stop / StopAndWait, and a Trigger loop with
    #    its token channel: every interleaving (Group.tla); wg.Add outside the lock and an unbuffered token channel
    #    are shown to violate the barrier / lose a trigger (teeth)
    mc(ctx, "xsync", "Group", "grp.cfg", "Group I-layer", coverage=False)
    mc_must_fail(ctx, "xsync", "Group", "grp_late.cfg", "wg.Add after releasing the read lock", expect="Barrier")
    mc_must_fail(ctx, "xsync", "Group", "grp_cap0.cfg", "unbuffered trigger channel", expect="NoLostTrigger")


def run(ctx):
    design(ctx)
    # T: fake-clock bubbles: Do/Periodic/Trigger/PeriodicOrTrigger registrations (also racing with the
    #    stop), trigger bursts during and right after a run, functions that ignore their context and are
    #    released by the harness, Stop / StopAndWait / parent cancellation; judged by Trace_Group
    bubble_tv(ctx, "TestGroup", "xsync", "Trace_Group", "tv_group.cfg", "group", {"n": ctx.pick(500, 5000), "race_n": ctx.pick(1500, 15000)}, silent=False)
    bubble_tv(ctx, "TestGroup", "xsync", "Trace_Group", "tv_group.cfg", "group perturbed", {"n": ctx.pick(400, 4000), "race_n": 0}, silent=False, perturb=True)
    # real clock, pre-1.23 timer semantics (what the library's own go.mod selects; bubbles cannot run them): a run of a
    # PeriodicOrTrigger function that outlasts the interval while a trigger arrives - afterwards it must still be invoked
    # periodically (judged with 1.3 s of slack; a rejection has to repeat in a second recording)
    rt_tv(ctx, "group", "xsync", "Trace_Group", "tv_group.cfg", "group asynctimerchan=1", ctx.pick(12, 48))
    ctx.assumptions += ["registrations racing with StopAndWait are also exercised with true parallelism outside the bubble (same trace vocabulary)",
                        "'keeps being invoked': at quiescence the next periodic run is due at most interval+jitter after the previous one began (fake time)"]
