"""C13 parallel.Do/DoContext/Map(Context): exactly once, bounded, barrier, first error (spec/parallel)."""
from common import mc
from bubblecommon import bubble_tv


def run(ctx):
    design(ctx)
    # T: every call of f is gated by the harness (release order = latency pattern), failing indices,
    #    caller cancellation before / in the middle; judged by Trace_Par
    bubble_tv(ctx, "TestPar", "parallel", "Trace_Par", "tv.cfg", "par", {"n": ctx.pick(400, 4000)}, silent=False)
    bubble_tv(ctx, "TestPar", "parallel", "Trace_Par", "tv.cfg", "par perturbed", {"n": ctx.pick(300, 3000)}, silent=False, perturb=True)
    # 'GOMAXPROCS when <= 0': the same with GOMAXPROCS below the CPU count
    bubble_tv(ctx, "TestPar", "parallel", "Trace_Par", "tv.cfg", "par gomaxprocs=3", {"n": ctx.pick(300, 3000)}, silent=False, env={"GOMAXPROCS": "3"})
    if not ctx.quick():
        # the barrier's "effects visible" part under the race detector
        bubble_tv(ctx, "TestPar", "parallel", "Trace_Par", "tv.cfg", "par race", {"n": 600}, silent=False, race=True)
    ctx.assumptions += ["'all effects visible to the caller' is observed as: plain per-index slots written by f are read by the caller after return "
                        "(and by the race detector in the thorough tier)"]


def design(ctx):
    # D: workers / atomic counter / errgroup / Wait / sequential fast path of DoContext, every interleaving, failing
    #    indices, caller cancellation at every step (ParDo.tla)
    for cfg in ("pd_a.cfg", "pd_b.cfg", "pd_c.cfg", "pd_d.cfg", "pd_e.cfg"):
        mc(ctx, "parallel", "ParDo", cfg, "ParDo I-layer " + cfg, coverage=False)
