"""bubble engine: run a synctest scenario recorder (harness/bubble) and validate its trace with TLC"""
import json
import vlib
from common import validate


def bubble_tv(ctx, test, sub, module, cfg, label, args, timeout=1800, silent=True, race=False, sig=None, env=None, perturb=False):
    """perturb=True: the runs are executed by the binary built against the instrumented copy (every statement of the
    concurrent packages is a seeded yield point, GOMAXPROCS=1): schedules the Go scheduler does not produce by itself"""
    tf = ctx.path("bubble-%s.ndjson" % label.replace(" ", "-"))
    a = dict(args)
    a["out"] = tf
    rc, o = ctx.run_vhb(test, a, timeout=timeout, race=race, env_extra=env, perturb=perturb)
    reps = ctx.harness_report(o, "bubble " + label)
    if rc != 0 or not reps:
        tail = o[-3000:]
        if "BUBBLE-STUCK" in o:     # keep the whole goroutine dump: the verdict is read off it
            tail = o[o.index("BUBBLE-STUCK"):][:200000]
        raise vlib.Trouble("bubble runner %s died (rc=%s):\n%s" % (test, rc, tail))
    rep = reps[-1]
    ctx.extra.setdefault("bubble", []).append(rep)
    if "DATA RACE" in o:
        i = o.index("DATA RACE")
        ctx.violation("data race reported by the Go race detector in %s:\n%s" % (label, o[i:i + 1500]), {"subject": label, "kind": "data-race"}, None)
    return validate_runs(ctx, sub, module, cfg, tf, label, rep["runs"], silent=silent, sig=sig), rep


def validate_runs(ctx, sub, module, cfg, tf, label, runs, silent=True, sig=None, maxrounds=25):
    """like common.validate, but on a rejection the rejected run is reported and removed and the rest is validated again"""
    lines = open(tf).read().splitlines()
    # split into runs at reset records
    chunks, cur = [], []
    for x in lines:
        if '"ev":"reset"' in x and cur:
            chunks.append(cur)
            cur = []
        cur.append(x)
    if cur:
        chunks.append(cur)
    ok = True
    rounds = 0
    accepted = 0
    seen = set()
    while chunks and rounds < maxrounds:
        rounds += 1
        part = ctx.path("bpart-%s-%d.ndjson" % (label.replace(" ", "-"), rounds))
        open(part, "w").write("\n".join("\n".join(c) for c in chunks) + "\n")
        acc, r, hwm = ctx.tv(sub, module, cfg, part, timeout=3000, silent_steps=silent)
        if acc:
            accepted += len(chunks)
            break
        ok = False
        k = (hwm or 1)
        # find the chunk containing line k
        n = 0
        idx = 0
        for i, c in enumerate(chunks):
            if n + len(c) >= k:
                idx = i
                break
            n += len(c)
        bad = chunks[idx]
        local = k - n
        accepted += idx
        rej = json.loads(bad[local - 1]) if 0 < local <= len(bad) else None
        s = dict(sig(bad, rej) if sig else {})
        if rej is not None:
            s.setdefault("ev", rej.get("ev"))
            s.setdefault("op", rej.get("op"))
            if isinstance(rej.get("res"), dict):
                s.setdefault("res", rej["res"].get("k"))
        key = json.dumps(s, sort_keys=True)
        if key not in seen:
            seen.add(key)
            ctx.violation("%s: recorded execution is not a behaviour of %s; first event that cannot be explained (line %d of the run): %s" %
                          (label, module, local, json.dumps(rej)[:500]), s,
                          {"run": [json.loads(x) for x in bad][:400], "rejected_line_in_run": local})
        chunks = chunks[idx + 1:]
    ctx.traces += accepted
    ctx.log("tv %s: %d runs, %d accepted, %d TLC rounds" % (label, runs, accepted, rounds))
    if lines:
        ctx.sample({"bubble_trace_prefix": [json.loads(x) for x in lines[1:6]]}, limit=8)
    return ok


def rt_tv(ctx, kind, sub, module, cfg, label, n, confirm=True, timeout=600):
    """real-clock lane (vh rt) under the pre-1.23 timer semantics the library's go.mod selects when it is the main
    module (GODEBUG=asynctimerchan=1; synctest bubbles refuse that setting). Only scheduling-delay-proof rules are
    judged; a rejection of a rule with a time slack must repeat in a second, independent recording before it is
    reported (an unconfirmed one is a note)."""
    for attempt in (1, 2):
        tf = ctx.path("rt-%s-%d.ndjson" % (kind, attempt))
        rc, o = ctx.run_vh(["rt", "-kind", kind, "-out", tf, "-n", str(n)], timeout=timeout, env_extra={"GODEBUG": "asynctimerchan=1"})
        reps = ctx.harness_report(o, "rt " + label)
        if rc != 0 or not reps:
            raise vlib.Trouble("rt lane %s died (rc=%s):\n%s" % (kind, rc, o[-3000:]))
        ctx.extra.setdefault("rt", []).append(reps[-1])
        acc, r, hwm = ctx.tv(sub, module, cfg, tf, timeout=3000)
        if acc:
            ctx.traces += reps[-1]["runs"]
            ctx.log("rt %s: %d events accepted%s" % (label, reps[-1]["events"], "" if attempt == 1 else " (the first recording was rejected: unconfirmed, note only)"))
            if attempt == 2:
                ctx.notes.append("rt %s: a real-clock rejection did not repeat in a second recording (not a verdict)" % label)
            return True
        if confirm and attempt == 1:
            ctx.log("rt %s: rejected at line %s, recording again to confirm" % (label, hwm))
            continue
        return validate_runs(ctx, sub, module, cfg, tf, "rt " + label, reps[-1]["runs"], silent=False)
    return False


def env_schedules(ctx, sub, module, cfg, limit, timeout=900):
    """every behaviour of an environment model (<X>Env.tla: what the harness can do to the library, one action per
    harness step) under cfg, as harness schedules: TLC dumps the transition system, every maximal path is one schedule
    (its prefixes are judged on the way: the trace has a quiescence record after every step). More than `limit`
    behaviours: a seeded sample of the complete set."""
    import random
    out = ctx.path("env-%s-%s.lts" % (module, cfg.replace(".cfg", "")))
    import os
    if not os.path.exists(out):
        ctx.lts(sub, module, cfg, out, workers=1, timeout=timeout)
    init, succ = None, {}
    for line in open(out):
        e = json.loads(line)
        d = e["d"]
        if e["kind"] == "init":
            init = json.dumps(d["from"], sort_keys=True)
        else:
            succ.setdefault(json.dumps(d["from"], sort_keys=True), []).append((d["op"], json.dumps(d["to"], sort_keys=True)))
    for k in succ:
        succ[k].sort(key=lambda x: json.dumps(x[0], sort_keys=True))
    # number of maximal paths below every state (the graph is acyclic: every step increases len)
    cnt = {}
    def count(s):
        if s not in cnt:
            nx = succ.get(s, [])
            cnt[s] = 1 if not nx else sum(count(t) for _, t in nx)
        return cnt[s]
    total = count(init)
    def path(idx):      # the idx-th maximal path in lexicographic order
        s, p = init, []
        while succ.get(s):
            for op, to in succ[s]:
                if idx < cnt[to]:
                    p.append(op)
                    s = to
                    break
                idx -= cnt[to]
        return p
    if total <= limit:
        picks = range(total)
    else:
        picks = sorted(random.Random(ctx.seed).sample(range(total), limit))
    scheds = [path(i) for i in picks]
    ctx.extra.setdefault("tlc_schedules", []).append({"model": module, "cfg": cfg, "behaviours": total, "replayed": len(scheds)})
    ctx.log("env %s/%s: %d behaviours, %d replayed" % (module, cfg, total, len(scheds)))
    return scheds


def env_replay(ctx, sub, envmodule, envcfg, limit, hdrs, test, tracemodule, tracecfg, label, reps=1, perturb=False, sig=None, timeout=3000, extra_args=None, silent=False, conv=None):
    """TLC-generated environment schedules (env_schedules) x scenario headers, replayed by a bubble test (VH_SCHED) and
    judged by the trace spec"""
    scheds = env_schedules(ctx, sub, envmodule, envcfg, limit)
    sf = ctx.path("sched-%s-%s.json" % (envmodule, envcfg.replace(".cfg", "")))
    if conv is None:
        conv = lambda h, s: dict(h, steps=s)
    json.dump([conv(h, s) for s in scheds for h in hdrs], open(sf, "w"))
    args = {"sched": sf, "reps": reps}
    args.update(extra_args or {})
    return bubble_tv(ctx, test, sub, tracemodule, tracecfg, "%s tlc-schedules %s%s" % (label, envcfg.replace(".cfg", ""), " perturbed" if perturb else ""), args,
                     silent=silent, perturb=perturb, sig=sig, timeout=timeout)


def async_env_part(ctx, limit):
    """C08 / C09: the goroutine-backed streams under TLC-generated environment schedules (MergeEnv, BatchEnv, MapOrdEnv,
    PipeEnv), half of them with schedule perturbation; judged by their trace specs (error identity, nothing lost or
    duplicated, ownership ledger of the gated sources, 'closed by the time Close returns')"""
    env_replay(ctx, "merge", "MergeEnv", ctx.pick("env_n2_l6.cfg", "env_n2_l8.cfg"), limit, [{"n": 2}], "TestMerge", "Trace_Merge", "tv.cfg", "merge")
    env_replay(ctx, "merge", "MergeEnv", ctx.pick("env_n3_l5.cfg", "env_n3_l7.cfg"), limit, [{"n": 3}], "TestMerge", "Trace_Merge", "tv.cfg", "merge", perturb=True)
    env_replay(ctx, "batch", "BatchEnv", ctx.pick("env_l7.cfg", "env_l9.cfg"), limit, [{"size": 2, "maxwait": 10, "func": False}], "TestBatch", "Trace_Batch", "tv.cfg", "batch")
    env_replay(ctx, "batch", "BatchEnv", ctx.pick("env_l7h.cfg", "env_l9h.cfg"), limit, [{"size": 2, "maxwait": 10, "func": True}], "TestBatch", "Trace_Batch", "tv.cfg", "batch", perturb=True)
    sh = [{"Kind": "stream", "P": 2, "Buf": 1}, {"Kind": "stream", "P": 2, "Buf": 0, "Fail": {"2": True}}, {"Kind": "stream", "P": 1, "Buf": 2, "MCtx": 2}]
    env_replay(ctx, "parallel", "MapOrdEnv", ctx.pick("env_s_l7.cfg", "env_s_l9.cfg"), limit // 2, sh, "TestMapOrd", "Trace_MapOrd", "tv.cfg", "mapstream")
    env_replay(ctx, "parallel", "MapOrdEnv", ctx.pick("env_s_l7.cfg", "env_s_l9.cfg"), limit // 2, sh, "TestMapOrd", "Trace_MapOrd", "tv.cfg", "mapstream", perturb=True)
    env_replay(ctx, "pipe", "PipeEnv", ctx.pick("env_s2_l6.cfg", "env_s2_l7.cfg"), limit // 2, [{"B": 0}, {"B": 1}, {"B": 2}], "TestPipe", "Trace_Pipe", "tv.cfg", "pipe",
               perturb=True, silent=True)
