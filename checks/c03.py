"""C03 tree stays balanced and half-full (spec/tree TreeShape over the read-only VerifShape hook)."""
from common import mc, lts_replay, drive_tv


def run(ctx):
    # T: the full node structure is logged after every Put/Delete and judged by TreeShape (TLC):
    #    ordering, one search path per key, uniform leaf depth, half-full nodes, depth bound, Len,
    #    parent links, cleared slots; Get/Contains comparator calls <= 15 per level
    drive_tv(ctx, "tree", "Trace_Tree", "tv_Id40.cfg", "tree", variant="mix:40", runs=ctx.pick(12, 60), ops=ctx.pick(250, 500))
    drive_tv(ctx, "tree", "Trace_Tree", "tv_Id320.cfg", "tree", variant="mix:320", runs=ctx.pick(15, 150), ops=ctx.pick(500, 1200), timeout=3000)
    drive_tv(ctx, "tree", "Trace_Tree", "tv_Coarse40.cfg", "tree", variant="coarse:40", runs=ctx.pick(5, 30), ops=ctx.pick(250, 500))
    if not ctx.quick():
        drive_tv(ctx, "tree", "Trace_Tree", "tv_Id1300.cfg", "tree", variant="mix:1300", runs=30, ops=4000, timeout=3000)
    ctx.assumptions += ["'can be garbage collected' is observed as: vacated key/value/child slots hold the zero value and parent links are exact (hook facts)",
                        "'O(log n) work' is decided as the depth bound plus the comparator-call bound (15 three-way comparisons per level; 30 less-calls for less-constructed trees)",
                        "an empty tree has depth 0"]
