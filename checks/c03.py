"""C03 tree stays balanced and half-full (spec/tree TreeShape over the read-only VerifShape hook)."""
from common import mc, lts_replay, drive_tv, gc_tv


def design(ctx):
    # D: BTree.tla (the code's split / steal / merge / cascade / root-collapse algorithms in functional form):
    #    every Put/Delete history over 9 (11, 13) keys with fan-out 4 (5) keeps all C03 invariants and denotes the map
    mc(ctx, "tree", "BTree", "bt3.cfg", "BTree fan-out 4, 9 keys", coverage=False)
    mc(ctx, "tree", "BTree", "bt4.cfg", "BTree fan-out 5, 11 keys", coverage=False)
    if not ctx.quick():
        mc(ctx, "tree", "BTree", "bt3_13.cfg", "BTree fan-out 4, 13 keys (3 levels)", coverage=False, timeout=3000)


def drift(ctx, cfg, variant, runs, ops):
    """re-execute a recorded history on the BTreeOps model with the shipped fan-out and compare the node structure
    after every mutation with the logged one. A mismatch is model drift (a note), never a verdict."""
    import vlib
    tf = ctx.path("drift-%s.ndjson" % variant.replace(":", "-"))
    rc, o = ctx.run_vh(["drive", "tree", "-out", tf, "-runs", str(runs), "-ops", str(ops), "-variant", variant])
    if rc != 0:
        raise vlib.Trouble("driver died: " + o[-1500:])
    acc, r, hwm = ctx.tv("tree", "Trace_Tree", cfg, tf, timeout=3000)
    ctx.extra.setdefault("model_drift_checks", []).append({"variant": variant, "cfg": cfg, "node_by_node_agreement": acc, "first_disagreement_line": None if acc else hwm})
    if acc:
        ctx.traces += runs
        ctx.log("drift %s: BTreeOps model agrees node by node with the code's logged structure" % variant)
    else:
        ctx.notes.append("model-drift: BTreeOps and the logged structure disagree at line %s of %s (the model needs updating; not a verdict)" % (hwm, variant))
        ctx.log("drift %s: DISAGREEMENT at line %s (note only)" % (variant, hwm))


def run(ctx):
    design(ctx)
    drift(ctx, "tvd_Id320.cfg", "mix:320", ctx.pick(8, 60), ctx.pick(500, 1200))
    # T: the full node structure is logged after every Put/Delete and judged by TreeShape (TLC):
    #    ordering, one search path per key, uniform leaf depth, half-full nodes, depth bound, Len,
    #    parent links, cleared slots; Get/Contains comparator calls <= 15 per level
    drive_tv(ctx, "tree", "Trace_Tree", "tv_Id40.cfg", "tree", variant="mix:40", runs=ctx.pick(12, 60), ops=ctx.pick(250, 500))
    drive_tv(ctx, "tree", "Trace_Tree", "tv_Id320.cfg", "tree", variant="mix:320", runs=ctx.pick(15, 150), ops=ctx.pick(500, 1200), timeout=3000)
    # monotone fills of every size 100..315 (step <= 7, both directions) followed by a drain from the thin side and then
    # the other: inner nodes at every fill grade (exactly full donors, minimal siblings) meet steal / merge / cascade
    drive_tv(ctx, "tree", "Trace_Tree", "tv_Id320.cfg", "tree", variant="sweep:320", runs=ctx.pick(62, 124), ops=ctx.pick(80, 300), timeout=3000)
    # steered by the structure: a chosen child (every index 0..15 over the runs) of an exactly full inner node is made to
    # split - with the root as that node and with an inner node below the root (cascading splits at every alignment)
    drive_tv(ctx, "tree", "Trace_Tree", "tv_Id1300.cfg", "tree", variant="cascade:1300", runs=ctx.pick(16, 64), ops=ctx.pick(10, 100), timeout=3000)
    # four levels (a monotone fill of 1300 keys), then the key at one slot of one inner node - root, second or third level -
    # is deleted again and again (the predecessor is fetched from two or three levels below)
    drive_tv(ctx, "tree", "Trace_Tree", "tv_Id1300.cfg", "tree", variant="deep:1300", runs=ctx.pick(4, 16), ops=ctx.pick(3, 8), timeout=3000)
    drive_tv(ctx, "tree", "Trace_Tree", "tv_Coarse40.cfg", "tree", variant="coarse:40", runs=ctx.pick(5, 30), ops=ctx.pick(250, 500))
    if not ctx.quick():
        drive_tv(ctx, "tree", "Trace_Tree", "tv_Id1300.cfg", "tree", variant="mix:1300", runs=30, ops=4000, timeout=3000)
    # the collector's own verdict: values are pointers with finalizers; everything deleted or overwritten must be finalized
    # after a collection (alternating growth and drains on 18 / 40 / 300 keys, complete drain at the end)
    gc_tv(ctx, "tree", "tree", ctx.pick(9, 60), ctx.pick(300, 1200))
    ctx.assumptions += ["'can be garbage collected' is observed as: vacated key/value/child slots hold the zero value and parent links are exact (hook facts), and directly through finalizers of the stored values",
                        "'O(log n) work' is decided as the depth bound plus the comparator-call bound (15 three-way comparisons per level; 30 less-calls for less-constructed trees)",
                        "an empty tree has depth 0"]
