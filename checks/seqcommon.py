"""C07-C09 share the session recorder (harness/comb) and the judge spec/seq/Session.tla"""
import json
import vlib
from common import validate


def sessions(ctx, mode, label, maxlen=3, keep=1.0, n=1000, sigkeys=("fam", "comb"), cfg="tv.cfg"):
    tf = ctx.path("sessions-%s.ndjson" % label)
    rc, o = ctx.run_vh(["scen", "-mode", mode, "-maxlen", str(maxlen), "-keep", str(keep), "-n", str(n), "-out", tf], timeout=1800)
    reps = ctx.harness_report(o, "sessions " + label)
    if rc != 0 or not reps:
        raise vlib.Trouble("session recorder died (rc=%s):\n%s" % (rc, o[-3000:]))
    ctx.extra.setdefault("sessions", {})[label] = reps[-1]["by_comb"]
    total = reps[-1]["events"]
    # TLC validates the whole file; on a rejection the rejected session is reported and validation
    # continues behind it, so that one finding does not hide the rest (bounded number of rounds)
    lines = open(tf).read().splitlines()
    start = 0
    rounds = 0
    accepted = 0
    skipped = 0
    while start < len(lines) and rounds < 40:
        rounds += 1
        part = ctx.path("part-%s-%d.ndjson" % (label, rounds))
        open(part, "w").write("\n".join(lines[start:]) + "\n")
        acc, r, hwm = ctx.tv("seq", "Session", cfg, part, timeout=3000)
        if acc:
            accepted += len(lines) - start
            break
        k = hwm or 1
        bad = json.loads(lines[start + k - 1])
        accepted += k - 1
        sig = {x: bad.get(x) for x in sigkeys}
        sig["n0"] = 1 if bad.get("n") == 0 else 0
        ctx.violation("%s: session rejected by Session.tla: %s" % (label, json.dumps(bad)[:700]), sig, {"session": bad})
        # the remaining sessions of the same class (family, combinator) are the same finding: skip them
        rest = [x for x in lines[start + k:] if not ('"fam":"%s","comb":"%s"' % (bad.get("fam"), bad.get("comb")) in x and ('"n":0,' in x) == (bad.get("n") == 0))]
        skipped += len(lines) - (start + k) - len(rest)
        lines = lines[:start + k] + rest
        start += k
    ctx.traces += accepted
    if skipped:
        ctx.notes.append("%s: %d sessions of already-rejected classes skipped" % (label, skipped))
    ctx.log("sessions %s: %d recorded, %d accepted, %d TLC rounds" % (label, total, accepted, rounds))
    if lines:
        ctx.sample({"session": json.loads(lines[len(lines) // 2])}, limit=8)
    return total
