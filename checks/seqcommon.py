"""C07-C09 share the session recorder (harness/comb) and the judge spec/seq/Session.tla"""
import json
import vlib


def validate_records(ctx, sub, module, cfg, tf, label, cls, what="record"):
    """TLC validates a file of independent records (one per line). On a rejection the record is
    reported, the remaining records of the same class (same finding) are skipped and validation
    continues behind it, so that one finding does not hide the others. cls(record) -> class key."""
    lines = open(tf).read().splitlines()
    total = len(lines)
    start = rounds = accepted = skipped = 0
    while start < len(lines) and rounds < 40:
        rounds += 1
        part = ctx.path("part-%s-%d.ndjson" % (label, rounds))
        open(part, "w").write("\n".join(lines[start:]) + "\n")
        acc, r, hwm = ctx.tv(sub, module, cfg, part, timeout=3000)
        if acc:
            accepted += len(lines) - start
            break
        k = hwm or 1
        bad = json.loads(lines[start + k - 1])
        accepted += k - 1
        c = cls(bad)
        ctx.violation("%s: %s rejected by %s: %s" % (label, what, module, json.dumps(bad)[:700]), c, {what: bad})
        rest = [x for x in lines[start + k:] if cls(json.loads(x)) != c]
        skipped += len(lines) - (start + k) - len(rest)
        lines = lines[:start + k] + rest
        start += k
    ctx.traces += accepted
    if skipped:
        ctx.notes.append("%s: %d records of already-rejected classes skipped" % (label, skipped))
    ctx.log("%s: %d recorded, %d accepted, %d TLC rounds" % (label, total, accepted, rounds))
    if lines:
        ctx.sample({what: json.loads(lines[len(lines) // 2])}, limit=8)
    return total


def sessions(ctx, mode, label, maxlen=3, keep=1.0, n=1000, cfg="tv.cfg"):
    tf = ctx.path("sessions-%s.ndjson" % label)
    rc, o = ctx.run_vh(["scen", "-mode", mode, "-maxlen", str(maxlen), "-keep", str(keep), "-n", str(n), "-out", tf], timeout=1800)
    reps = ctx.harness_report(o, "sessions " + label)
    if rc != 0 or not reps:
        raise vlib.Trouble("session recorder died (rc=%s):\n%s" % (rc, o[-3000:]))
    ctx.extra.setdefault("sessions", {})[label] = reps[-1]["by_comb"]
    return validate_records(ctx, "seq", "Session", cfg, tf, "sessions " + label,
                            lambda b: {"fam": b.get("fam"), "comb": b.get("comb"), "n0": 1 if b.get("n") == 0 else 0}, what="session")
