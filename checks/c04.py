"""C04 deque.Deque equals an ideal double-ended sequence (spec/deque)."""
from common import mc, lts_replay, drive_tv


def run(ctx):
    # D: ring buffer (I) refines the ideal sequence (P); retention; iterator judged by SnapIter
    mc(ctx, "deque", "Deque", ctx.pick("mc_q.cfg", "mc.cfg"), "Deque refinement", coverage=ctx.quick(), timeout=1500)
    # R: every (capacity, front, length, contents) state of the bounded model x every call, on the real deque
    lts_replay(ctx, "deque", "Deque", ctx.pick("lts_q.cfg", "lts_t.cfg"), "deque",
               depth=ctx.pick(3, 4), walks=ctx.pick(3000, 30000), wlen=60, budget=ctx.pick(300000, 3000000))
    # R: P-layer graph (no implementation state): all call sequences to depth d
    lts_replay(ctx, "deque", "DequeP", "ltsp_noit.cfg", "deque", depth=ctx.pick(4, 5), walks=ctx.pick(2000, 20000), wlen=80,
               budget=ctx.pick(400000, 4000000))
    # T: long random histories across the 16/32/64 growth steps
    drive_tv(ctx, "deque", "Trace_Deque", "tv.cfg", "deque", runs=ctx.pick(24, 240), ops=ctx.pick(500, 1000))
    # the collector's own verdict on "popped elements are not retained": elements are pointers with finalizers
    from common import gc_tv
    gc_tv(ctx, "deque", "deque", ctx.pick(9, 60), ctx.pick(400, 1500))
    ctx.assumptions += ["'not retained' is observed as: every raw slot outside the live range holds the zero value (read-only hook VerifSlots), and directly through finalizers of the stored elements",
                        "implementation-level state (capacity/front/back) is compared for model drift only, never for a verdict"]
