"""C16 xsync.ContextCond never loses a wakeup (spec/xsync ContextCond.tla, Trace_Cond.tla)."""
import json
import re
import vlib
from common import mc, mc_must_fail
from bubblecommon import bubble_tv, validate_runs


def cond_sig(run, rej):
    """signature of a rejected run: what the schedule looked like when the wake-up was lost"""
    if rej is None or rej.get("ev") != "q":
        return {"kind": "rule-" + str((rej or {}).get("ev")), "res": (rej or {}).get("res")}
    gated, maxg, nsig, bc, cancel = set(), 0, 0, False, False
    for x in run:
        e = json.loads(x)
        ev = e.get("ev")
        if ev == "unlocked":
            gated.add(e["w"])
        elif ev == "release":
            gated.discard(e["w"])
        elif ev == "signal":
            nsig += 1
            maxg = max(maxg, len(gated))
        elif ev == "broadcast":
            bc = True
        elif ev == "cancel":
            cancel = True
        if e is rej or x == json.dumps(rej):
            break
    return {"kind": "lost-wakeup", "gated_at_signal": ">=2" if maxg >= 2 else str(maxg), "signals": ">=2" if nsig >= 2 else str(nsig),
            "broadcast": bc, "cancel": cancel}


def schedule_from_counterexample(out):
    steps = []
    for m in re.finditer(r"^State \d+: <(\w+)(?:\((\d+)\))? line", out, re.M):
        name, arg = m.group(1), m.group(2)
        a = {"Enter": "enter", "Release": "release", "Signal": "signal", "Broadcast": "broadcast", "Cancel": "cancel"}.get(name)
        if a:
            steps.append({"a": a, "w": int(arg) if arg else 0})
    return steps


def run(ctx):
    # D: the design holds for one waiter (any signals), and for 2-3 waiters with one signal, one
    #    broadcast and context expiry, under every interleaving ...
    for cfg in ("cc_w1.cfg", "cc_w2s1.cfg", "cc_w3s1.cfg"):
        mc(ctx, "xsync", "ContextCond", cfg, "ContextCond " + cfg, coverage=False)
    # ... an unbuffered channel would lose a wake-up already for one waiter and one signal (teeth)
    mc_must_fail(ctx, "xsync", "ContextCond", "cc_cap0.cfg", "ContextCond with an unbuffered channel", expect="NoLostWakeup")
    # ... and TLC's verdict for 3 waiters x 3 signals (environment steps at quiescence = a literal
    # harness schedule) is replayed on the code before it is believed
    r = ctx.tlc("xsync", "ContextCond", "cc_sched.cfg", timeout=600)
    if r.error:
        raise vlib.Trouble("TLC error on cc_sched: " + r.error)
    if r.violated:
        sched = schedule_from_counterexample(r.out)
        sf = ctx.path("sched.json")
        json.dump([sched], open(sf, "w"))
        ok, rep = bubble_tv(ctx, "TestCond", "xsync", "Trace_Cond", "tv_cond.cfg", "cond tlc-counterexample", {"sched": sf, "reps": 3},
                            silent=False, sig=cond_sig)
        ctx.extra["tlc_counterexample_schedule"] = sched
        if ok:
            ctx.notes.append("model-drift: TLC's counterexample schedule for ContextCond.tla did not reproduce on the code (the model is outdated, not the code wrong)")
    # directed schedules (one Signal + a cancellation racing for the same token, Broadcast with gated waiters ...),
    # repeated because the winning select arm is the runtime's choice
    import os
    bubble_tv(ctx, "TestCond", "xsync", "Trace_Cond", "tv_cond.cfg", "cond directed",
              {"sched": os.path.join(ctx.specdir("xsync"), "cond_directed.json"), "reps": ctx.pick(12, 60)}, silent=False, sig=cond_sig)
    # T: random schedules. 'safe' = at most one waiter held at the gate at a time
    bubble_tv(ctx, "TestCond", "xsync", "Trace_Cond", "tv_cond.cfg", "cond safe", {"n": ctx.pick(150, 1500), "class": "safe", "reps": 2},
              silent=False, sig=cond_sig)
    tf_args = {"n": ctx.pick(40, 300), "class": "any", "reps": 1}
    tf = ctx.path("bubble-cond-any.ndjson")
    a = dict(tf_args)
    a["out"] = tf
    rc, o = ctx.run_vhb("TestCond", a)
    reps = ctx.harness_report(o, "cond any")
    if rc != 0 or not reps:
        raise vlib.Trouble("bubble runner TestCond died:\n" + o[-2000:])
    validate_runs(ctx, "xsync", "Trace_Cond", "tv_cond.cfg", tf, "cond any", reps[-1]["runs"], silent=False, sig=cond_sig, maxrounds=400)
    ctx.assumptions += ["the Locker handed to NewContextCond is the harness's: its Unlock holds the waiter at a gate = 'between the release and parking'",
                        "environment steps happen at quiescent points (synctest.Wait after every step)"]
