"""C01 tree.Map/Set answer every call exactly like an ideal sorted map (spec/tree SortedMap)."""
import vlib
from common import mc, lts_replay, drive_tv


def race_pass(ctx):
    """last sentence of C01: -race build; concurrent Puts of present keys vs reads of other keys"""
    out = ctx.path("vh-race")
    env = ctx.goenv()
    env["CGO_ENABLED"] = "1"
    rc, o = ctx.run([vlib.GO, "build", "-race", "-tags", "verif", "-o", out, "./cmd/vh"], cwd=ctx.harness_dir(), env=env, timeout=900)
    if rc != 0:
        raise vlib.Trouble("race build failed:\n" + o[-3000:])
    rc, o = ctx.run([out, "race"], env=env, timeout=900)
    reps = ctx.harness_report(o, "race pass")
    if "DATA RACE" in o:
        i = o.index("DATA RACE")
        ctx.violation("data race reported by the Go race detector while goroutines Put distinct present keys and others read other keys:\n" + o[i:i + 1500],
                      {"subject": "tree-race", "kind": "data-race"}, {"detector_output": o[i:i + 4000]})
    elif rc != 0 or not reps:
        raise vlib.Trouble("race pass died rc=%s:\n%s" % (rc, o[-2000:]))
    else:
        ctx.traces += 5
        ctx.extra["race_pass"] = reps[-1]


def run(ctx):
    # D: BTree.tla with two values: the tree denotes the ideal map; a Put of a present key writes one value slot and
    #    leaves the node structure alone (design-level half of the concurrency clause)
    mc(ctx, "tree", "BTree", "bt3v.cfg", "BTree fan-out 4, 7 keys x 2 values", coverage=False)
    walks = ctx.pick(1500, 15000)
    # R: the complete P-layer graph over 4 keys x 2 values on every key type / comparator / constructor
    for variant in ("int", "cmp", "rev", "str", "zero"):
        lts_replay(ctx, "tree", "SortedMap", "lts_nat.cfg", "tree4", variant=variant, depth=ctx.pick(4, 5), walks=walks, wlen=40,
                   budget=ctx.pick(150000, 1500000))
    # orders with distinct-but-equivalent keys: any representative put so far may be reported
    lts_replay(ctx, "tree", "SortedMap", "lts_coarse.cfg", "tree4", variant="coarse", depth=ctx.pick(4, 5), walks=walks, wlen=40,
               budget=ctx.pick(150000, 1500000), min_cover=0)
    # Range/RangeReverse/Iterate with 6 bound pairs (values = 1): Map and Set
    for variant in ("int", "set", "setcmp"):
        lts_replay(ctx, "tree", "SortedMap", "lts_it.cfg", "tree4", variant=variant, depth=ctx.pick(3, 4), walks=ctx.pick(4000, 40000), wlen=30,
                   budget=ctx.pick(100000, 1000000), min_cover=0)
    # T: real fan-out 16, fills to node-capacity boundaries, drains, all key types; ranges drained at once
    drive_tv(ctx, "tree", "Trace_Tree", "tv_Id40.cfg", "tree", variant="mix:40:noshape:cleaniter", runs=ctx.pick(18, 120), ops=ctx.pick(250, 500))
    drive_tv(ctx, "tree", "Trace_Tree", "tv_Id320.cfg", "tree", variant="mix:320:noshape:cleaniter", runs=ctx.pick(12, 120), ops=ctx.pick(400, 800))
    # the size swings between 1/5 and 4/5 of the universe several times: the tree loses a level (inner nodes merge) and
    # regains it (nodes split again) - lookups and drained iterators all the way
    drive_tv(ctx, "tree", "Trace_Tree", "tv_Id320.cfg", "tree", variant="breathe:320:noshape:cleaniter", runs=ctx.pick(5, 60), ops=ctx.pick(1500, 3000))
    # cascading splits at every alignment (a chosen child of an exactly full inner node is made to split), then lookups of
    # everything that went into the split region and a drained iterator
    drive_tv(ctx, "tree", "Trace_Tree", "tv_Id1300.cfg", "tree", variant="cascade:1300:noshape:cleaniter", runs=ctx.pick(16, 64), ops=ctx.pick(5, 40), timeout=3000)
    # four levels: repeated deletion of keys that sit in inner nodes of the first three levels, lookups, drained iterators
    drive_tv(ctx, "tree", "Trace_Tree", "tv_Id1300.cfg", "tree", variant="deep:1300:noshape:cleaniter", runs=ctx.pick(4, 16), ops=ctx.pick(3, 8), timeout=3000)
    drive_tv(ctx, "tree", "Trace_Tree", "tv_Coarse40.cfg", "tree", variant="coarse:40:noshape:cleaniter", runs=ctx.pick(8, 60), ops=ctx.pick(250, 500))
    if not ctx.quick():
        drive_tv(ctx, "tree", "Trace_Tree", "tv_Id1300.cfg", "tree", variant="mix:1300:noshape:cleaniter", runs=30, ops=1500, timeout=3000)
        drive_tv(ctx, "tree", "Trace_Tree", "tv_Coarse320.cfg", "tree", variant="coarse:320:noshape:cleaniter", runs=40, ops=800)
    race_pass(ctx)
    ctx.assumptions += ["'free of data races' is observed with Go's race detector on the runs made (a memory-model statement TLC cannot decide)",
                        "equivalent keys: any representative put since the class was last absent may be returned"]
