"""C07 iterator/stream/xslices combinators compute their documented sequence function (spec/seq)."""
from seqcommon import sessions


def run(ctx):
    # every combinator and reducer x every input over {1,2,3} up to length L x every parameter /
    # predicate table / equivalence, in the iterator, stream and xslices families; judged by
    # SeqFuns.tla (function, agreement of the families, laziness bound, sticky end)
    sessions(ctx, "faultfree", "faultfree", maxlen=ctx.pick(4, 6))
    sessions(ctx, "random", "random", n=ctx.pick(1500, 150000))
    # the stream family's sequence must also come out right when per-call contexts have expired or expire during a call
    # (a sample of the fault / context sessions that C08 judges in full)
    sessions(ctx, "faults", "contexts", maxlen=2, keep=ctx.pick(0.08, 0.5))
    # Chan: several stream.Chan streams over one channel read concurrently (also with schedule perturbation)
    from bubblecommon import bubble_tv
    bubble_tv(ctx, "TestChanShare", "seq", "Trace_ChanShare", "tv_chan.cfg", "chan shared", {"n": ctx.pick(300, 3000)}, silent=False)
    bubble_tv(ctx, "TestChanShare", "seq", "Trace_ChanShare", "tv_chan.cfg", "chan shared perturbed", {"n": ctx.pick(300, 3000)}, silent=False, perturb=True)
    ctx.assumptions += ["laziness counts source items, not End probes; same() is an equivalence (as documented)",
                        "Chan/Counter/Repeat/Empty sources: see C19 vectors; here Slice/FromIterator/scripted sources"]
