"""C12 Merge/Replicate move every value exactly once and finish when inputs do (spec/merge)."""
from bubblecommon import bubble_tv
from common import mc, mc_must_fail


def design(ctx):
    # D: chans.Merge's select loop for 0, 2, 3 and 5 inputs and stream.Merge (reader goroutines, Pipe(0), nDone,
    #    closeOnce, cancellation, Close) under every interleaving; a wrong case removal and the pinned stream.Merge
    #    (Close neither cancelling nor waiting, inputs never closed) must fail (teeth)
    for cfg in ("cm0.cfg", "cm2.cfg", "cm3.cfg", "cm5.cfg"):
        mc(ctx, "merge", "ChansMerge", cfg, "ChansMerge " + cfg, coverage=False)
    mc_must_fail(ctx, "merge", "ChansMerge", "cm5_bad.cfg", "reflect path removing the wrong case")
    for cfg in ("sm0.cfg", "sm2.cfg", "sm2e.cfg", "sm3.cfg"):
        mc(ctx, "merge", "StreamMerge", cfg, "StreamMerge " + cfg, coverage=False)
    mc_must_fail(ctx, "merge", "StreamMerge", "sm2_pinned.cfg", "pinned stream.Merge (F4)", expect="AfterClose")


def run(ctx):
    design(ctx)
    # T: chans.Merge for arities 0..5 (the four code paths), chans.Replicate for 0..3 destinations,
    #    stream.Merge over 0..3 gated inputs with End / error at any position, cancelled consumer
    #    contexts and Close at any moment; judged by Trace_Merge
    bubble_tv(ctx, "TestMerge", "merge", "Trace_Merge", "tv.cfg", "merge", {"n": ctx.pick(120, 1200), "reps": ctx.pick(2, 4)}, silent=False)
    bubble_tv(ctx, "TestMerge", "merge", "Trace_Merge", "tv.cfg", "merge perturbed", {"n": ctx.pick(120, 1200), "reps": ctx.pick(2, 4)}, silent=False, perturb=True)
    nil_values(ctx)
    ctx.assumptions += ["producers are sequential per input; the consumer of chans.Merge takes on demand (its pace is part of the schedule)"]


def nil_values(ctx):
    # interface-typed element with a nil value through each of chans.Merge's code paths (vector check, harness/cmd/vh)
    rc, o = ctx.run_vh(["mergenil"], timeout=300)
    ctx.harness_report(o, "chans.Merge nil interface values")
    if rc != 0:
        import vlib
        raise vlib.Trouble("mergenil died: " + o[-1500:])
