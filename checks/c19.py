"""C19 pure helpers (xslices, xsort, xmaps, xmath, xerrors, xrand) match their spec (spec/helpers)."""
import vlib
from seqcommon import validate_records


def run(ctx):
    tf = ctx.path("helpers.ndjson")
    chi = ctx.pick(20000, 200000)
    rc, o = ctx.run_vh(["helpers", "-out", tf, "-maxlen", str(ctx.pick(4, 5)), "-random", str(ctx.pick(150, 1500)),
                        "-seeds", str(ctx.pick(3, 30)), "-chi", str(chi)], timeout=1800)
    reps = ctx.harness_report(o, "helpers")
    if rc != 0 or not reps:
        raise vlib.Trouble("helper recorder died (rc=%s):\n%s" % (rc, o[-3000:]))
    ctx.extra["vectors_by_fn"] = reps[-1]["by_fn"]
    validate_records(ctx, "helpers", "Helpers", "tv.cfg", tf, "helpers", lambda b: {"fn": b.get("fn")}, what="vector")
    # auxiliary, not model-decided: uniformity of the sampled subsets (chi-square, threshold far beyond p = 1e-9)
    aux = reps[-1].get("chi_square", [])
    ctx.extra["aux_chi_square_not_model_decided"] = aux
    for t in aux:
        if t["chi2"] > 3 * t["df"] + 60:
            ctx.violation("sampling is not uniform: %s(n=%d,k=%d) chi2=%.1f with %d degrees of freedom over %d trials" %
                          (t["fn"], t["n"], t["k"], t["chi2"], t["df"], chi), {"fn": t["fn"], "kind": "uniformity"}, t)
    ctx.assumptions += ["'every subset equally likely' is a probabilistic statement outside TLA+: auxiliary chi-square test on seeded samples, reported separately",
                        "by parametricity slices over {1,2,3} cover all equality/predicate patterns up to the length bound"]
