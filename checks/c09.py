"""C09 every stream handed to the library is closed exactly once, never used after (ownership ledger)."""
from seqcommon import sessions


def run(ctx):
    # the instrumented sources keep the ledger (closes, Next after Close, overlapping calls);
    # Session.tla judges it at the 'done' instant for every stopping point and fault position
    sessions(ctx, "faults", "ownership", maxlen=ctx.pick(3, 3), keep=ctx.pick(0.02, 0.25), cfg="tv_own.cfg")
    sessions(ctx, "faults", "ownership-short", maxlen=2, keep=ctx.pick(0.3, 1.0), cfg="tv_own.cfg")
    sessions(ctx, "faultfree", "ownership-faultfree", maxlen=3, cfg="tv_own.cfg")
    async_part(ctx)
    ctx.assumptions += ["Flatten's inner streams count as handed over once the outer stream has yielded them"]


def async_part(ctx):
    # goroutine-backed streams (Batch, Merge, Pipe, MapStream): the same fault / stop-point / Close-timing space is
    # explored by environment schedules in bubbles; their monitors carry the error-surfacing and ownership rules
    from bubblecommon import bubble_tv
    n = ctx.pick(100, 1000)
    bubble_tv(ctx, "TestBatch", "batch", "Trace_Batch", "tv.cfg", "batch", {"n": n, "reps": 2}, silent=False)
    bubble_tv(ctx, "TestBatch", "batch", "Trace_Batch", "tv.cfg", "batch perturbed", {"n": n, "reps": 1}, silent=False, perturb=True)
    bubble_tv(ctx, "TestMerge", "merge", "Trace_Merge", "tv.cfg", "merge", {"n": n, "reps": 1}, silent=False)
    bubble_tv(ctx, "TestMerge", "merge", "Trace_Merge", "tv.cfg", "merge perturbed", {"n": n, "reps": 2}, silent=False, perturb=True)
    bubble_tv(ctx, "TestMapOrd", "parallel", "Trace_MapOrd", "tv.cfg", "mapstream", {"n": 2 * n}, silent=False)
    bubble_tv(ctx, "TestMapOrd", "parallel", "Trace_MapOrd", "tv.cfg", "mapstream perturbed", {"n": 2 * n}, silent=False, perturb=True)
    from bubblecommon import async_env_part
    async_env_part(ctx, ctx.pick(800, 12000))
