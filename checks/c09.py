"""C09 every stream handed to the library is closed exactly once, never used after (ownership ledger)."""
from seqcommon import sessions


def run(ctx):
    # the instrumented sources keep the ledger (closes, Next after Close, overlapping calls);
    # Session.tla judges it at the 'done' instant for every stopping point and fault position
    sessions(ctx, "faults", "ownership", maxlen=ctx.pick(3, 3), keep=ctx.pick(0.02, 0.25), cfg="tv_own.cfg")
    sessions(ctx, "faults", "ownership-short", maxlen=2, keep=ctx.pick(0.3, 1.0), cfg="tv_own.cfg")
    sessions(ctx, "faultfree", "ownership-faultfree", maxlen=3, cfg="tv_own.cfg")
    async_part(ctx)
    ctx.assumptions += ["Flatten's inner streams count as handed over once the outer stream has yielded them"]


def async_part(ctx):
    pass
