"""helpers shared by the per-property check scripts"""
import json
import os


def mc(ctx, sub, module, cfg, what, coverage=True, timeout=900, must=None, ignore=(), workers=None):
    """exhaustive design-level TLC run that must pass"""
    r = ctx.tlc(sub, module, cfg, coverage=coverage, timeout=timeout, workers=workers)
    ctx.need_ok(r, what)
    if coverage:
        ctx.check_coverage(r, must=must, ignore=ignore)
    ctx.log("mc %s/%s: %d generated, %d distinct, depth %d, %.1fs" % (module, cfg, r.generated, r.distinct, r.depth, r.wall))
    return r


def lts_replay(ctx, sub, module, cfg, subject, depth, walks, wlen, variant="", budget=2000000, timeout=900, min_cover=0.999):
    out = ctx.path("%s-%s.lts" % (subject, cfg.replace(".cfg", "")))
    if not os.path.exists(out):
        ctx.lts(sub, module, cfg, out, timeout=timeout)
    args = ["lts", subject, out, "-depth", str(depth), "-walks", str(walks), "-len", str(wlen), "-budget", str(budget)]
    if variant:
        args += ["-variant", variant]
    if min_cover <= 0:
        args += ["-nocover"]
    rc, o = ctx.run_vh(args, timeout=timeout)
    reps = ctx.harness_report(o, "lts replay %s" % subject)
    if rc != 0 or not reps:
        raise __import__("vlib").Trouble("lts replay of %s died (rc=%s):\n%s" % (subject, rc, o[-3000:]))
    rep = reps[-1]
    ctx.traces += rep["paths"]
    ctx.extra.setdefault("lts", []).append(rep)
    ctx.log("lts replay %s %s: %d/%d calls executed, %d/%d edges covered, %d paths, %d steps" %
            (subject, variant, rep["calls_executed"], rep["calls_total"], rep["edges_covered"], rep["edges"], rep["paths"], rep["steps"]))
    if not ctx.violations and rep["calls_total"] and rep["calls_executed"] < min_cover * rep["calls_total"]:
        raise __import__("vlib").Trouble("lts replay of %s executed only %d of %d (state, call) pairs" %
                                         (subject, rep["calls_executed"], rep["calls_total"]))
    return rep


def drive_tv(ctx, sub, module, cfg, driver, runs, ops, variant="", timeout=900, label=None):
    """record seeded runs of a Go driver, validate the trace with TLC; on rejection report the first rejected line"""
    tf = ctx.path("%s-%s.ndjson" % (driver, variant or "d"))
    args = ["drive", driver, "-out", tf, "-runs", str(runs), "-ops", str(ops)]
    if variant:
        args += ["-variant", variant]
    rc, o = ctx.run_vh(args, timeout=timeout)
    reps = ctx.harness_report(o, "driver %s" % driver)
    if rc != 0 or not reps:
        raise __import__("vlib").Trouble("driver %s died (rc=%s):\n%s" % (driver, rc, o[-3000:]))
    return validate(ctx, sub, module, cfg, tf, runs, timeout=timeout, label=label or ("%s %s" % (driver, variant)), events=reps[-1]["events"])


def validate(ctx, sub, module, cfg, tf, runs, timeout=900, label="", events=None, silent=False, sig=None):
    acc, r, hwm = ctx.tv(sub, module, cfg, tf, timeout=timeout, silent_steps=silent)
    nlines = sum(1 for _ in open(tf))
    ctx.log("tv %s: %d events, %s, %.1fs" % (label, nlines, "accepted" if acc else "REJECTED at line %s (%s)" % (hwm, r.violated), r.wall))
    ctx.extra.setdefault("tv", []).append({"trace": label, "events": nlines, "runs": runs, "accepted": acc})
    if acc:
        ctx.traces += runs
        with open(tf) as f:
            lines = [next(f, "") for _ in range(6)]
        ctx.sample({"trace_prefix": [json.loads(x) for x in lines if x.strip()][1:4]}, limit=8)
        return True
    # locate the rejected event: hwm = index of the first line that could not be consumed
    lines = open(tf).read().splitlines()
    k = hwm if hwm else 1
    if r.violated and r.violated != "postcondition":
        # an invariant failed in the state reached after consuming line k-1
        k = max(1, k - 1) if hwm else 1
    lo = k - 1
    while lo > 0 and '"op":"Reset"' not in lines[lo]:
        lo -= 1
    bad = json.loads(lines[k - 1]) if 0 < k <= len(lines) else None
    s = dict(sig or {})
    if bad is not None:
        s.setdefault("op", bad.get("op"))
    ctx.violation("%s: recorded execution is not a behaviour of %s (%s); first rejected event (line %d): %s" %
                  (label, module, r.violated, k, json.dumps(bad)[:600]),
                  s, {"trace_run": [json.loads(x) for x in lines[lo:k]][-400:], "rejected": bad, "line": k})
    return False


def mc_must_fail(ctx, sub, module, cfg, what, expect=None, timeout=600):
    """teeth check: the model of the *defective* design must violate the property (else the invariant is vacuous)"""
    r = ctx.tlc(sub, module, cfg, timeout=timeout, count=False)
    if r.error:
        raise __import__("vlib").Trouble("TLC error in %s:\n%s" % (what, r.error))
    if not r.violated or (expect and r.violated != expect):
        raise __import__("vlib").Trouble("vacuity: %s should violate %s but TLC reports %s" % (what, expect, r.violated))
    ctx.extra.setdefault("teeth", []).append({"model": what, "violates": r.violated, "states_to_counterexample": r.distinct})
    ctx.log("teeth %s/%s: violates %s as expected" % (module, cfg, r.violated))


def gc_tv(ctx, sub, kind, runs, ops):
    """'no retained garbage' observed directly: payloads with finalizers (vh gc), judged by common/Trace_GC.tla"""
    import vlib
    tf = ctx.path("gc-%s.ndjson" % kind)
    rc, o = ctx.run_vh(["gc", "-kind", kind, "-out", tf, "-runs", str(runs), "-ops", str(ops)], timeout=900)
    reps = ctx.harness_report(o, "gc " + kind)
    if rc != 0 or not reps:
        raise vlib.Trouble("gc driver %s died (rc=%s):\n%s" % (kind, rc, o[-3000:]))
    return validate(ctx, sub, "Trace_GC", "tv_gc.cfg", tf, runs, label="gc " + kind)
