"""C15 container iterators are snapshot-or-panic (spec/deque SnapIter + spec/heap)."""
from common import mc, lts_replay, drive_tv


def run(ctx):
    # D: the code's raw-index iterator (I) only does what SnapIter (P) allows, for every container
    #    state x iterator position x mid-iteration operation
    mc(ctx, "deque", "Deque", ctx.pick("mc_q.cfg", "mc.cfg"), "Deque iterator refinement", coverage=False, timeout=1500)
    # R: P-layer graph with one iterator: every transition and all call sequences to depth d
    lts_replay(ctx, "deque", "DequeP", "ltsp_q.cfg", "deque", depth=ctx.pick(4, 5), walks=ctx.pick(5000, 50000), wlen=40,
               budget=ctx.pick(300000, 3000000), min_cover=0)
    # T: random histories with up to three live iterators
    drive_tv(ctx, "deque", "Trace_Deque", "tv.cfg", "deque", variant="iter", runs=ctx.pick(30, 300), ops=ctx.pick(400, 800))
    heap_part(ctx)


def heap_part(ctx):
    pass
