"""C15 container iterators are snapshot-or-panic (spec/deque SnapIter + spec/heap)."""
from common import mc, lts_replay, drive_tv


def run(ctx):
    # D: the code's raw-index iterator (I) only does what SnapIter (P) allows, for every container
    #    state x iterator position x mid-iteration operation
    mc(ctx, "deque", "Deque", ctx.pick("mc_q.cfg", "mc.cfg"), "Deque iterator refinement", coverage=False, timeout=1500)
    # R: P-layer graph with one iterator: every transition and all call sequences to depth d
    lts_replay(ctx, "deque", "DequeP", "ltsp_q.cfg", "deque", depth=ctx.pick(4, 5), walks=ctx.pick(5000, 50000), wlen=40,
               budget=ctx.pick(300000, 3000000), min_cover=0)
    # T: random histories with up to three live iterators
    drive_tv(ctx, "deque", "Trace_Deque", "tv.cfg", "deque", variant="iter", runs=ctx.pick(30, 300), ops=ctx.pick(400, 800))
    heap_part(ctx)


def heap_part(ctx):
    lts_replay(ctx, "heap", "HeapP", "ltsh_it.cfg", "heap", depth=ctx.pick(5, 6), walks=ctx.pick(5000, 50000), wlen=30,
               budget=ctx.pick(200000, 2000000), min_cover=0)
    lts_replay(ctx, "heap", "PQP", "ltsq_it.cfg", "pq3", depth=ctx.pick(4, 5), walks=ctx.pick(5000, 50000), wlen=30,
               budget=ctx.pick(200000, 2000000), min_cover=0)
    drive_tv(ctx, "heap", "Trace_Heap", "tvh.cfg", "heap", variant="iter", runs=ctx.pick(20, 200), ops=ctx.pick(300, 600))
    drive_tv(ctx, "heap", "Trace_PQ", "tvq.cfg", "pq", variant="iter", runs=ctx.pick(20, 200), ops=ctx.pick(300, 600))
    ctx.assumptions += ["deque Set, heap Grow/Shrink and PriorityQueue.Update of a present key count as changes after which "
                        "a panic or a correct continuation are both accepted; adding/removing once iteration is under way: only a panic"]
