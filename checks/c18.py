"""C18 Watchable/Future/Lazy/xsync.Map (spec/xsync)."""
from common import mc, lts_replay


def typed_map(ctx):
    # the complete transition system of the sync.Map semantics over 2 keys x 3 values (one of them
    # the zero value / nil) replayed on xsync.Map[int,int], [int,error], [int,any] and on a raw sync.Map
    for variant in ("ref", "int", "err", "any"):
        lts_replay(ctx, "xsync", "TypedMap", "lts_map.cfg", "typedmap", variant=variant, depth=ctx.pick(3, 4), walks=ctx.pick(2000, 20000),
                   wlen=40, budget=ctx.pick(100000, 1000000))


def run(ctx):
    typed_map(ctx)
    concurrent_part(ctx)


def concurrent_part(ctx):
    pass
