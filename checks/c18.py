"""C18 Watchable/Future/Lazy/xsync.Map (spec/xsync)."""
from common import mc, lts_replay


def typed_map(ctx):
    # the complete transition system of the sync.Map semantics over 2 keys x 3 values (one of them
    # the zero value / nil) replayed on xsync.Map[int,int], [int,error], [int,any] and on a raw sync.Map
    for variant in ("ref", "int", "err", "any"):
        lts_replay(ctx, "xsync", "TypedMap", "lts_map.cfg", "typedmap", variant=variant, depth=ctx.pick(3, 4), walks=ctx.pick(2000, 20000),
                   wlen=40, budget=ctx.pick(100000, 1000000))


def run(ctx):
    typed_map(ctx)
    concurrent_part(ctx)


def concurrent_part(ctx):
    from bubblecommon import bubble_tv
    # Watchable (sequential and concurrent Set/Value incl. Value racing the first Set; every channel ever
    # handed out is polled at every quiescence), Future (Fill racing Wait/WaitContext, cancellation),
    # Lazy (concurrent first calls); judged by Trace_WF
    bubble_tv(ctx, "TestWF", "xsync", "Trace_WF", "tv_wf.cfg", "watchable-future-lazy", {"n": ctx.pick(600, 6000)}, silent=False)
    if not ctx.quick():
        bubble_tv(ctx, "TestWF", "xsync", "Trace_WF", "tv_wf.cfg", "watchable-future-lazy race", {"n": 900}, silent=False, race=True)
    ctx.assumptions += ["a second Future.Fill is documented misuse and not exercised"]
