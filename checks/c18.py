"""C18 Watchable/Future/Lazy/xsync.Map (spec/xsync)."""
from common import mc, mc_must_fail, lts_replay


def typed_map(ctx):
    # the complete transition system of the sync.Map semantics over 2 keys x 3 values (one of them
    # the zero value / nil) replayed on xsync.Map[int,int], [int,error], [int,any] and on a raw sync.Map
    for variant in ("ref", "int", "err", "any"):
        lts_replay(ctx, "xsync", "TypedMap", "lts_map.cfg", "typedmap", variant=variant, depth=ctx.pick(3, 4), walks=ctx.pick(2000, 20000),
                   wlen=40, budget=ctx.pick(100000, 1000000))
    # values that are equal under == without being the same value (float64: -0.0 and the zero value +0.0), and values
    # that cannot be compared at all (slices inside an `any`; without CompareAndSwap / CompareAndDelete, where sync.Map
    # itself panics): what is stored is what was given; and a key that is not equal to itself (float64 NaN): every store
    # adds an entry that only Range still sees (TypedMap.tla `nan`), first replayed on a raw sync.Map as the reference
    for variant, cfg in (("reffloat", "lts_map_f.cfg"), ("float", "lts_map_f.cfg"), ("anyslice", "lts_map_s.cfg"), ("refnan", "lts_map_n.cfg"), ("nankey", "lts_map_n.cfg")):
        lts_replay(ctx, "xsync", "TypedMap", cfg, "typedmap", variant=variant, depth=ctx.pick(3, 4), walks=ctx.pick(2000, 20000),
                   wlen=40, budget=ctx.pick(100000, 1000000))


def design(ctx):
    # D: Watchable as an atomic pointer to cells, Set = swap + close, Value = load / CAS-install / reload: all
    #    interleavings of 2 setters and 2 readers (Watchable.tla); a plain Store instead of the CAS smashes a value (teeth)
    mc(ctx, "xsync", "Watchable", "wa.cfg", "Watchable I-layer", coverage=False)
    mc_must_fail(ctx, "xsync", "Watchable", "wa_store.cfg", "Value installing its empty cell with Store instead of CompareAndSwap", expect="FinalOK")


def run(ctx):
    design(ctx)
    typed_map(ctx)
    concurrent_part(ctx)


def concurrent_part(ctx):
    from bubblecommon import bubble_tv
    # Watchable (sequential and concurrent Set/Value incl. Value racing the first Set; every channel ever
    # handed out is polled at every quiescence), Future (Fill racing Wait/WaitContext, cancellation),
    # Lazy (concurrent first calls); judged by Trace_WF
    bubble_tv(ctx, "TestWF", "xsync", "Trace_WF", "tv_wf.cfg", "watchable-future-lazy", {"n": ctx.pick(600, 6000)}, silent=False)
    bubble_tv(ctx, "TestWF", "xsync", "Trace_WF", "tv_wf.cfg", "watchable-future-lazy perturbed", {"n": ctx.pick(400, 4000)}, silent=False, perturb=True)
    if not ctx.quick():
        bubble_tv(ctx, "TestWF", "xsync", "Trace_WF", "tv_wf.cfg", "watchable-future-lazy race", {"n": 900}, silent=False, race=True)
    ctx.assumptions += ["a second Future.Fill is documented misuse and not exercised"]
