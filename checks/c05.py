"""C05 xheap.Heap and PriorityQueue always hand out a minimum; key map stays exact (spec/heap)."""
from common import mc, mc_must_fail, lts_replay, drive_tv


def design(ctx):
    # D: heap array + index map with the code's percolate / RemoveAt / UpdateAt / heapify (PQ.tla): heap order,
    #    exact index map, array denotes the key->priority map, Pop/Peek answer minimal - every history over 5 (7) keys
    mc(ctx, "heap", "PQ", ctx.pick("mc_pq.cfg", "mc_pq7.cfg"), "PQ I-layer", coverage=False, timeout=3000)
    # the same with a coarse order (p \div 2): different priorities that tie
    mc(ctx, "heap", "PQ", "mc_pq_c.cfg", "PQ I-layer, coarse order", coverage=False, timeout=3000)
    if not ctx.quick():
        mc_must_fail(ctx, "heap", "PQ", "mc_pq_noup.cfg", "RemoveAt without percolateUp", expect="HeapOrder")
    # R: every reachable heap-array shape over 5 keys x every call, on the real queue (ties: other minima are
    #    accepted as legal deviations)
    lts_replay(ctx, "heap", "PQ", "lts_pqi.cfg", "pq5", depth=2, walks=ctx.pick(2000, 20000), wlen=40, budget=ctx.pick(50000, 500000))
    if not ctx.quick():
        lts_replay(ctx, "heap", "PQ", "lts_pqi_c.cfg", "pq5", variant="cmpcoarse", depth=2, walks=ctx.pick(2000, 20000), wlen=40, budget=ctx.pick(50000, 500000))


def run(ctx):
    design(ctx)
    d = ctx.pick(5, 6)
    for variant in ("", "cmp"):
        # R: P-layer graphs (ties => several allowed outcomes; the walker follows the code's answer)
        lts_replay(ctx, "heap", "HeapP", "ltsh.cfg", "heap", variant=variant, depth=d, walks=ctx.pick(3000, 30000), wlen=40,
                   budget=ctx.pick(150000, 1500000), min_cover=0)
        lts_replay(ctx, "heap", "PQP", "ltsq.cfg", "pq4", variant=variant, depth=ctx.pick(4, 5), walks=ctx.pick(3000, 30000), wlen=40,
                   budget=ctx.pick(150000, 1500000), min_cover=0)
    # T: random histories with many ties, initial slices with duplicate keys, drains
    drive_tv(ctx, "heap", "Trace_Heap", "tvh.cfg", "heap", runs=ctx.pick(24, 240), ops=ctx.pick(300, 600))
    drive_tv(ctx, "heap", "Trace_PQ", "tvq.cfg", "pq", runs=ctx.pick(24, 240), ops=ctx.pick(300, 600))
    # larger queues (7-24 keys): removals/updates of inner keys followed by pops
    drive_tv(ctx, "heap", "Trace_PQ", "tvq_big.cfg", "pq", variant="big", runs=ctx.pick(80, 600), ops=ctx.pick(300, 600))
    # coarse orders (p/3, less- and cmp-built with an unnormalised compare): an Update to a different priority that ties
    # with the old one must still be stored; Pop may return any key of the minimal class
    drive_tv(ctx, "heap", "Trace_PQ", "tvq_c.cfg", "pq", variant="coarse", runs=ctx.pick(24, 240), ops=ctx.pick(300, 600))
    drive_tv(ctx, "heap", "Trace_PQ", "tvq_big_c.cfg", "pq", variant="bigcoarse", runs=ctx.pick(40, 400), ops=ctx.pick(300, 600))
    lts_replay(ctx, "heap", "PQP", "ltsq_c.cfg", "pq4", variant="coarse", depth=4, walks=ctx.pick(3000, 30000), wlen=40,
               budget=ctx.pick(150000, 1500000), min_cover=0)
    ctx.assumptions += ["heap contents are observed with a fresh, fully drained iterator after every call",
                        "ties and duplicate initial keys: any candidate the statement allows is accepted"]
