"""C05 xheap.Heap and PriorityQueue always hand out a minimum; key map stays exact (spec/heap)."""
from common import mc, lts_replay, drive_tv


def run(ctx):
    d = ctx.pick(5, 6)
    for variant in ("", "cmp"):
        # R: P-layer graphs (ties => several allowed outcomes; the walker follows the code's answer)
        lts_replay(ctx, "heap", "HeapP", "ltsh.cfg", "heap", variant=variant, depth=d, walks=ctx.pick(3000, 30000), wlen=40,
                   budget=ctx.pick(150000, 1500000), min_cover=0)
        lts_replay(ctx, "heap", "PQP", "ltsq.cfg", "pq4", variant=variant, depth=ctx.pick(4, 5), walks=ctx.pick(3000, 30000), wlen=40,
                   budget=ctx.pick(150000, 1500000), min_cover=0)
    # T: random histories with many ties, initial slices with duplicate keys, drains
    drive_tv(ctx, "heap", "Trace_Heap", "tvh.cfg", "heap", runs=ctx.pick(24, 240), ops=ctx.pick(300, 600))
    drive_tv(ctx, "heap", "Trace_PQ", "tvq.cfg", "pq", runs=ctx.pick(24, 240), ops=ctx.pick(300, 600))
    # larger queues (7-24 keys): removals/updates of inner keys followed by pops
    drive_tv(ctx, "heap", "Trace_PQ", "tvq_big.cfg", "pq", variant="big", runs=ctx.pick(80, 600), ops=ctx.pick(300, 600))
    ctx.assumptions += ["heap contents are observed with a fresh, fully drained iterator after every call",
                        "ties and duplicate initial keys: any candidate the statement allows is accepted"]
