"""C02 tree iterators stay correct while the tree is modified between Next calls (SortedMap 'fresh' rule)."""
from common import mc, mc_must_fail, lts_replay, drive_tv


def design(ctx):
    # D: the code's cursor algorithm (pre-fetch + re-seek) over an abstract map of 5 keys satisfies the
    #    'fresh' rule for every direction x bound-kind pair under all interleavings of Put/Delete/Next
    pairs = [(d, lo, hi) for d in ("fwd", "rev") for lo in ("unb", "inc", "exc") for hi in ("unb", "inc", "exc")]
    if ctx.quick():
        pairs = [pairs[i] for i in (0, 4, 8, 10, 14, 17)]
    for d, lo, hi in pairs:
        mc(ctx, "tree", "TreeCursor", "cur_%s_%s_%s.cfg" % (d, lo, hi), "TreeCursor %s %s %s" % (d, lo, hi), coverage=False, workers=4)
    # D (structural): BTreeCursor.tla - the pointer tree with node identity, "right.n = 0", gen, and the cursor
    #    (curr, i, k, gen) with lost() / seek / Next / Prev / refind; every interleaving of Put / Delete / Next over
    #    5 (6, 7) keys with fan-out 4: mutations that split, merge, rotate or unlink the node the iterator is parked
    #    in, collapse the root, empty the tree. Without "right.n = 0" the rule is violated (teeth).
    for cfg in (("bc5_fwd.cfg", "bc5_rev.cfg") if ctx.quick() else ("bc_fwd.cfg", "bc_rev.cfg", "bc_fwd_b.cfg", "bc_rev_b.cfg", "bc_fwd7.cfg", "bc_rev7.cfg")):
        mc(ctx, "tree", "BTreeCursor", cfg, "BTreeCursor " + cfg, coverage=False, workers=16, timeout=3000)
    mc_must_fail(ctx, "tree", "BTreeCursor", "bc5_nozero.cfg", "mergeTwo without right.n = 0", expect="NotBad")


def cursor_conformance(ctx, runs, ops):
    """binding of the structural I-layer to the code: recorded histories of a real tree.Map with open iterators are
    re-executed on BTreeCursor.tla with the shipped fan-out; after every call the node structure and every cursor
    (node, index, remembered key, generation seen) must agree with the hooks' read-outs. A disagreement is model
    drift (a note), never a verdict - verdicts come from the P-layer only."""
    import vlib
    tf = ctx.path("cursor.ndjson")
    rc, o = ctx.run_vh(["drive", "cursor", "-out", tf, "-runs", str(runs), "-ops", str(ops)])
    if rc != 0:
        raise vlib.Trouble("cursor driver died: " + o[-1500:])
    acc, r, hwm = ctx.tv("tree", "Trace_Cursor", "tvc.cfg", tf, timeout=3000)
    n = sum(1 for _ in open(tf))
    ctx.extra.setdefault("model_drift_checks", []).append({"model": "BTreeCursor", "events": n, "node_and_cursor_agreement": acc,
                                                            "first_disagreement_line": None if acc else hwm})
    if acc:
        ctx.traces += runs
        ctx.log("cursor conformance: BTreeCursor agrees with the code on %d events (structure and every cursor position)" % n)
    else:
        ctx.notes.append("model-drift: BTreeCursor and the code's structure / cursor positions disagree at line %s (not a verdict)" % hwm)
        ctx.log("cursor conformance: DISAGREEMENT at line %s (note only)" % hwm)


def run(ctx):
    design(ctx)
    cursor_conformance(ctx, ctx.pick(30, 300), ctx.pick(300, 600))
    # R: P-layer graph with one iterator (6 bound pairs x 2 directions) under every interleaving of Put/Delete/Next
    for variant in ("int", "rev", "set", "zero"):
        lts_replay(ctx, "tree", "SortedMap", "lts_it.cfg", "tree4", variant=variant, depth=ctx.pick(4, 5), walks=ctx.pick(6000, 60000), wlen=40,
                   budget=ctx.pick(200000, 2000000), min_cover=0)
    # T: up to six live forward/reverse iterators with random bounds on trees of 1-3 levels,
    #    mutations biased to the iterators' neighbourhood, drains that empty the tree, refills
    drive_tv(ctx, "tree", "Trace_Tree", "tv_Id40.cfg", "tree", variant="mix:40:noshape", runs=ctx.pick(18, 180), ops=ctx.pick(300, 600))
    drive_tv(ctx, "tree", "Trace_Tree", "tv_Id320.cfg", "tree", variant="mix:320:noshape", runs=ctx.pick(18, 180), ops=ctx.pick(500, 1000))
    drive_tv(ctx, "tree", "Trace_Tree", "tv_Coarse40.cfg", "tree", variant="coarse:40:noshape", runs=ctx.pick(6, 60), ops=ctx.pick(300, 600))
    if not ctx.quick():
        drive_tv(ctx, "tree", "Trace_Tree", "tv_Id1300.cfg", "tree", variant="mix:1300:noshape", runs=40, ops=2500, timeout=3000)
    ctx.assumptions += ["every Next runs under a 10 s watchdog (a spin is recorded as a HANG event, which no spec action matches)",
                        "keys inserted since the iterator's previous yield may be skipped (the 'fresh' set); everything else must be yielded"]
