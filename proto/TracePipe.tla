---- MODULE TracePipe ----
EXTENDS Integers, Sequences, FiniteSets, TLC, Json
CONSTANT B
Trace == ndJsonDeserialize("pipe.ndjson")
VARIABLES c, sClosed, rClosed, pend, l, delivered, ackedBeforeClose
vars == <<c, sClosed, rClosed, pend, l, delivered, ackedBeforeClose>>
Ev == Trace[l]
NoRes == [k |-> "none"]
Init == TLCSet(1, 0) /\ c = <<>> /\ sClosed = FALSE /\ rClosed = FALSE /\ pend = <<>> /\ l = 1 /\ delivered = {} /\ ackedBeforeClose = {}
Ids == DOMAIN pend
Call == /\ l <= Len(Trace) /\ Ev.ev = "call" /\ l' = l + 1
        /\ pend' = [i \in Ids \cup {Ev.id} |-> IF i = Ev.id THEN [op |-> Ev.op, arg |-> Ev.arg, res |-> NoRes] ELSE pend[i]]
        /\ UNCHANGED <<c, sClosed, rClosed, delivered, ackedBeforeClose>>
SetRes(i, r) == pend' = [pend EXCEPT ![i].res = r]
Unlin(i) == i \in Ids /\ pend[i].res = NoRes
\* linearisation steps (silent)
LinSendBuf(i) == Unlin(i) /\ pend[i].op = "Send" /\ Len(c) < B /\ c' = Append(c, pend[i].arg)
                 /\ SetRes(i, [k |-> "nil"]) /\ UNCHANGED <<sClosed, rClosed, l, delivered, ackedBeforeClose>>
LinSendAbort(i) == Unlin(i) /\ pend[i].op = "Send" /\ (sClosed \/ rClosed)
                 /\ SetRes(i, [k |-> "err"]) /\ UNCHANGED <<c, sClosed, rClosed, l, delivered, ackedBeforeClose>>
LinNextBuf(i) == Unlin(i) /\ pend[i].op = "Next" /\ Len(c) > 0 /\ c' = Tail(c)
                 /\ SetRes(i, [k |-> "val", v |-> Head(c)]) /\ delivered' = delivered \cup {Head(c)}
                 /\ UNCHANGED <<sClosed, rClosed, l, ackedBeforeClose>>
LinNextEnd(i) == Unlin(i) /\ pend[i].op = "Next" /\ sClosed
                 /\ ackedBeforeClose \subseteq delivered      \* the property: NoLossBeforeClose
                 /\ SetRes(i, [k |-> "end"]) /\ UNCHANGED <<c, sClosed, rClosed, l, delivered, ackedBeforeClose>>
LinClose(i) == Unlin(i) /\ pend[i].op = "CloseSender" /\ sClosed' = TRUE /\ SetRes(i, [k |-> "nil"])
                 /\ UNCHANGED <<c, rClosed, l, delivered, ackedBeforeClose>>
Lin == \E i \in Ids : LinSendBuf(i) \/ LinSendAbort(i) \/ LinNextBuf(i) \/ LinNextEnd(i) \/ LinClose(i)
Ret == /\ l <= Len(Trace) /\ Ev.ev = "ret" /\ Ev.id \in Ids /\ pend[Ev.id].res = Ev.res /\ l' = l + 1
       /\ pend' = [i \in Ids \ {Ev.id} |-> pend[i]]
       \* a Send that returned nil before CloseSender was *called* (CloseSender not yet pending/closed)
       /\ ackedBeforeClose' = IF pend[Ev.id].op = "Send" /\ Ev.res.k = "nil" /\ ~sClosed
                                   /\ ~\E j \in Ids : pend[j].op = "CloseSender"
                              THEN ackedBeforeClose \cup {pend[Ev.id].arg} ELSE ackedBeforeClose
       /\ UNCHANGED <<c, sClosed, rClosed, delivered>>
Quiesce == /\ l <= Len(Trace) /\ Ev.ev = "quiesce" /\ l' = l + 1
           /\ {i \in Ids : pend[i].res = NoRes} = {i \in Ids : TRUE}  \* nothing linearised-but-unreturned
           /\ ~ ENABLED Lin
           /\ UNCHANGED <<c, sClosed, rClosed, pend, delivered, ackedBeforeClose>>
Next == Call \/ Ret \/ Quiesce \/ Lin
Spec == Init /\ [][Next]_vars
HWM == TLCSet(1, IF TLCGet(1) < l THEN l ELSE TLCGet(1))
InitHWM == TLCSet(1, 0)
Accepted == TLCGet(1) = Len(Trace) + 1
====
