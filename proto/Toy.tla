---- MODULE Toy ----
EXTENDS Integers, Sequences, TLC, Json, TLCExt
CONSTANTS Vals, MaxLen
VARIABLES q, op

Init == q = <<>> /\ op = [name |-> "init", arg |-> 0, res |-> 0]
PushBack(v) == Len(q) < MaxLen /\ q' = Append(q, v) /\ op' = [name |-> "PushBack", arg |-> v, res |-> 0]
PushFront(v) == Len(q) < MaxLen /\ q' = <<v>> \o q /\ op' = [name |-> "PushFront", arg |-> v, res |-> 0]
PopFront == Len(q) > 0 /\ q' = Tail(q) /\ op' = [name |-> "PopFront", arg |-> 0, res |-> Head(q)]
PopBack == Len(q) > 0 /\ q' = SubSeq(q, 1, Len(q)-1) /\ op' = [name |-> "PopBack", arg |-> 0, res |-> q[Len(q)]]
Next == \/ \E v \in Vals : PushBack(v) \/ PushFront(v)
        \/ PopFront \/ PopBack
Spec == Init /\ [][Next]_<<q, op>>
View == q
\* export behaviours at depth D in simulation mode
Depth == 6
Export == TLCGet("level") < Depth \/ JsonSerialize("out/b" \o ToString(TLCGet("stats").traces) \o ".json", Trace)
====
