---- MODULE Toy2 ----
EXTENDS Toy
Dump == PrintT(<<"LTS", ToJson([from |-> q, op |-> op', to |-> q'])>>)
====
