---- MODULE ContextCond ----
EXTENDS Integers, FiniteSets, TLC
CONSTANTS NW, MaxSig, MaxBc, Cap      \* Cap = channel capacity (1 in the code)
Wt == 1..NW
\* channel generations: gen g has tokens[g] buffered tokens, closed[g]
VARIABLES cur, tokens, closed, pc, wch, ctxDone, signals, entered, woken, bcs, bcEntered
vars == <<cur, tokens, closed, pc, wch, ctxDone, signals, entered, woken, bcs, bcEntered>>
Gens == 0..MaxBc
Init == /\ cur = 0 /\ tokens = [g \in Gens |-> 0] /\ closed = [g \in Gens |-> FALSE]
        /\ pc = [w \in Wt |-> "start"] /\ wch = [w \in Wt |-> 0] /\ ctxDone = [w \in Wt |-> FALSE]
        /\ signals = 0 /\ entered = 0 /\ woken = 0 /\ bcs = 0 /\ bcEntered = {}
\* Wait: snapshot (under RLock, holding L) ; Unlock L (now "unparked": between unlock and select) ; park in select
Snapshot(w) == pc[w] = "start" /\ wch' = [wch EXCEPT ![w] = cur] /\ pc' = [pc EXCEPT ![w] = "snap"]
               /\ UNCHANGED <<cur, tokens, closed, ctxDone, signals, entered, woken, bcs, bcEntered>>
Unlock(w) == pc[w] = "snap" /\ pc' = [pc EXCEPT ![w] = "unparked"] /\ entered' = entered + 1
             /\ UNCHANGED <<cur, tokens, closed, wch, ctxDone, signals, woken, bcs, bcEntered>>
\* reaching the select: if something is ready take it, else park
SelectCh(w) == pc[w] \in {"unparked", "parked"} /\ (tokens[wch[w]] > 0 \/ closed[wch[w]])
               /\ tokens' = [tokens EXCEPT ![wch[w]] = IF closed[wch[w]] /\ @ = 0 THEN 0 ELSE @ - 1]
               /\ pc' = [pc EXCEPT ![w] = "woken"] /\ woken' = woken + 1
               /\ UNCHANGED <<cur, closed, wch, ctxDone, signals, entered, bcs, bcEntered>>
SelectCtx(w) == pc[w] \in {"unparked", "parked"} /\ ctxDone[w] /\ pc' = [pc EXCEPT ![w] = "ctxret"]
               /\ UNCHANGED <<cur, tokens, closed, wch, ctxDone, signals, entered, woken, bcs, bcEntered>>
Park(w) == pc[w] = "unparked" /\ tokens[wch[w]] = 0 /\ ~closed[wch[w]] /\ ~ctxDone[w] /\ pc' = [pc EXCEPT ![w] = "parked"]
           /\ UNCHANGED <<cur, tokens, closed, wch, ctxDone, signals, entered, woken, bcs, bcEntered>>
\* Signal: non-blocking send on current channel: hand-off to a parked receiver of that channel, else buffer, else drop
Signal == /\ signals < MaxSig /\ signals' = signals + 1
          /\ \/ \E w \in Wt : /\ pc[w] = "parked" /\ wch[w] = cur /\ tokens[cur] = 0
                              /\ pc' = [pc EXCEPT ![w] = "woken"] /\ woken' = woken + 1 /\ UNCHANGED tokens
             \/ /\ ~\E w \in Wt : pc[w] = "parked" /\ wch[w] = cur
                /\ tokens' = [tokens EXCEPT ![cur] = IF @ < Cap THEN @ + 1 ELSE @] /\ UNCHANGED <<pc, woken>>
          /\ UNCHANGED <<cur, closed, wch, ctxDone, entered, bcs, bcEntered>>
Broadcast == /\ bcs < MaxBc /\ bcs' = bcs + 1 /\ closed' = [closed EXCEPT ![cur] = TRUE] /\ cur' = cur + 1
             /\ bcEntered' = bcEntered \cup {w \in Wt : pc[w] \in {"unparked", "parked"}}
             /\ UNCHANGED <<tokens, pc, wch, ctxDone, signals, entered, woken>>
CtxCancel(w) == ~ctxDone[w] /\ pc[w] \in {"unparked", "parked"} /\ ctxDone' = [ctxDone EXCEPT ![w] = TRUE]
             /\ UNCHANGED <<cur, tokens, closed, pc, wch, signals, entered, woken, bcs, bcEntered>>
Prog == \E w \in Wt : SelectCh(w) \/ SelectCtx(w) \/ Park(w)
Env(allowCtx) == Signal \/ Broadcast \/ (\E w \in Wt : Snapshot(w) \/ Unlock(w)) \/ (allowCtx /\ \E w \in Wt : CtxCancel(w))
Next == Prog \/ Env(FALSE)
Spec == Init /\ [][Next]_vars
NextCtx == Prog \/ Env(TRUE)
SpecCtx == Init /\ [][NextCtx]_vars
\* normal form of the statement: all NW waiters have entered before the first Signal is *needed*; we check the
\* general quiescent form: nobody can move, someone is still parked, yet fewer were woken than signals sent after they entered.
Quiescent == ~ENABLED Prog
StillWaiting == {w \in Wt : pc[w] = "parked"}
\* signals issued while no waiter had entered may legitimately be remembered or dropped: count only the
\* conservative bound: woken >= min(entered - ctxret, signalsAfterEntered). Here we use the simple scenario
\* discipline "signals only after all waiters entered" expressed as a state predicate:
AllEnteredFirst == signals > 0 => entered = NW
NoLostWakeup == (Quiescent /\ StillWaiting # {}) => (woken >= signals)
BroadcastWakesAll == Quiescent => \A w \in bcEntered : pc[w] # "parked"
====
