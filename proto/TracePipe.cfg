SPECIFICATION Spec
CONSTANT B = 1
CONSTRAINT HWM
POSTCONDITION Accepted
CHECK_DEADLOCK FALSE
