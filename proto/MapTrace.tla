---- MODULE MapTrace ----
EXTENDS Integers, Sequences, TLC, Json, FiniteSets, SequencesExt, FiniteSetsExt
VARIABLES m, l
Trace == ndJsonDeserialize("maptrace.ndjson")
Keys(f) == DOMAIN f
InB(k, lo, hi) == /\ (lo.t = "unb" \/ (lo.t = "inc" /\ k >= lo.k) \/ (lo.t = "exc" /\ k > lo.k))
                  /\ (hi.t = "unb" \/ (hi.t = "inc" /\ k <= hi.k) \/ (hi.t = "exc" /\ k < hi.k))
SortedSeq(S) == SetToSortSeq(S, <)
RangeRes(f, lo, hi) == LET ks == SortedSeq({k \in DOMAIN f : InB(k, lo, hi)}) IN [i \in 1..Len(ks) |-> <<ks[i], f[ks[i]]>>]
Init == m = <<>> /\ l = 1
Ev == Trace[l]
Put == Ev.op = "Put" /\ m' = [k \in DOMAIN m \cup {Ev.k} |-> IF k = Ev.k THEN Ev.v ELSE m[k]]
Del == Ev.op = "Del" /\ m' = [k \in DOMAIN m \ {Ev.k} |-> m[k]]
Get == Ev.op = "Get" /\ Ev.res = (IF Ev.k \in DOMAIN m THEN m[Ev.k] ELSE 0) /\ UNCHANGED m
Rng == Ev.op = "Range" /\ Ev.res = RangeRes(m, Ev.lo, Ev.hi) /\ UNCHANGED m
LenOp == Ev.op = "Len" /\ Ev.res = Cardinality(DOMAIN m) /\ UNCHANGED m
Next == l <= Len(Trace) /\ l' = l + 1 /\ (Put \/ Del \/ Get \/ Rng \/ LenOp)
Spec == Init /\ [][Next]_<<m, l>>
Accepted == TLCGet("stats").diameter - 1 = Len(Trace)
====
