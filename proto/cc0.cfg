SPECIFICATION Spec
CONSTANTS NW = 1
MaxSig = 1
MaxBc = 1
Cap = 0
INVARIANTS NoLostWakeup BroadcastWakesAll
CONSTRAINT AllEnteredFirst
CHECK_DEADLOCK FALSE
