---- MODULE Pipe ----
EXTENDS Integers, Sequences, FiniteSets, TLC
CONSTANTS B, Senders, NVals
\* I-layer: each sender sends values <<s,1>>..<<s,NVals>> then stops; one closer closes the sender after
\* all Sends of sender "closerAfter" returned (models: Send returned nil before Close invoked).
VARIABLES c, senderDone, streamDone, spc, sidx, acked, rpc, got, closed, endSeen
vars == <<c, senderDone, streamDone, spc, sidx, acked, rpc, got, closed, endSeen>>

Init == /\ c = <<>> /\ senderDone = FALSE /\ streamDone = FALSE
        /\ spc = [s \in Senders |-> "idle"] /\ sidx = [s \in Senders |-> 1]
        /\ acked = [s \in Senders |-> <<>>]
        /\ rpc = "idle" /\ got = <<>> /\ closed = FALSE /\ endSeen = FALSE

\* sender enters Send (select)
StartSend(s) == spc[s] = "idle" /\ sidx[s] <= NVals /\ ~closed
                /\ spc' = [spc EXCEPT ![s] = "select"] /\ UNCHANGED <<c, senderDone, streamDone, sidx, acked, rpc, got, closed, endSeen>>
\* arm: c <- x  (buffered)
SendBuf(s) == spc[s] = "select" /\ Len(c) < B
              /\ c' = Append(c, <<s, sidx[s]>>)
              /\ acked' = [acked EXCEPT ![s] = Append(@, <<s, sidx[s]>>)]
              /\ sidx' = [sidx EXCEPT ![s] = @ + 1] /\ spc' = [spc EXCEPT ![s] = "idle"]
              /\ UNCHANGED <<senderDone, streamDone, rpc, got, closed, endSeen>>
\* arm: rendezvous with a receiver parked in Next (B = 0 or empty buffer with waiting receiver)
SendRdv(s) == spc[s] = "select" /\ rpc = "select" /\ Len(c) = 0
              /\ got' = Append(got, <<s, sidx[s]>>) /\ rpc' = "idle"
              /\ acked' = [acked EXCEPT ![s] = Append(@, <<s, sidx[s]>>)]
              /\ sidx' = [sidx EXCEPT ![s] = @ + 1] /\ spc' = [spc EXCEPT ![s] = "idle"]
              /\ UNCHANGED <<c, senderDone, streamDone, closed, endSeen>>
\* arm: senderDone / streamDone -> Send returns error, value not sent
SendAbort(s) == spc[s] = "select" /\ (senderDone \/ streamDone)
                /\ sidx' = [sidx EXCEPT ![s] = NVals + 1] /\ spc' = [spc EXCEPT ![s] = "idle"]
                /\ UNCHANGED <<c, senderDone, streamDone, acked, rpc, got, closed, endSeen>>
\* Close(nil) invoked only when every sender is idle (all Sends returned) -- the property's antecedent
CloseSender == ~closed /\ \A s \in Senders : spc[s] = "idle"
               /\ closed' = TRUE /\ senderDone' = TRUE
               /\ UNCHANGED <<c, streamDone, spc, sidx, acked, rpc, got, endSeen>>
StartNext == rpc = "idle" /\ ~endSeen /\ rpc' = "select"
             /\ UNCHANGED <<c, senderDone, streamDone, spc, sidx, acked, got, closed, endSeen>>
NextBuf == rpc = "select" /\ Len(c) > 0 /\ got' = Append(got, Head(c)) /\ c' = Tail(c) /\ rpc' = "idle"
           /\ UNCHANGED <<senderDone, streamDone, spc, sidx, acked, closed, endSeen>>
NextEnd == rpc = "select" /\ senderDone /\ endSeen' = TRUE /\ rpc' = "idle"
           /\ UNCHANGED <<c, senderDone, streamDone, spc, sidx, acked, got, closed>>
\* fixed variant: prefer buffered data in the senderDone arm
NextEndFixed == rpc = "select" /\ senderDone /\ Len(c) = 0 /\ endSeen' = TRUE /\ rpc' = "idle"
           /\ UNCHANGED <<c, senderDone, streamDone, spc, sidx, acked, got, closed>>

Next == \/ \E s \in Senders : StartSend(s) \/ SendBuf(s) \/ SendRdv(s) \/ SendAbort(s)
        \/ CloseSender \/ StartNext \/ NextBuf \/ NextEnd
NextFixed == \/ \E s \in Senders : StartSend(s) \/ SendBuf(s) \/ SendRdv(s) \/ SendAbort(s)
        \/ CloseSender \/ StartNext \/ NextBuf \/ NextEndFixed
Spec == Init /\ [][Next]_vars
SpecFixed == Init /\ [][NextFixed]_vars

Sub(seq, s) == SelectSeq(seq, LAMBDA x : x[1] = s)
PerSenderFIFO == \A s \in Senders : \E n \in 0..Len(acked[s]) : Sub(got, s) = SubSeq(acked[s], 1, n)
NoLossBeforeClose == endSeen => \A s \in Senders : Sub(got, s) = acked[s]
====
