SPECIFICATION Spec
CONSTANTS Vals = {1,2}
MaxLen = 3
VIEW View
ACTION_CONSTRAINT Dump
