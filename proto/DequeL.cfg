SPECIFICATION Spec
CONSTANTS Vals = {1,2}
MaxLen = 2
MaxCap = 16
MinSize = 16
GenFix = TRUE
VIEW View
ACTION_CONSTRAINT Dump
