SPECIFICATION Spec
CONSTANTS B = 1
Senders = {1,2}
NVals = 2
INVARIANTS PerSenderFIFO NoLossBeforeClose
CHECK_DEADLOCK FALSE
