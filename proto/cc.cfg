SPECIFICATION Spec
CONSTANTS NW = 2
MaxSig = 2
MaxBc = 1
Cap = 1
INVARIANTS NoLostWakeup BroadcastWakesAll
CONSTRAINT AllEnteredFirst
CHECK_DEADLOCK FALSE
