SPECIFICATION Spec
CONSTANTS NItems = 3
SrcEnd = "End"
BatchSize = 2
MaxWait = 2
MaxT = 3
NCalls = 2
ProducerSelectsOnCtx = TRUE
StopTimerOnWaitingFlush = TRUE
PROPERTY CloseReturns
CHECK_DEADLOCK FALSE
