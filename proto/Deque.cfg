SPECIFICATION Spec
CONSTANTS Vals = {1,2}
MaxLen = 3
MaxCap = 20
MinSize = 16
GenFix = FALSE
INVARIANTS Refines Retention IterJudge
VIEW View
