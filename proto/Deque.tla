---- MODULE Deque ----
EXTENDS Integers, Sequences, FiniteSets, TLC, Json
\* result sentinels: -1 panic, -2 end, -3 ok
CONSTANTS Vals, MaxLen, MaxCap, MinSize, GenFix   \* GenFix: model gen++ in resize and pop-to-empty
Zero == 0
VARIABLES buf, isNil, front, back, gen, q, op, it
\* gen is abstracted to a flag: 'gen was incremented since the live iterator was created' (sound: gen only grows)
\* it: iterator [live, i, done, gen, snap, j]  (one iterator)
vars == <<buf, isNil, front, back, gen, q, op, it>>
NoIt == [live |-> FALSE, i |-> 0, done |-> FALSE, gen |-> FALSE, snap |-> <<>>, j |-> 0, st |-> 0]
Init == buf = <<>> /\ isNil = TRUE /\ front = 0 /\ back = 0 /\ gen = FALSE /\ q = <<>> /\ it = NoIt
        /\ op = [name |-> "init", arg |-> 0, res |-> (-3)]
Cap == Len(buf)
LenI == IF isNil \/ back = -1 THEN 0 ELSE IF front <= back THEN back - front + 1 ELSE Cap - front + back + 1
At(i) == buf[i + 1]                    \* 0-based
Live == IF LenI = 0 THEN <<>> ELSE [k \in 1..LenI |-> At((front + k - 1) % Cap)]
PMod(l, d) == ((l % d) + d) % d
Max(a, b) == IF a > b THEN a ELSE b
\* resize(n): returns record of new [buf, front, back]
Resized(n) == LET old == Live IN
   [buf |-> [k \in 1..n |-> IF k <= Len(old) THEN old[k] ELSE Zero], front |-> 0, back |-> Len(old) - 1]
R(name, arg, res) == op' = [name |-> name, arg |-> arg, res |-> res]
ApplyResize(n) == LET r == Resized(n) IN buf' = r.buf /\ front' = r.front /\ back' = r.back /\ isNil' = FALSE
\* state after maybeExpand (as a record), used by pushes
Expanded == IF LenI = Cap THEN LET r == Resized(Max(MinSize, Cap * 2)) IN [buf |-> r.buf, front |-> r.front, back |-> r.back, grew |-> TRUE]
            ELSE [buf |-> buf, front |-> front, back |-> back, grew |-> FALSE]
PushFront(v) == /\ Len(q) < MaxLen
   /\ LET e == Expanded  nf == PMod(e.front - 1, Len(e.buf)) IN
      /\ buf' = [e.buf EXCEPT ![nf + 1] = v] /\ front' = nf /\ back' = IF e.back = -1 THEN nf ELSE e.back
      /\ isNil' = FALSE /\ gen' = TRUE
   /\ q' = <<v>> \o q /\ R("PushFront", v, (-3)) /\ UNCHANGED it
PushBack(v) == /\ Len(q) < MaxLen
   /\ LET e == Expanded  nb == IF e.back = -1 THEN e.front ELSE (e.back + 1) % Len(e.buf) IN
      /\ buf' = [e.buf EXCEPT ![nb + 1] = v] /\ back' = nb /\ front' = e.front
      /\ isNil' = FALSE /\ gen' = TRUE
   /\ q' = Append(q, v) /\ R("PushBack", v, (-3)) /\ UNCHANGED it
PopFront == IF LenI = 0 THEN R("PopFront", 0, (-1)) /\ UNCHANGED <<buf, isNil, front, back, gen, q, it>>
   ELSE /\ R("PopFront", 0, At(front)) /\ q' = Tail(q) /\ buf' = [buf EXCEPT ![front + 1] = Zero] /\ UNCHANGED <<isNil, it>>
        /\ IF LenI = 1 THEN front' = 0 /\ back' = -1 /\ gen' = (gen \/ GenFix)
           ELSE front' = (front + 1) % Cap /\ gen' = TRUE /\ UNCHANGED back
PopBack == IF LenI = 0 THEN R("PopBack", 0, (-1)) /\ UNCHANGED <<buf, isNil, front, back, gen, q, it>>
   ELSE /\ R("PopBack", 0, At(back)) /\ q' = SubSeq(q, 1, Len(q) - 1) /\ buf' = [buf EXCEPT ![back + 1] = Zero] /\ UNCHANGED <<isNil, it>>
        /\ IF LenI = 1 THEN front' = 0 /\ back' = -1 /\ gen' = (gen \/ GenFix)
           ELSE back' = PMod(back - 1, Cap) /\ gen' = TRUE /\ UNCHANGED front
Grow(n) == /\ Cap + n <= MaxCap
           /\ IF Cap - LenI < n THEN ApplyResize(Cap + n) /\ gen' = (gen \/ GenFix) ELSE UNCHANGED <<buf, isNil, front, back, gen>>
           /\ R("Grow", n, (-3)) /\ UNCHANGED <<q, it>>
Shrink(n) == IF n < 0 THEN R("Shrink", n, (-1)) /\ UNCHANGED <<buf, isNil, front, back, gen, q, it>>
   ELSE /\ IF Cap - LenI > n THEN ApplyResize(LenI + n) /\ gen' = (gen \/ GenFix) ELSE UNCHANGED <<buf, isNil, front, back, gen>>
        /\ R("Shrink", n, (-3)) /\ UNCHANGED <<q, it>>
SetOp(i, v) == IF i < 0 \/ i >= LenI THEN R("Set", <<i, v>>, (-1)) /\ UNCHANGED <<buf, isNil, front, back, gen, q, it>>
   ELSE /\ buf' = [buf EXCEPT ![((front + i) % Cap) + 1] = v] /\ q' = [q EXCEPT ![i + 1] = v]
        /\ R("Set", <<i, v>>, (-3)) /\ UNCHANGED <<isNil, front, back, gen, it>>
Iterate == /\ ~it.live /\ it' = [live |-> TRUE, i |-> front, done |-> FALSE, gen |-> FALSE, snap |-> q, j |-> 0, st |-> 0]
           /\ gen' = FALSE /\ R("Iterate", 0, (-3)) /\ UNCHANGED <<buf, isNil, front, back, q>>
\* I-layer iterator Next, outcome res in {(-1), (-2), value}; st counts structural changes seen (history)
IterNext == /\ it.live
   /\ LET res == IF gen THEN (-1)
                 ELSE IF LenI = 0 \/ it.done THEN (-2)
                 ELSE IF it.i >= Cap THEN (-1)        \* index out of range after Shrink
                 ELSE At(it.i) IN
      /\ R("IterNext", 0, res)
      /\ IF res \in {(-1), (-2)} THEN it' = IF res = (-2) THEN it ELSE NoIt   \* stop after panic; keep calling after end
         ELSE it' = [it EXCEPT !.done = (it.i = back), !.i = (it.i + 1) % Cap, !.j = it.j + 1]
   /\ UNCHANGED <<buf, isNil, front, back, gen, q>>
Next == \/ (\E v \in Vals : PushFront(v) \/ PushBack(v))
        \/ PopFront \/ PopBack \/ (\E n \in 0..3 : Grow(n)) \/ (\E sn \in -1..2 : Shrink(sn))
        \/ (\E i \in 0..1, sv \in Vals : SetOp(i, sv)) \/ Iterate \/ IterNext
Spec == Init /\ [][Next]_vars
----
Refines == Live = q
Retention == \A k \in 0..(Cap - 1) : (LenI = 0 \/ ~(\E d \in 0..(LenI - 1) : (front + d) % Cap = k)) => At(k) = Zero
\* P-layer judgement of the last iterator outcome (structure snapshot = it.snap taken at Iterate)
\* position j (before the call) ; "unchanged" judged by sequence identity modulo Set: same length and no push/pop since
IterJudge == (op.name = "IterNext") =>
   \/ op.res = (-1)
   \/ (op.res = (-2) /\ it.j = Len(it.snap))
   \/ (op.res \notin {(-1), (-2)} /\ it.j <= Len(it.snap) /\ it.j >= 1 /\ (op.res = it.snap[it.j] \/ (it.j <= Len(q) /\ op.res = q[it.j])))
View == <<buf, isNil, front, back, gen, q, it>>
Dump == PrintT(<<"LTS", ToJson([from |-> [cap |-> Cap, front |-> front, back |-> back, q |-> q], op |-> op', to |-> [cap |-> Len(buf'), front |-> front', back |-> back', q |-> q']])>>)
====
