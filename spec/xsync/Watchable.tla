------------------------------ MODULE Watchable ------------------------------
(* I-layer of xsync.Watchable and xsync.Future (C18).
   Watchable: an atomic pointer p to a cell [val, closed]; Set = (Swap in a fresh cell; yield point
   "Set.swapped"; close the old cell's channel); Value = (Load; if nil: yield point "Value.nil", then
   CompareAndSwap(nil, empty cell) - UseCAS = FALSE models a plain Store, the seeded defect - else
   reload). Cells are numbered; cell 0 stands for "no cell yet" (nil).
   P: at every quiescent point the current cell holds the value of a last Set (of the concurrent ones,
   any), every cell that is not current is closed and the current one is open - which is what lets an
   observer loop (Value; <-changed) end up with the final value. *)
EXTENDS Integers, FiniteSets, Sequences, TLC
CONSTANTS Setters, Readers, UseCAS
Procs == Setters \cup Readers
VARIABLES p, cells, pc, mine, old, got
\* cells: sequence of [val, closed]; p: index of the current cell (0 = nil)
vars == <<p, cells, pc, mine, old, got>>
Init == /\ p = 0 /\ cells = <<>> /\ pc = [x \in Procs |-> "start"] /\ mine = [x \in Procs |-> 0] /\ old = [x \in Procs |-> 0]
        /\ got = [x \in Readers |-> <<-1, 0>>]
Un(vs) == UNCHANGED vs
\* Set(v) by setter s (v = s): new cell, swap, (yield), close old
SetSwap(s) == /\ s \in Setters /\ pc[s] = "start"
              /\ cells' = Append(cells, [val |-> s, closed |-> FALSE]) /\ p' = Len(cells) + 1 /\ old' = [old EXCEPT ![s] = p]
              /\ pc' = [pc EXCEPT ![s] = "swapped"] /\ Un(<<mine, got>>)
SetClose(s) == /\ s \in Setters /\ pc[s] = "swapped"
               /\ cells' = (IF old[s] # 0 THEN [cells EXCEPT ![old[s]].closed = TRUE] ELSE cells)
               /\ pc' = [pc EXCEPT ![s] = "done"] /\ Un(<<p, mine, old, got>>)
\* Value() by reader r
VLoad(r) == /\ r \in Readers /\ pc[r] = "start"
            /\ IF p # 0 THEN got' = [got EXCEPT ![r] = <<cells[p].val, p>>] /\ pc' = [pc EXCEPT ![r] = "done"]
               ELSE pc' = [pc EXCEPT ![r] = "sawnil"] /\ Un(got)
            /\ Un(<<p, cells, mine, old>>)
VInstall(r) == /\ r \in Readers /\ pc[r] = "sawnil"
               /\ IF p = 0 \/ ~UseCAS
                  THEN /\ cells' = Append(cells, [val |-> 0, closed |-> FALSE]) /\ p' = Len(cells) + 1      \* (a plain Store smashes a real value)
                       /\ got' = [got EXCEPT ![r] = <<0, Len(cells) + 1>>] /\ pc' = [pc EXCEPT ![r] = "done"]
                  ELSE /\ got' = [got EXCEPT ![r] = <<cells[p].val, p>>] /\ pc' = [pc EXCEPT ![r] = "done"] /\ Un(<<p, cells>>)   \* CAS failed: reload
               /\ Un(<<mine, old>>)
Done == (\A x \in Procs : pc[x] = "done") /\ UNCHANGED vars
Next == Done \/ (\E x \in Procs : SetSwap(x) \/ SetClose(x) \/ VLoad(x) \/ VInstall(x))
Spec == Init /\ [][Next]_vars
Quiescent == \A x \in Procs : pc[x] = "done"
\* latest value seen: at quiescence the current cell holds one of the Set values (if any Set ran), it is open,
\* and every other cell - in particular every channel handed to a reader with an older value - is closed
FinalOK == Quiescent =>
   /\ (Setters # {} => p # 0 /\ cells[p].val \in Setters)
   /\ (p # 0 => ~cells[p].closed)
   /\ \A i \in 1..Len(cells) : i # p => cells[i].closed
\* a reader never gets a value nobody set (0 = zero value before the first Set)
ValueOK == \A r \in Readers : got[r][1] \in Setters \cup {0, -1}
==============================================================================
