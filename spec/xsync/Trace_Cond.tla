----------------------------- MODULE Trace_Cond -----------------------------
(* C16: validation of ContextCond histories recorded in synctest bubbles against the P-layer of
   ContextCond.tla (waiting / bcOwed / credits). Records: unlocked(w) = waiter w has released the lock
   inside Wait and is held at the harness's gate; release(w); signal; broadcast; cancel(w);
   ret(w, res, held); q(gated) = every goroutine is durably blocked, gated = waiters still held. *)
EXTENDS Integers, Sequences, FiniteSets, TLC, Json
Trace == ndJsonDeserialize("trace.ndjson")
VARIABLES waiting, credits, bcOwed, cancelled, epi, l
vars == <<waiting, credits, bcOwed, cancelled, epi, l>>
Ev == Trace[l]
Max(a, b) == IF a > b THEN a ELSE b
Min(a, b) == IF a < b THEN a ELSE b
Init == waiting = {} /\ credits = 0 /\ bcOwed = {} /\ cancelled = {} /\ epi = FALSE /\ l = 1 /\ TLCSet(1, 0)
SigDebt == IF Cardinality(waiting \ bcOwed) > credits THEN credits + 1 ELSE credits
ToSet(s) == {s[i] : i \in 1..Len(s)}
Next ==
  /\ l <= Len(Trace) /\ l' = l + 1
  /\ epi' = (IF Ev.ev = "reset" THEN FALSE ELSE IF Ev.ev = "epilogue" THEN TRUE ELSE epi)
  /\ CASE Ev.ev = "reset" -> waiting' = {} /\ credits' = 0 /\ bcOwed' = {} /\ cancelled' = {}
       \* after the last judgement point the harness cancels every context so that the bubble can end: not judged
       [] Ev.ev = "epilogue" \/ (epi /\ Ev.ev # "reset") -> UNCHANGED <<waiting, credits, bcOwed, cancelled>>
       [] Ev.ev = "unlocked" -> waiting' = waiting \cup {Ev.w} /\ UNCHANGED <<credits, bcOwed, cancelled>>
       [] Ev.ev \in {"enter", "release"} -> UNCHANGED <<waiting, credits, bcOwed, cancelled>>
       [] Ev.ev = "signal" -> credits' = SigDebt /\ UNCHANGED <<waiting, bcOwed, cancelled>>
       [] Ev.ev = "broadcast" -> bcOwed' = bcOwed \cup waiting /\ credits' = 0 /\ UNCHANGED <<waiting, cancelled>>
       [] Ev.ev = "cancel" -> cancelled' = cancelled \cup {Ev.w} /\ UNCHANGED <<waiting, credits, bcOwed>>
       [] Ev.ev = "ret" /\ Ev.res = "nil" ->          \* woken: holds the lock again; pays one debt
            /\ Ev.held = 1 /\ Ev.w \in waiting
            /\ waiting' = waiting \ {Ev.w} /\ bcOwed' = bcOwed \ {Ev.w}
            /\ credits' = (IF Ev.w \in bcOwed THEN credits ELSE Max(0, credits - 1)) /\ UNCHANGED cancelled
       [] Ev.ev = "ret" /\ Ev.res = "ctx" ->          \* gave up: context ended, lock not held, debt stays with the others
            /\ Ev.held = 0 /\ Ev.w \in cancelled /\ Ev.w \in waiting
            /\ waiting' = waiting \ {Ev.w} /\ bcOwed' = bcOwed \ {Ev.w}
            /\ credits' = Min(credits, Cardinality((waiting \ {Ev.w}) \ (bcOwed \ {Ev.w}))) /\ UNCHANGED cancelled
       [] Ev.ev = "q" ->                              \* no lost wake-up; prompt return on context expiry
            LET gated == ToSet(Ev.gated) IN
            /\ bcOwed \subseteq gated
            /\ credits <= Cardinality(gated \cap (waiting \ bcOwed))
            /\ \A w \in waiting : w \in cancelled => w \in gated
            /\ UNCHANGED <<waiting, credits, bcOwed, cancelled>>
Spec == Init /\ [][Next]_vars
HWM == TLCSet(1, IF TLCGet(1) < l THEN l ELSE TLCGet(1))
Accepted == PrintT(<<"HWM", TLCGet(1)>>) /\ TLCGet(1) = Len(Trace) + 1
=============================================================================
