SPECIFICATION LSpec
CONSTANTS
  Alphabet = {0, 40, 60, 61, 62, 65}
  MaxLen = 7
VIEW View
ACTION_CONSTRAINT Dump
CHECK_DEADLOCK FALSE
