SPECIFICATION LSpec
CONSTANTS
  NF = 1
  MaxLen = 9
  Advs = {4, 10, 25}
VIEW View
ACTION_CONSTRAINT Dump
CHECK_DEADLOCK FALSE
