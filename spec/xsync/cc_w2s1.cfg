SPECIFICATION Spec
CONSTANTS
  NW = 2
  MaxSig = 1
  MaxBc = 1
  MaxCancel = 2
  Cap = 1
  EnvAtQuiescence = FALSE
INVARIANTS NoLostWakeup CtxPrompt
CHECK_DEADLOCK FALSE
