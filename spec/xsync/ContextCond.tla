----------------------------- MODULE ContextCond -----------------------------
(* C16: xsync.ContextCond never loses a wakeup.
   I-layer: the channel generations of the code (ch is replaced by Broadcast; capacity Cap = 1 in
   the code), each waiter's progress through Wait: "start" -> (snapshot ch under the read lock,
   L.Unlock) "gated" -> (the harness releases it) "run" -> parks in the select or takes a ready arm.
   The environment actions are exactly the steps of the bubble harness: Enter(w), Release(w), Signal,
   Broadcast, Cancel(w); a TLC counterexample is therefore a schedule that can be replayed literally.
   P-layer (CondP, also used by Trace_Cond): waiting = waiters that have released the lock and not
   returned; bcOwed = the waiters a Broadcast found waiting (each of them must wake); credits =
   wake-ups owed by Signals to the other waiters: a Signal adds one if somebody is not yet owed, a
   waiter returning nil pays one, a waiter returning its context's error leaves the debt to the
   others. When nothing can move, a debt may only be outstanding for waiters the environment still
   holds at the gate.
   EnvAtQuiescence = TRUE restricts environment steps to quiescent states - the discipline of the
   bubble harness (synctest.Wait after every step) - so that a counterexample is a literal schedule. *)
EXTENDS Integers, FiniteSets, TLC
CONSTANTS NW, MaxSig, MaxBc, MaxCancel, Cap, EnvAtQuiescence
Wt == 1..NW
Gens == 0..MaxBc
VARIABLES cur, tokens, closed,          \* I: current channel generation, buffered tokens, closed flag per generation
          pc, wch, ctxDone,             \* I: per waiter
          waiting, credits, bcOwed,     \* P
          nsig, nbc, ncancel
vars == <<cur, tokens, closed, pc, wch, ctxDone, waiting, credits, bcOwed, nsig, nbc, ncancel>>
Init == /\ cur = 0 /\ tokens = [g \in Gens |-> 0] /\ closed = [g \in Gens |-> FALSE]
        /\ pc = [w \in Wt |-> "start"] /\ wch = [w \in Wt |-> 0] /\ ctxDone = [w \in Wt |-> FALSE]
        /\ waiting = {} /\ credits = 0 /\ bcOwed = {} /\ nsig = 0 /\ nbc = 0 /\ ncancel = 0
Max(a, b) == IF a > b THEN a ELSE b
Min(a, b) == IF a < b THEN a ELSE b
\* some released waiter can take a step (written out: ENABLED Prog)
CanRun(w) == pc[w] = "run" \/ (pc[w] = "parked" /\ (tokens[wch[w]] > 0 \/ closed[wch[w]] \/ ctxDone[w]))
EnvOK == EnvAtQuiescence => ~\E w \in Wt : CanRun(w)
\* ---- environment (harness) steps
Enter(w) == /\ EnvOK /\ pc[w] = "start" /\ wch' = [wch EXCEPT ![w] = cur] /\ pc' = [pc EXCEPT ![w] = "gated"]
            /\ waiting' = waiting \cup {w}
            /\ UNCHANGED <<cur, tokens, closed, ctxDone, credits, bcOwed, nsig, nbc, ncancel>>
Release(w) == /\ EnvOK /\ pc[w] = "gated" /\ pc' = [pc EXCEPT ![w] = "run"]
              /\ UNCHANGED <<cur, tokens, closed, wch, ctxDone, waiting, credits, bcOwed, nsig, nbc, ncancel>>
\* ---- P-layer bookkeeping
SigDebt == IF Cardinality(waiting \ bcOwed) > credits THEN credits + 1 ELSE credits     \* credits after one more Signal
Pay(w) == /\ waiting' = waiting \ {w} /\ bcOwed' = bcOwed \ {w}
          /\ credits' = IF w \in bcOwed THEN credits ELSE Max(0, credits - 1)
GiveUp(w) == /\ waiting' = waiting \ {w} /\ bcOwed' = bcOwed \ {w}
             /\ credits' = Min(credits, Cardinality((waiting \ {w}) \ (bcOwed \ {w})))
\* Signal: non-blocking send on the current channel: hand-off to a parked receiver, else buffer, else dropped
Signal == /\ EnvOK /\ nsig < MaxSig /\ nsig' = nsig + 1
          /\ \/ \E w \in Wt : /\ pc[w] = "parked" /\ wch[w] = cur
                              /\ pc' = [pc EXCEPT ![w] = "woken"] /\ UNCHANGED tokens
                              \* the debt of this Signal is created and paid at once
                              /\ waiting' = waiting \ {w} /\ bcOwed' = bcOwed \ {w}
                              /\ credits' = IF w \in bcOwed THEN SigDebt ELSE Max(0, SigDebt - 1)
             \/ /\ ~\E w \in Wt : pc[w] = "parked" /\ wch[w] = cur
                /\ tokens' = [tokens EXCEPT ![cur] = IF @ < Cap THEN @ + 1 ELSE @] /\ UNCHANGED <<pc, waiting, bcOwed>>
                /\ credits' = SigDebt
          /\ UNCHANGED <<cur, closed, wch, ctxDone, nbc, ncancel>>
Broadcast == /\ EnvOK /\ nbc < MaxBc /\ nbc' = nbc + 1 /\ closed' = [closed EXCEPT ![cur] = TRUE] /\ cur' = cur + 1
             /\ bcOwed' = bcOwed \cup waiting /\ credits' = 0
             /\ UNCHANGED <<tokens, pc, wch, ctxDone, waiting, nsig, ncancel>>
Cancel(w) == /\ EnvOK /\ ncancel < MaxCancel /\ ~ctxDone[w] /\ pc[w] \in {"gated", "run", "parked"} /\ ctxDone' = [ctxDone EXCEPT ![w] = TRUE]
             /\ ncancel' = ncancel + 1
             /\ UNCHANGED <<cur, tokens, closed, pc, wch, waiting, credits, bcOwed, nsig, nbc>>
\* ---- program steps of a released waiter: the select of Wait
TakeCh(w) == /\ pc[w] \in {"run", "parked"} /\ (tokens[wch[w]] > 0 \/ closed[wch[w]])
             /\ tokens' = [tokens EXCEPT ![wch[w]] = IF @ > 0 THEN @ - 1 ELSE 0]
             /\ pc' = [pc EXCEPT ![w] = "woken"] /\ Pay(w)
             /\ UNCHANGED <<cur, closed, wch, ctxDone, nsig, nbc, ncancel>>
TakeCtx(w) == /\ pc[w] \in {"run", "parked"} /\ ctxDone[w] /\ pc' = [pc EXCEPT ![w] = "ctxret"]
              /\ GiveUp(w)
              /\ UNCHANGED <<cur, tokens, closed, wch, ctxDone, nsig, nbc, ncancel>>
Park(w) == /\ pc[w] = "run" /\ tokens[wch[w]] = 0 /\ ~closed[wch[w]] /\ ~ctxDone[w] /\ pc' = [pc EXCEPT ![w] = "parked"]
           /\ UNCHANGED <<cur, tokens, closed, wch, ctxDone, waiting, credits, bcOwed, nsig, nbc, ncancel>>
Prog == \E w \in Wt : TakeCh(w) \/ TakeCtx(w) \/ Park(w)
Env == Signal \/ Broadcast \/ (\E w \in Wt : Enter(w) \/ Release(w) \/ Cancel(w))
Next == Prog \/ Env
Spec == Init /\ [][Next]_vars
Quiescent == ~ENABLED Prog
Gated == {w \in Wt : pc[w] = "gated"}
\* no lost wake-up: a debt can only be outstanding for waiters still held at the gate
NoLostWakeup == Quiescent => (bcOwed \subseteq Gated /\ credits <= Cardinality(Gated \cap (waiting \ bcOwed)))
\* a waiter whose context ended returns promptly
CtxPrompt == Quiescent => \A w \in Wt : (ctxDone[w] /\ w \in waiting) => pc[w] = "gated"
==============================================================================
