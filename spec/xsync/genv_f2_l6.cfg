SPECIFICATION LSpec
CONSTANTS
  NF = 2
  MaxLen = 6
  Advs = {4, 10, 25}
VIEW View
ACTION_CONSTRAINT Dump
CHECK_DEADLOCK FALSE
