SPECIFICATION LSpec
CONSTANTS
  Keys = {1,2}
  Vals = {0,1,2}
  Cls <- ClsId
  NanKey = 0
  WithCmp = FALSE
VIEW View
ACTION_CONSTRAINT Dump
