SPECIFICATION Spec
CONSTANTS
  NReg = 0
  AddInsideLock = TRUE
  NTrig = 2
  TokCap = 0
INVARIANTS Barrier NoLateStart NoLostTrigger
