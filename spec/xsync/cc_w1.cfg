SPECIFICATION Spec
CONSTANTS
  NW = 1
  MaxSig = 3
  MaxBc = 1
  MaxCancel = 1
  Cap = 1
  EnvAtQuiescence = FALSE
INVARIANTS NoLostWakeup CtxPrompt
CHECK_DEADLOCK FALSE
