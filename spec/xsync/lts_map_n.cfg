SPECIFICATION LSpec
CONSTANTS
  Keys = {1,2}
  Vals = {0,1,2}
  Cls <- ClsId
  NanKey = 2
  WithCmp = TRUE
VIEW View
ACTION_CONSTRAINT Dump
