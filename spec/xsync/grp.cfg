SPECIFICATION Spec
CONSTANTS
  NReg = 2
  AddInsideLock = TRUE
  NTrig = 3
  TokCap = 1
INVARIANTS Barrier NoLateStart NoLostTrigger
