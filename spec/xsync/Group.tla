-------------------------------- MODULE Group --------------------------------
(* I-layer of xsync.Group (C17): spawn = (RLock; if ctx done: RUnlock, return; wg.Add(1); RUnlock; go f),
   Stop = (Lock; cancel; Unlock), StopAndWait = Stop; wg.Wait. The RWMutex is modelled with separate
   acquire / release steps because it is the subject: AddInsideLock = FALSE models wg.Add after the
   RUnlock (a seeded defect). A Trigger loop: token channel of capacity TokCap (1 in the code), the loop
   takes a token and runs f (begin / end), the trigger function does a non-blocking send.
   TLC: every interleaving of NReg concurrent registrations with one StopAndWait, and of trigger calls
   with the loop. *)
EXTENDS Integers, FiniteSets, TLC
CONSTANTS NReg, AddInsideLock, NTrig, TokCap
Regs == 1..NReg
VARIABLES rlocks, wlock, ctxDone, wg, rpc, frun, spc, waited, lateStart,
          tok, lpc, fired, runsBegun, lastFireServed
vars == <<rlocks, wlock, ctxDone, wg, rpc, frun, spc, waited, lateStart, tok, lpc, fired, runsBegun, lastFireServed>>
Init == /\ rlocks = {} /\ wlock = FALSE /\ ctxDone = FALSE /\ wg = 0 /\ rpc = [r \in Regs |-> "start"] /\ frun = {}
        /\ spc = "start" /\ waited = FALSE /\ lateStart = FALSE
        /\ tok = 0 /\ lpc = "select" /\ fired = 0 /\ runsBegun = 0 /\ lastFireServed = TRUE
Un(vs) == UNCHANGED vs
TrigVars == <<tok, lpc, fired, runsBegun, lastFireServed>>
StopVars == <<rlocks, wlock, ctxDone, wg, rpc, frun, spc, waited, lateStart>>
\* ---- spawn by registration r
RLock(r) == rpc[r] = "start" /\ ~wlock /\ rlocks' = rlocks \cup {r} /\ rpc' = [rpc EXCEPT ![r] = "locked"]
            /\ Un(<<wlock, ctxDone, wg, frun, spc, waited, lateStart>>) /\ Un(TrigVars)
Check(r) == /\ rpc[r] = "locked"
            /\ IF ctxDone THEN rlocks' = rlocks \ {r} /\ rpc' = [rpc EXCEPT ![r] = "skipped"] /\ Un(wg)
               ELSE IF AddInsideLock THEN wg' = wg + 1 /\ rpc' = [rpc EXCEPT ![r] = "added"] /\ Un(rlocks)
               ELSE rlocks' = rlocks \ {r} /\ rpc' = [rpc EXCEPT ![r] = "unlocked"] /\ Un(wg)
            /\ Un(<<wlock, ctxDone, frun, spc, waited, lateStart>>) /\ Un(TrigVars)
RUnlock(r) == rpc[r] = "added" /\ rlocks' = rlocks \ {r} /\ rpc' = [rpc EXCEPT ![r] = "go"]
              /\ Un(<<wlock, ctxDone, wg, frun, spc, waited, lateStart>>) /\ Un(TrigVars)
LateAdd(r) == rpc[r] = "unlocked" /\ wg' = wg + 1 /\ rpc' = [rpc EXCEPT ![r] = "go"]
              /\ Un(<<rlocks, wlock, ctxDone, frun, spc, waited, lateStart>>) /\ Un(TrigVars)
FBegin(r) == rpc[r] = "go" /\ frun' = frun \cup {r} /\ rpc' = [rpc EXCEPT ![r] = "running"] /\ lateStart' = (lateStart \/ waited)
             /\ Un(<<rlocks, wlock, ctxDone, wg, spc, waited>>) /\ Un(TrigVars)
FEnd(r) == rpc[r] = "running" /\ frun' = frun \ {r} /\ wg' = wg - 1 /\ rpc' = [rpc EXCEPT ![r] = "finished"]
           /\ Un(<<rlocks, wlock, ctxDone, spc, waited, lateStart>>) /\ Un(TrigVars)
\* ---- StopAndWait
SLock == spc = "start" /\ rlocks = {} /\ ~wlock /\ wlock' = TRUE /\ spc' = "locked"
         /\ Un(<<rlocks, ctxDone, wg, rpc, frun, waited, lateStart>>) /\ Un(TrigVars)
SCancel == spc = "locked" /\ ctxDone' = TRUE /\ wlock' = FALSE /\ spc' = "wait"
           /\ Un(<<rlocks, wg, rpc, frun, waited, lateStart>>) /\ Un(TrigVars)
SWait == spc = "wait" /\ wg = 0 /\ waited' = TRUE /\ spc' = "done"
         /\ Un(<<rlocks, wlock, ctxDone, wg, rpc, frun, lateStart>>) /\ Un(TrigVars)
\* ---- a Trigger loop (independent of the stop machinery above)
Fire == /\ fired < NTrig /\ fired' = fired + 1 /\ Un(StopVars)
        /\ IF tok < TokCap THEN tok' = tok + 1 /\ lastFireServed' = FALSE /\ Un(<<lpc, runsBegun>>)              \* token buffered: served by the next take
           ELSE IF TokCap = 0 /\ lpc = "select" THEN lpc' = "f" /\ runsBegun' = runsBegun + 1 /\ lastFireServed' = TRUE /\ Un(tok)   \* hand-off to the waiting loop
           ELSE lastFireServed' = (tok >= 1) /\ Un(<<tok, lpc, runsBegun>>)        \* dropped: fine only if a pending token will start a run after this call
LTake == lpc = "select" /\ tok > 0 /\ tok' = tok - 1 /\ lpc' = "f" /\ runsBegun' = runsBegun + 1 /\ lastFireServed' = TRUE
         /\ Un(fired) /\ Un(StopVars)
LEnd == lpc = "f" /\ lpc' = "select" /\ Un(<<tok, fired, runsBegun, lastFireServed>>) /\ Un(StopVars)
Done == spc = "done" /\ (\A r \in Regs : rpc[r] \in {"skipped", "finished"}) /\ fired = NTrig /\ lpc = "select" /\ tok = 0 /\ UNCHANGED vars
Next == Done \/ SLock \/ SCancel \/ SWait \/ Fire \/ LTake \/ LEnd
        \/ (\E r \in Regs : RLock(r) \/ Check(r) \/ RUnlock(r) \/ LateAdd(r) \/ FBegin(r) \/ FEnd(r))
Spec == Init /\ [][Next]_vars
\* ---- C17
Barrier == waited => frun = {}                      \* nothing is running when StopAndWait has returned
NoLateStart == ~lateStart                           \* ... and nothing starts afterwards
\* every trigger call is followed by a run that begins after it: when the loop is idle with no token, the last call was served
NoLostTrigger == (lpc = "select" /\ tok = 0) => lastFireServed
==============================================================================
