SPECIFICATION LSpec
CONSTANTS
  W = {1,2}
  MaxLen = 9
  Safe = TRUE
VIEW View
ACTION_CONSTRAINT Dump
CHECK_DEADLOCK FALSE
