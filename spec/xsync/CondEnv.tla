------------------------------ MODULE CondEnv ------------------------------
(* The environment of a ContextCond as the bubble harness can drive it: waiter w calls Wait (enter; the
   harness's Locker holds it at the gate "between L.Unlock and the select"), is let through the gate (release),
   has its context cancelled (cancel); Signal and Broadcast are called. Every behaviour of this module up to
   MaxLen steps is one schedule; TLC's transition system is dumped and every path is replayed on the code
   (C16). Safe = TRUE restricts to the class in which at most one waiter is held at the gate at any time -
   outside it the known finding F11 (KNOWN_FINDINGS.json) applies. Each waiter waits once. *)
EXTENDS Integers, Sequences, FiniteSets, TLC, Json
CONSTANTS W, MaxLen, Safe
VARIABLES entered, released, cancelled, len, op
vars == <<entered, released, cancelled, len, op>>
Gated == entered \ released
R(a, w) == op' = [a |-> a, w |-> w] /\ len' = len + 1
Init == entered = {} /\ released = {} /\ cancelled = {} /\ len = 0 /\ op = [a |-> "init", w |-> 0]
Enter(w) == /\ w \notin entered /\ (Safe => Gated = {})
            /\ (\A v \in W : v < w => v \in entered)          \* symmetry: waiters enter in order
            /\ entered' = entered \cup {w} /\ UNCHANGED <<released, cancelled>> /\ R("enter", w)
Release(w) == w \in Gated /\ released' = released \cup {w} /\ UNCHANGED <<entered, cancelled>> /\ R("release", w)
\* a waiter's context may also be cancelled before it calls Wait (only the next one to enter: symmetry)
Cancel(w) == (w \in entered \/ \A v \in W : v < w => v \in entered) /\ w \notin cancelled /\ cancelled' = cancelled \cup {w} /\ UNCHANGED <<entered, released>> /\ R("cancel", w)
Signal == UNCHANGED <<entered, released, cancelled>> /\ R("signal", 0)
Broadcast == UNCHANGED <<entered, released, cancelled>> /\ R("broadcast", 0)
Next == len < MaxLen /\ ((\E w \in W : Enter(w) \/ Release(w) \/ Cancel(w)) \/ Signal \/ Broadcast)
Spec == Init /\ [][Next]_vars
View == <<entered, released, cancelled, len>>
LState == [e |-> entered, r |-> released, c |-> cancelled, n |-> len]
Dump == PrintT(<<"LTS", ToJson([from |-> LState, op |-> op', to |-> LState'])>>)
LInit == Init /\ PrintT(<<"LTSINIT", ToJson([from |-> LState])>>)
LSpec == LInit /\ [][Next]_vars
=============================================================================
