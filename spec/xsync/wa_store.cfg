SPECIFICATION Spec
CONSTANTS
  Setters = {1, 2}
  Readers = {11, 12}
  UseCAS = FALSE
INVARIANTS FinalOK ValueOK
