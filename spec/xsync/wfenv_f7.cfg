SPECIFICATION LSpec
CONSTANTS
  Alphabet = {0, 30, 31, 60, 61, 75}
  MaxLen = 7
VIEW View
ACTION_CONSTRAINT Dump
CHECK_DEADLOCK FALSE
