SPECIFICATION Spec
CONSTANTS
  NW = 2
  MaxSig = 2
  MaxBc = 0
  MaxCancel = 0
  Cap = 1
  EnvAtQuiescence = FALSE
INVARIANTS NoLostWakeup CtxPrompt
CHECK_DEADLOCK FALSE
