SPECIFICATION Spec
CONSTANTS
  NReg = 2
  AddInsideLock = FALSE
  NTrig = 0
  TokCap = 1
INVARIANTS Barrier NoLateStart NoLostTrigger
