------------------------------- MODULE WFEnv -------------------------------
(* The environment of xsync.Watchable and xsync.Future as the bubble harness drives them (C18): a run is a plan, a
   sequence of step codes over Alphabet; the harness maps a code to what it does (Watchable: a Set, a Value, k Sets and
   j Values started concurrently - as the first step that is "Value racing the first Set"; Future: Wait, WaitContext
   with context 1 or 2, cancel 1 or 2, Fill racing a Wait). Every sequence up to MaxLen is one behaviour. *)
EXTENDS Integers, Sequences, TLC, Json
CONSTANTS Alphabet, MaxLen
VARIABLES len, op
vars == <<len, op>>
Init == len = 0 /\ op = [c |-> -1]
Next == len < MaxLen /\ len' = len + 1 /\ \E c \in Alphabet : op' = [c |-> c]
Spec == Init /\ [][Next]_vars
View == len
LState == [l |-> len]
Dump == PrintT(<<"LTS", ToJson([from |-> LState, op |-> op', to |-> LState'])>>)
LInit == Init /\ PrintT(<<"LTSINIT", ToJson([from |-> LState])>>)
LSpec == LInit /\ [][Next]_vars
=============================================================================
