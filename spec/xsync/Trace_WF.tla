------------------------------ MODULE Trace_WF ------------------------------
(* C18 (Watchable / Future / Lazy): monitors for histories recorded in bubbles.
   Watchable: wset(v) = a Set(v) is started (values are unique and > 0); wvalue(v, c) = a Value call
     returned value v with channel number c; wq(cur, chans) = at quiescence the harness calls Value
     (cur) and polls every channel it was ever given: chans = <<value the channel came with, closed?>>.
   Future: fill(x); call/ret of Wait / WaitContext (res.k = "val" with res.v, or "ctx"); cancel(ctx); q(pend).
   Lazy: lazyf = the function ran; call/ret of the lazy getter (res.v). *)
EXTENDS Integers, Sequences, FiniteSets, TLC, Json
Trace == ndJsonDeserialize("trace.ndjson")
VARIABLES prev, recent, filled, fval, pend, cancelled, nlazy, l
vars == <<prev, recent, filled, fval, pend, cancelled, nlazy, l>>
Ev == Trace[l]
Init == prev = 0 /\ recent = {} /\ filled = FALSE /\ fval = 0 /\ pend = <<>> /\ cancelled = {} /\ nlazy = 0 /\ l = 1 /\ TLCSet(1, 0)
Un(vs) == UNCHANGED vs
Ids == DOMAIN pend
Next ==
  /\ l <= Len(Trace) /\ l' = l + 1
  /\ CASE Ev.ev = "reset" -> prev' = 0 /\ recent' = {} /\ filled' = FALSE /\ fval' = 0 /\ pend' = <<>> /\ cancelled' = {} /\ nlazy' = 0
       [] Ev.ev = "wset" -> recent' = recent \cup {Ev.v} /\ Un(<<prev, filled, fval, pend, cancelled, nlazy>>)
       \* a Value racing with Sets returns the value before them or one of theirs
       [] Ev.ev = "wvalue" -> Ev.v \in {prev} \cup recent /\ Un(<<prev, recent, filled, fval, pend, cancelled, nlazy>>)
       [] Ev.ev = "wq" ->
            /\ (IF recent = {} THEN Ev.cur = prev ELSE Ev.cur \in recent)          \* the most recently Set value (zero before the first)
            /\ \A i \in 1..Len(Ev.chans) : (Ev.chans[i][2] = 1) <=> (Ev.chans[i][1] # Ev.cur)   \* closed iff a later Set has happened
            /\ prev' = Ev.cur /\ recent' = {} /\ Un(<<filled, fval, pend, cancelled, nlazy>>)
       [] Ev.ev = "fill" -> filled' = TRUE /\ fval' = Ev.v /\ Un(<<prev, recent, pend, cancelled, nlazy>>)
       [] Ev.ev = "lazyf" -> nlazy' = nlazy + 1 /\ nlazy' = 1 /\ Un(<<prev, recent, filled, fval, pend, cancelled>>)   \* the function runs once
       [] Ev.ev = "cancel" -> cancelled' = cancelled \cup {Ev.ctx} /\ Un(<<prev, recent, filled, fval, pend, nlazy>>)
       [] Ev.ev = "call" -> pend' = [i \in Ids \cup {Ev.id} |-> IF i = Ev.id THEN [op |-> Ev.op, ctx |-> Ev.ctx] ELSE pend[i]]
                            /\ Un(<<prev, recent, filled, fval, cancelled, nlazy>>)
       [] Ev.ev = "ret" ->
            /\ Ev.id \in Ids /\ pend' = [i \in Ids \ {Ev.id} |-> pend[i]] /\ Un(<<prev, recent, filled, fval, cancelled, nlazy>>)
            /\ IF Ev.op \in {"Wait", "WaitContext"}
               THEN \/ Ev.res.k = "val" /\ filled /\ Ev.res.v = fval                 \* the single value it was filled with
                    \/ Ev.res.k = "ctx" /\ Ev.op = "WaitContext" /\ pend[Ev.id].ctx \in cancelled
               ELSE Ev.res.k = "val" /\ Ev.res.v = 77 /\ nlazy = 1                     \* Lazy: every caller gets that one result
       [] Ev.ev = "q" ->
            /\ Un(<<prev, recent, filled, fval, pend, cancelled, nlazy>>)
            /\ \A i \in Ids : /\ pend[i].op \in {"Wait", "WaitContext"} /\ ~filled       \* a filled future wakes every waiter
                              /\ (pend[i].op = "WaitContext" => pend[i].ctx \notin cancelled)   \* WaitContext gives up when its context ends
       [] Ev.ev = "leak" -> Un(<<prev, recent, filled, fval, pend, cancelled, nlazy>>)
Spec == Init /\ [][Next]_vars
HWM == TLCSet(1, IF TLCGet(1) < l THEN l ELSE TLCGet(1))
Accepted == PrintT(<<"HWM", TLCGet(1)>>) /\ TLCGet(1) = Len(Trace) + 1
=============================================================================
