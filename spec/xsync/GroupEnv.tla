------------------------------ MODULE GroupEnv ------------------------------
(* The environment of xsync.Group as the bubble harness drives it (C17): up to NF functions are registered through
   Do / Periodic / Trigger / PeriodicOrTrigger (interval 10 ms, jitter 0 or -4 ms - a negative jitter means the same as a positive one; a function either holds until the harness
   releases it - ignoring its context - or returns at once), trigger functions are called, fake time advances,
   holding functions are released, Stop is called, the parent context is cancelled, StopAndWait is called (up to twice, the second call possibly while the first still waits;
   the run goes on afterwards: late registrations and triggers must have no effect). Every behaviour up to MaxLen
   steps is one schedule. *)
EXTENDS Integers, Sequences, FiniteSets, TLC, Json
CONSTANTS NF, MaxLen, Advs
VARIABLES kinds, sw, len, op
vars == <<kinds, sw, len, op>>
Kinds == {"do", "per", "trig", "ptrig"}
NK == Len(kinds)
RJ(a, k, kind, hold, d, j) == op' = [a |-> a, k |-> k, kind |-> kind, iv |-> 10, jit |-> j, d |-> d, hold |-> hold] /\ len' = len + 1
R(a, k, kind, hold, d) == RJ(a, k, kind, hold, d, 0)
Init == kinds = <<>> /\ sw = 0 /\ len = 0 /\ op = [a |-> "init", k |-> 0, kind |-> "", iv |-> 0, jit |-> 0, d |-> 0, hold |-> FALSE]
Reg(kind, hold) == /\ NK < NF /\ kinds' = Append(kinds, kind) /\ UNCHANGED sw
                   /\ \E j \in (IF kind \in {"per", "ptrig"} THEN {0, -4} ELSE {0}) : RJ("reg", NK + 1, kind, hold, 0, j)
Fire(k) == k \in 1..NK /\ kinds[k] \in {"trig", "ptrig"} /\ UNCHANGED <<kinds, sw>>
           /\ \E a \in {"fire", "fire3"} : R(a, k, "", FALSE, 0)     \* fire3: from three goroutines at the same moment
Adv(d) == UNCHANGED <<kinds, sw>> /\ R("adv", 0, "", FALSE, d)
Rel(k) == k \in 1..NK /\ UNCHANGED <<kinds, sw>> /\ R("rel", k, "", FALSE, 0)
Stop == UNCHANGED <<kinds, sw>> /\ \E a \in {"stop", "cancelparent", "expireparent"} : R(a, 0, "", FALSE, 0)
StopWait == sw < 2 /\ sw' = sw + 1 /\ UNCHANGED kinds /\ R("stopwait", 0, "", FALSE, 0)
Next == /\ len < MaxLen
        /\ \/ \E kind \in Kinds, hold \in BOOLEAN : Reg(kind, hold)
           \/ \E k \in 1..NF : Fire(k) \/ Rel(k)
           \/ \E d \in Advs : Adv(d)
           \/ Stop \/ StopWait
Spec == Init /\ [][Next]_vars
View == <<kinds, sw, len>>
LState == [k |-> kinds, s |-> sw, l |-> len]
Dump == PrintT(<<"LTS", ToJson([from |-> LState, op |-> op', to |-> LState'])>>)
LInit == Init /\ PrintT(<<"LTSINIT", ToJson([from |-> LState])>>)
LSpec == LInit /\ [][Next]_vars
=============================================================================
