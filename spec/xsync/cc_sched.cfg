SPECIFICATION Spec
CONSTANTS
  NW = 3
  MaxSig = 3
  MaxBc = 1
  MaxCancel = 1
  Cap = 1
  EnvAtQuiescence = TRUE
INVARIANTS NoLostWakeup CtxPrompt
CHECK_DEADLOCK FALSE
