------------------------------ MODULE TypedMap ------------------------------
(* C18 (last sentence): xsync.Map returns for every operation and every key state exactly what
   sync.Map returns, reporting absent values as the zero value rather than panicking.
   P-layer = the sequential semantics of sync.Map. m[k] = Absent or a value; value 0 is the zero
   value of V (0 for int, nil for interface types) and may itself be stored.
   Results: <<value, flag>> pairs, flags as 0/1. No result is a panic. *)
EXTENDS Integers, Sequences, FiniteSets, TLC, Json
CONSTANTS Keys, Vals, Cls(_), WithCmp, NanKey
\* NanKey: a key that is not equal to itself (a float64 NaN; 0 = no such key). sync.Map then never finds it again: every
\* Store / LoadOrStore / Swap adds another entry that only Range can still see (`nan`, at most 2 in the bounded model).
\* Cls(v): the class of v under Go's == (sync.Map compares with ==): for float64 values -0.0 (value 2) and +0.0 (the zero
\* value 0) are different values that compare equal. WithCmp = FALSE leaves out CompareAndSwap / CompareAndDelete (value
\* types that are not comparable, e.g. slices inside an `any`: sync.Map itself panics there).
ClsId(v) == v
ClsF(v) == IF v = 2 THEN 0 ELSE v
Absent == -1
VARIABLES m, nan, op
Has(k) == k # NanKey /\ m[k] # Absent
V0(k) == IF Has(k) THEN m[k] ELSE 0
B(b) == IF b THEN 1 ELSE 0
Put(k, v) == IF k = NanKey THEN nan' = Append(nan, v) /\ UNCHANGED m ELSE m' = [m EXCEPT ![k] = v] /\ UNCHANGED nan
Room(k) == k = NanKey => Len(nan) < 2
Same == UNCHANGED <<m, nan>>
Load(k, r) == r = <<V0(k), B(Has(k))>> /\ Same
Store(k, v, r) == Room(k) /\ r = <<0, 0>> /\ Put(k, v)
LoadOrStore(k, v, r) == IF Has(k) THEN r = <<m[k], 1>> /\ Same ELSE Room(k) /\ r = <<v, 0>> /\ Put(k, v)
Del(k) == IF k = NanKey THEN Same ELSE m' = [m EXCEPT ![k] = Absent] /\ UNCHANGED nan
LoadAndDelete(k, r) == r = <<V0(k), B(Has(k))>> /\ Del(k)
Delete(k, r) == r = <<0, 0>> /\ Del(k)
Swap(k, v, r) == Room(k) /\ r = <<V0(k), B(Has(k))>> /\ Put(k, v)
CompareAndSwap(k, old, new, r) == IF Has(k) /\ Cls(m[k]) = Cls(old) THEN r = <<0, 1>> /\ Put(k, new) ELSE r = <<0, 0>> /\ Same
CompareAndDelete(k, old, r) == IF Has(k) /\ Cls(m[k]) = Cls(old) THEN r = <<0, 1>> /\ Del(k) ELSE r = <<0, 0>> /\ Same
\* Range visits every present entry once (order unspecified): reported as the sorted list of <<k, v>>
SetSeq(S) == LET RECURSIVE F(_) F(T) == IF T = {} THEN <<>> ELSE LET x == CHOOSE x \in T : \A y \in T : x <= y IN <<x>> \o F(T \ {x}) IN F(S)
SortVals(s) == LET RECURSIVE F(_) F(u) == IF u = <<>> THEN <<>> ELSE
                   LET i == CHOOSE i \in 1..Len(u) : \A j \in 1..Len(u) : u[i] <= u[j] IN <<u[i]>> \o F(SubSeq(u, 1, i - 1) \o SubSeq(u, i + 1, Len(u))) IN F(s)
Entries == LET ks == SetSeq({k \in Keys : Has(k)})  ns == SortVals(nan) IN
           [i \in 1..Len(ks) |-> <<ks[i], m[ks[i]]>>] \o [i \in 1..Len(ns) |-> <<NanKey, ns[i]>>]
RangeOp(r) == r = Entries /\ Same

R(name, args, res) == op' = [name |-> name, args |-> args, res |-> res]
Init == m = [k \in Keys |-> Absent] /\ nan = <<>> /\ op = [name |-> "init", args |-> <<>>, res |-> <<0, 0>>]
Res == (Vals \X {0, 1})
Next ==
  \/ \E k \in Keys, r \in Res :
       \/ (Load(k, r) /\ R("Load", <<k>>, r)) \/ (LoadAndDelete(k, r) /\ R("LoadAndDelete", <<k>>, r)) \/ (Delete(k, r) /\ R("Delete", <<k>>, r))
       \/ \E v \in Vals : \/ (Store(k, v, r) /\ R("Store", <<k, v>>, r)) \/ (LoadOrStore(k, v, r) /\ R("LoadOrStore", <<k, v>>, r))
                          \/ (Swap(k, v, r) /\ R("Swap", <<k, v>>, r))
                          \/ (WithCmp /\ CompareAndDelete(k, v, r) /\ R("CompareAndDelete", <<k, v>>, r))
                          \/ (WithCmp /\ \E w \in Vals : CompareAndSwap(k, v, w, r) /\ R("CompareAndSwap", <<k, v, w>>, r))
  \/ (RangeOp(Entries) /\ R("Range", <<>>, Entries))
vars == <<m, nan, op>>
Spec == Init /\ [][Next]_vars
View == <<m, nan>>
LState == [m |-> [i \in 1..Cardinality(Keys) |-> m[i]], nan |-> nan]
LObs == [entries |-> Entries]
Dump == PrintT(<<"LTS", ToJson([from |-> LState, op |-> op', to |-> LState', obs |-> LObs'])>>)
LInit == Init /\ PrintT(<<"LTSINIT", ToJson([from |-> LState, obs |-> LObs])>>)
LSpec == LInit /\ [][Next]_vars
==============================================================================
