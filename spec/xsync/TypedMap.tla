------------------------------ MODULE TypedMap ------------------------------
(* C18 (last sentence): xsync.Map returns for every operation and every key state exactly what
   sync.Map returns, reporting absent values as the zero value rather than panicking.
   P-layer = the sequential semantics of sync.Map. m[k] = Absent or a value; value 0 is the zero
   value of V (0 for int, nil for interface types) and may itself be stored.
   Results: <<value, flag>> pairs, flags as 0/1. No result is a panic. *)
EXTENDS Integers, Sequences, FiniteSets, TLC, Json
CONSTANTS Keys, Vals, Cls(_), WithCmp
\* Cls(v): the class of v under Go's == (sync.Map compares with ==): for float64 values -0.0 (value 2) and +0.0 (the zero
\* value 0) are different values that compare equal. WithCmp = FALSE leaves out CompareAndSwap / CompareAndDelete (value
\* types that are not comparable, e.g. slices inside an `any`: sync.Map itself panics there).
ClsId(v) == v
ClsF(v) == IF v = 2 THEN 0 ELSE v
Absent == -1
VARIABLES m, op
Has(k) == m[k] # Absent
V0(k) == IF Has(k) THEN m[k] ELSE 0
B(b) == IF b THEN 1 ELSE 0
Load(k, r) == r = <<V0(k), B(Has(k))>> /\ UNCHANGED m
Store(k, v, r) == r = <<0, 0>> /\ m' = [m EXCEPT ![k] = v]
LoadOrStore(k, v, r) == IF Has(k) THEN r = <<m[k], 1>> /\ UNCHANGED m ELSE r = <<v, 0>> /\ m' = [m EXCEPT ![k] = v]
LoadAndDelete(k, r) == r = <<V0(k), B(Has(k))>> /\ m' = [m EXCEPT ![k] = Absent]
Delete(k, r) == r = <<0, 0>> /\ m' = [m EXCEPT ![k] = Absent]
Swap(k, v, r) == r = <<V0(k), B(Has(k))>> /\ m' = [m EXCEPT ![k] = v]
CompareAndSwap(k, old, new, r) == IF Has(k) /\ Cls(m[k]) = Cls(old) THEN r = <<0, 1>> /\ m' = [m EXCEPT ![k] = new] ELSE r = <<0, 0>> /\ UNCHANGED m
CompareAndDelete(k, old, r) == IF Has(k) /\ Cls(m[k]) = Cls(old) THEN r = <<0, 1>> /\ m' = [m EXCEPT ![k] = Absent] ELSE r = <<0, 0>> /\ UNCHANGED m
\* Range visits every present entry once (order unspecified): reported as the sorted list of <<k, v>>
SetSeq(S) == LET RECURSIVE F(_) F(T) == IF T = {} THEN <<>> ELSE LET x == CHOOSE x \in T : \A y \in T : x <= y IN <<x>> \o F(T \ {x}) IN F(S)
Entries == LET ks == SetSeq({k \in Keys : Has(k)}) IN [i \in 1..Len(ks) |-> <<ks[i], m[ks[i]]>>]
RangeOp(r) == r = Entries /\ UNCHANGED m

R(name, args, res) == op' = [name |-> name, args |-> args, res |-> res]
Init == m = [k \in Keys |-> Absent] /\ op = [name |-> "init", args |-> <<>>, res |-> <<0, 0>>]
Res == (Vals \X {0, 1})
Next ==
  \/ \E k \in Keys, r \in Res :
       \/ (Load(k, r) /\ R("Load", <<k>>, r)) \/ (LoadAndDelete(k, r) /\ R("LoadAndDelete", <<k>>, r)) \/ (Delete(k, r) /\ R("Delete", <<k>>, r))
       \/ \E v \in Vals : \/ (Store(k, v, r) /\ R("Store", <<k, v>>, r)) \/ (LoadOrStore(k, v, r) /\ R("LoadOrStore", <<k, v>>, r))
                          \/ (Swap(k, v, r) /\ R("Swap", <<k, v>>, r))
                          \/ (WithCmp /\ CompareAndDelete(k, v, r) /\ R("CompareAndDelete", <<k, v>>, r))
                          \/ (WithCmp /\ \E w \in Vals : CompareAndSwap(k, v, w, r) /\ R("CompareAndSwap", <<k, v, w>>, r))
  \/ (RangeOp(Entries) /\ R("Range", <<>>, Entries))
vars == <<m, op>>
Spec == Init /\ [][Next]_vars
View == m
LState == [m |-> [i \in 1..Cardinality(Keys) |-> m[i]]]
LObs == [entries |-> Entries]
Dump == PrintT(<<"LTS", ToJson([from |-> LState, op |-> op', to |-> LState', obs |-> LObs'])>>)
LInit == Init /\ PrintT(<<"LTSINIT", ToJson([from |-> LState, obs |-> LObs])>>)
LSpec == LInit /\ [][Next]_vars
==============================================================================
