SPECIFICATION LSpec
CONSTANTS
  W = {1,2,3}
  MaxLen = 8
  Safe = TRUE
VIEW View
ACTION_CONSTRAINT Dump
CHECK_DEADLOCK FALSE
