----------------------------- MODULE Trace_Group -----------------------------
(* C17: monitor for xsync.Group histories recorded in fake-clock bubbles.
   reg(k, kind, iv, jit): function k registered through Do / Periodic / Trigger / PeriodicOrTrigger
   (kind "do" | "per" | "trig" | "ptrig"; iv, jit in ms). fire(k) = the trigger function of k is called.
   fbegin(k) / fend(k) are logged by f itself. stop = Stop() or the parent context is cancelled (called);
   call/ret of StopAndWait (any number of calls, also concurrent ones: each is a barrier); q(t) = quiescence at fake time t. *)
EXTENDS Integers, Sequences, FiniteSets, TLC, Json
Trace == ndJsonDeserialize("trace.ndjson")
VARIABLES regs, running, owed, lastBegin, stopped, swPending, swReturned, l
vars == <<regs, running, owed, lastBegin, stopped, swPending, swReturned, l>>
Ev == Trace[l]
Init == /\ regs = <<>> /\ running = {} /\ owed = {} /\ lastBegin = <<>> /\ stopped = FALSE /\ swPending = 0 /\ swReturned = FALSE
        /\ l = 1 /\ TLCSet(1, 0)
Un(vs) == UNCHANGED vs
K == DOMAIN regs
\* real-clock runs (vh rt) give the time-bounded rule a slack; fake-clock bubbles are exact
AbsJ(j) == IF j < 0 THEN -j ELSE j       \* "interval +/- jitter": the sign of the jitter does not matter
Slack == IF "slack" \in DOMAIN Ev THEN Ev.slack ELSE 0
Next ==
  /\ l <= Len(Trace) /\ l' = l + 1
  /\ CASE Ev.ev = "reset" -> regs' = <<>> /\ running' = {} /\ owed' = {} /\ lastBegin' = <<>> /\ stopped' = FALSE /\ swPending' = 0 /\ swReturned' = FALSE
       [] Ev.ev = "reg" ->
            /\ regs' = [k \in K \cup {Ev.k} |-> IF k = Ev.k THEN [kind |-> Ev.kind, iv |-> Ev.iv, jit |-> Ev.jit, live |-> ~stopped] ELSE regs[k]]
            /\ lastBegin' = [k \in K \cup {Ev.k} |-> IF k = Ev.k THEN Ev.t ELSE lastBegin[k]]
            /\ Un(<<running, owed, stopped, swPending, swReturned>>)
       [] Ev.ev = "fire" ->          \* a trigger call made while the group runs must be followed by a run that begins after it
            /\ owed' = (IF ~stopped /\ Ev.k \in K /\ regs[Ev.k].live THEN owed \cup {Ev.k} ELSE owed)
            /\ Un(<<regs, running, lastBegin, stopped, swPending, swReturned>>)
       [] Ev.ev = "fbegin" ->
            /\ ~swReturned                               \* nothing starts after StopAndWait returned
            /\ Ev.k \in K /\ Ev.k \notin running          \* runs of one f never overlap
            /\ running' = running \cup {Ev.k} /\ owed' = owed \ {Ev.k}
            /\ lastBegin' = [lastBegin EXCEPT ![Ev.k] = Ev.t]
            /\ (regs[Ev.k].kind = "do" => lastBegin[Ev.k] >= 0)
            /\ Un(<<regs, stopped, swPending, swReturned>>)
       [] Ev.ev = "fend" -> /\ Ev.k \in running /\ running' = running \ {Ev.k} /\ Un(<<regs, owed, lastBegin, stopped, swPending, swReturned>>)
       [] Ev.ev = "stop" -> stopped' = TRUE /\ Un(<<regs, running, owed, lastBegin, swPending, swReturned>>)
       [] Ev.ev = "call" -> swPending' = swPending + 1 /\ stopped' = TRUE /\ Un(<<regs, running, owed, lastBegin, swReturned>>)
       [] Ev.ev = "ret" ->           \* StopAndWait is a barrier: nothing it started is still running
            /\ running = {} /\ swReturned' = TRUE /\ swPending' = swPending - 1 /\ Un(<<regs, running, owed, lastBegin, stopped>>)
       [] Ev.ev \in {"adv", "rel", "leak"} -> Un(<<regs, running, owed, lastBegin, stopped, swPending, swReturned>>)
       [] Ev.ev = "q" ->
            /\ Un(<<regs, running, owed, lastBegin, stopped, swPending, swReturned>>)
            /\ (~stopped => \A k \in owed : k \in running)          \* no trigger is lost
            \* periodic functions keep being invoked: the next run is due at most iv + jit after the last one began
            /\ (~stopped => \A k \in K : (regs[k].live /\ regs[k].kind \in {"per", "ptrig"} /\ k \notin running)
                                          => Ev.t - lastBegin[k] <= regs[k].iv + AbsJ(regs[k].jit) + Slack)
            /\ (swPending > 0 => running # {})                        \* StopAndWait only waits for running functions
            /\ (swReturned => running = {})
Spec == Init /\ [][Next]_vars
HWM == TLCSet(1, IF TLCGet(1) < l THEN l ELSE TLCGet(1))
Accepted == PrintT(<<"HWM", TLCGet(1)>>) /\ TLCGet(1) = Len(Trace) + 1
==============================================================================
