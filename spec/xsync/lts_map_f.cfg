SPECIFICATION LSpec
CONSTANTS
  Keys = {1,2}
  Vals = {0,1,2}
  Cls <- ClsF
  WithCmp = TRUE
VIEW View
ACTION_CONSTRAINT Dump
