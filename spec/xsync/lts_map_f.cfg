SPECIFICATION LSpec
CONSTANTS
  Keys = {1,2}
  Vals = {0,1,2}
  Cls <- ClsF
  NanKey = 0
  WithCmp = TRUE
VIEW View
ACTION_CONSTRAINT Dump
