SPECIFICATION Spec
CONSTANTS
  NW = 1
  MaxSig = 1
  MaxBc = 0
  MaxCancel = 0
  Cap = 0
  EnvAtQuiescence = FALSE
INVARIANTS NoLostWakeup CtxPrompt
CHECK_DEADLOCK FALSE
