SPECIFICATION TSpec
CONSTANTS
  CheckFun = TRUE
  CheckLedger = FALSE
CONSTRAINT HWM
POSTCONDITION Accepted
CHECK_DEADLOCK FALSE
