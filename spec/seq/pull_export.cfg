SPECIFICATION Spec
CONSTANTS
  Combs = {"Id", "Chunk", "Compact", "Filter", "First", "While", "Map"}
  MaxItems = 2
  MaxCalls = 4
  NRange = {0, 1, 2, 3}
  Bug = ""
  CheckFun = TRUE
  CheckLedger = FALSE
INVARIANT Export
CHECK_DEADLOCK FALSE
