--------------------------- MODULE Trace_ChanShare ---------------------------
(* C07 (Chan): several stream.Chan streams over ONE channel, read concurrently. Every value sent is returned by exactly
   one Next, nothing that was not sent is ever returned (in particular no zero value after the channel was closed),
   End only after the channel was closed, and at quiescence a Next still waits only if every value sent has been
   returned and the channel is open. Events: reset, send(v), closech, call/ret of Next (res.k = "val" | "end"), q. *)
EXTENDS Integers, Sequences, FiniteSets, TLC, Json
Trace == ndJsonDeserialize("trace.ndjson")
VARIABLES sent, got, closed, pend, l
vars == <<sent, got, closed, pend, l>>
Ev == Trace[l]
Init == sent = {} /\ got = {} /\ closed = FALSE /\ pend = {} /\ l = 1 /\ TLCSet(1, 0)
Next ==
  /\ l <= Len(Trace) /\ l' = l + 1
  /\ CASE Ev.ev = "reset" -> sent' = {} /\ got' = {} /\ closed' = FALSE /\ pend' = {}
       [] Ev.ev = "send" -> sent' = sent \cup {Ev.v} /\ UNCHANGED <<got, closed, pend>>
       [] Ev.ev = "closech" -> closed' = TRUE /\ UNCHANGED <<sent, got, pend>>
       [] Ev.ev = "call" -> pend' = pend \cup {Ev.id} /\ UNCHANGED <<sent, got, closed>>
       [] Ev.ev = "ret" ->
            /\ Ev.id \in pend /\ pend' = pend \ {Ev.id}
            /\ \/ Ev.res.k = "val" /\ Ev.res.v \in sent \ got /\ got' = got \cup {Ev.res.v}     \* sent, and not returned before
               \/ Ev.res.k = "end" /\ closed /\ got' = got
            /\ UNCHANGED <<sent, closed>>
       [] Ev.ev = "q" -> /\ (pend # {} => (got = sent /\ ~closed))
                         /\ UNCHANGED <<sent, got, closed, pend>>
       [] Ev.ev \in {"leak"} -> UNCHANGED <<sent, got, closed, pend>>
Spec == Init /\ [][Next]_vars
HWM == TLCSet(1, IF TLCGet(1) < l THEN l ELSE TLCGet(1))
Accepted == PrintT(<<"HWM", TLCGet(1)>>) /\ TLCGet(1) = Len(Trace) + 1
==============================================================================
