SPECIFICATION Spec
CONSTANTS
  Combs = {"Id", "Chunk", "Compact", "Filter", "First", "While", "Map"}
  MaxItems = 3
  MaxCalls = 5
  NRange = {0, 1, 2, 3}
  Bug = "chunk-drops"
  CheckFun = TRUE
  CheckLedger = FALSE
INVARIANT MachinesOK
CHECK_DEADLOCK FALSE
