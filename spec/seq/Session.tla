------------------------------ MODULE Session ------------------------------
(* Trace driver for SessionRules: one recorded session per line of trace.ndjson (harness/comb). *)
EXTENDS SessionRules, Json
\* ---- trace validation driver: one record per line
VARIABLE l
Trace == ndJsonDeserialize("trace.ndjson")
TInit == l = 1 /\ TLCSet(1, 0)
TNext == l <= Len(Trace) /\ (SessionOK(Trace[l]) = TRUE) /\ l' = l + 1    \* '= TRUE': evaluate as a value (no disjunct splitting by TLC's action evaluator)
TSpec == TInit /\ [][TNext]_l
HWM == TLCSet(1, IF TLCGet(1) < l THEN l ELSE TLCGet(1))
Accepted == PrintT(<<"HWM", TLCGet(1)>>) /\ TLCGet(1) = Len(Trace) + 1
=============================================================================
