SPECIFICATION TSpec
CONSTANTS
  CheckFun = FALSE
  CheckLedger = TRUE
CONSTRAINT HWM
POSTCONDITION Accepted
CHECK_DEADLOCK FALSE
