--------------------------- MODULE SessionRules ---------------------------
(* Judges one recorded session of a combinator or reducer over instrumented scripted sources
   (harness/comb) - C07 (documented function, agreement of the three families, laziness, sticky
   end), C08 (faults surface intact, retries lose nothing), C09 (ownership ledger).

   A record r: fam ("iter" | "stream" | "slice"), comb, n, pred, key, cbfail,
   script = per source a sequence of steps <<kind, val>> (0 item, 1 transient fault, 2 permanent
   fault, 3 end), calls = consumer Next calls [ctx, k, e, v, t] (ctx = 1: expired context; k = 0
   output, 1 End, 2 error; e = error id; v = output as a list; t = source items taken so far),
   ret = value of a reducer, outs = result of the xslices version, closed, ledger per source. *)
EXTENDS SeqFuns, TLC
CONSTANTS CheckFun,     \* judge results, errors, laziness, stickiness (C07, C08)
          CheckLedger   \* judge the ownership ledger (C09)
ETran == 1
EPerm == 2
ECtx == 3
ECb == 4
EMoreThanOne == 5
EEmpty == 6
\* items of one script up to (not including) its first permanent fault
RECURSIVE ItemsOf(_)
ItemsOf(sc) == IF sc = <<>> \/ Head(sc)[1] \in {2, 3} THEN <<>>
               ELSE IF Head(sc)[1] = 0 THEN <<Head(sc)[2]>> \o ItemsOf(Tail(sc)) ELSE ItemsOf(Tail(sc))
HasFail(sc) == \E i \in 1..Len(sc) : sc[i][1] = 2
NTran(sc) == Cardinality({i \in 1..Len(sc) : sc[i][1] = 1})
\* sources are consumed one after the other: everything after the first failing source is unreachable
RECURSIVE Reach(_)
Reach(scs) == IF scs = <<>> THEN <<>> ELSE IF HasFail(Head(scs)) THEN <<Head(scs)>> ELSE <<Head(scs)>> \o Reach(Tail(scs))
Items(r) == LET rs == Reach(r.script) IN [i \in 1..Len(rs) |-> ItemsOf(rs[i])]
AllItems(r) == [i \in 1..Len(r.script) |-> ItemsOf(r.script[i])]
Fails(r) == \E i \in 1..Len(r.script) : HasFail(r.script[i])
Trans(r) == LET RECURSIVE F(_) F(i) == IF i > Len(r.script) THEN 0 ELSE NTran(r.script[i]) + F(i + 1) IN F(1)
Pred(r) == [v \in 1..3 |-> r.pred[v]]
Key(r) == [v \in 1..3 |-> r.key[v]]
O(r) == Out(r.comb, Items(r), r.n, Pred(r), Key(r))
IsReducer(r) == r.comb \in {"Collect", "Last", "Reduce", "Equal", "One", "SampleStream"}
NoPanic(r) == r.panic = ""

\* number of successful outcomes (outputs and Ends) among the first i calls
Succ(r, i) == Cardinality({c \in 1..i : r.calls[c].k \in {0, 1}})
NOut(r, i) == Cardinality({c \in 1..i : r.calls[c].k = 0})
\* Needs(r, o)[c + 1] = items needed for the outcomes of the first c calls (o = O(r), computed once)
Needs(r, o) == LET its == Items(r) IN
               [c1 \in 1..(Len(o) + 2) |->
                  IF c1 = 1 THEN 0
                  ELSE IF c1 - 1 <= Len(o) THEN NeedOut(r.comb, its, r.n, Pred(r), Key(r), c1 - 1)
                  ELSE NeedEnd(r.comb, its, r.n, Pred(r), Key(r))]
LazyExempt(r) == r.comb \in {"FromIterator", "FlattenSlices", "Chan"}    \* their sources are collected up front by the harness

\* the end of the output is determined by the items before the permanent fault alone
\* (First has delivered its n items; While has seen an item that fails its predicate)
EndDetermined(r) ==
  LET s == IF Len(Items(r)) >= 1 THEN Items(r)[1] ELSE <<>> IN
  \/ r.comb = "First" /\ r.n <= Len(s)
  \/ r.comb = "While" /\ WhileLen(s, Pred(r)) < Len(s)
  \/ r.comb \in {"Counter", "Repeat", "Empty"}

\* ---- one consumer call, given everything before it
CallOK(r, i, o, needs, fails, trans, lazyexempt, enddet) ==
  LET c == r.calls[i]
      j == NOut(r, i - 1)
      ended == \E d \in 1..(i - 1) : r.calls[d].k = 1
      failed == \E d \in 1..(i - 1) : r.calls[d].k = 2 /\ r.calls[d].e = EPerm
      ntran == Cardinality({d \in 1..(i - 1) : r.calls[d].k = 2 /\ r.calls[d].e = ETran})
  IN
  /\ \/ /\ c.k = 0 /\ ~ended /\ ~failed                     \* an output: the next one of the fault-free sequence
        /\ j < Len(o) /\ c.v = o[j + 1]
     \/ /\ c.k = 1                                          \* End: no permanent fault, everything delivered
        /\ (~fails \/ enddet) /\ j = Len(o) /\ r.cbfired = 0
     \/ /\ c.k = 2 /\ c.e = ECtx /\ c.ctx = 1               \* the caller's own expired context
     \/ /\ c.k = 2 /\ c.e = ETran /\ ntran < trans /\ ~ended
     \/ /\ c.k = 2 /\ c.e = EPerm /\ fails                  \* the source's error itself
     \/ /\ c.k = 2 /\ c.e = ECb /\ r.cbfired = 1
  \* sticky: after End only End (or the caller's own context error)
  /\ (ended => (c.k = 1 \/ (c.k = 2 /\ c.e = ECtx /\ c.ctx = 1)))
  \* after the permanent error only that error again
  /\ (failed => (c.k = 2 /\ c.e \in {EPerm, ECtx}))
  \* laziness
  /\ (lazyexempt \/ c.t <= needs[Min(Len(needs), Succ(r, i) + (IF c.k = 2 THEN 1 ELSE 0) + 1)])

\* ---- ownership ledger (C09)
LedgerOK(r) ==
  \A s \in 1..Len(r.ledger) :
    LET g == r.ledger[s] IN
    /\ g.closes <= 1 /\ g.nac = 0 /\ g.overlap = 0
    /\ (r.fam = "stream" /\ r.closed = 1 =>
          IF r.comb = "Flatten" THEN (g.calls > 0 => g.closes = 1)     \* inner streams obtained on the way
          ELSE IF r.comb \in {"FlattenSlices", "FromIterator", "Chan", "Empty"} THEN TRUE  \* sources are iterators here
          ELSE g.closes = 1)

\* ---- reducers
\* kind of the first fault of a script (0 = none) and the items in front of it
RECURSIVE FirstFault(_)
FirstFault(sc) == IF sc = <<>> \/ Head(sc)[1] = 3 THEN 0 ELSE IF Head(sc)[1] \in {1, 2} THEN Head(sc)[1] ELSE FirstFault(Tail(sc))
RECURSIVE Before(_)
Before(sc) == IF sc = <<>> \/ Head(sc)[1] # 0 THEN <<>> ELSE <<Head(sc)[2]>> \o Before(Tail(sc))
RetOK(r) ==
  LET c == r.ret  its == AllItems(r)
      ff == IF Len(r.script) >= 1 THEN FirstFault(r.script[1]) ELSE 0
      pre == IF Len(r.script) >= 1 THEN Before(r.script[1]) ELSE <<>> IN
  IF r.fam = "iter" THEN c.k = 0 /\ c.v = Red(r.comb, its, r.n)
  ELSE
  \/ /\ c.k = 2 /\ c.e = ECtx /\ c.ctx = 1                      \* the caller's own expired context
  \/ /\ r.cbfired = 1 /\ c.k = 2 /\ c.e = ECb                   \* the callback's error itself
  \/ /\ r.cbfired = 0
     /\ IF r.comb = "One"
        THEN IF Len(pre) >= 2 THEN c.k = 2 /\ c.e = EMoreThanOne    \* decided before any fault is reached
             ELSE IF ff # 0 THEN c.k = 2 /\ c.e = ff
             ELSE IF Len(pre) = 1 THEN c.k = 0 /\ c.v = pre
             ELSE c.k = 2 /\ c.e = EEmpty
        ELSE IF ff # 0 THEN c.k = 2 /\ c.e = ff                    \* the first fault met, itself
        ELSE IF r.comb = "SampleStream"
        THEN c.k = 0 /\ Len(c.v) = Min(Max(r.n, 0), Len(its[1])) /\ \A x \in 1..Len(c.v) : \E y \in 1..Len(its[1]) : its[1][y] = c.v[x]
        ELSE c.k = 0 /\ c.v = Red(r.comb, its, r.n)

SessionOK(r) ==
  /\ NoPanic(r)
  /\ ~CheckFun \/ IF r.fam = "slice" THEN r.outs = Out(r.comb, AllItems(r), r.n, Pred(r), Key(r))
     ELSE IF IsReducer(r) THEN "ret" \in DOMAIN r /\ RetOK(r)
     ELSE LET o == O(r)
              \* a record is built eagerly: everything that does not depend on the call index is computed once
              pre == [o |-> o, needs |-> Needs(r, o), fails |-> Fails(r), trans |-> Trans(r), ex |-> LazyExempt(r), ed |-> EndDetermined(r)]
          IN /\ \A i \in 1..Len(r.calls) : CallOK(r, i, pre.o, pre.needs, pre.fails, pre.trans, pre.ex, pre.ed)
             \* a callback failure is reported: the session ends with the callback's error
             /\ (r.cbfired = 1 => Len(r.calls) > 0 /\ r.calls[Len(r.calls)].k = 2 /\ r.calls[Len(r.calls)].e = ECb)
  /\ (CheckLedger => LedgerOK(r))
=============================================================================
