-------------------------------- MODULE Pull --------------------------------
(* I-layer of the stream combinators (C07, C08): every combinator as the pull-based state machine of
   stream.go (pending chunk, first/prev, x counter, held While item, peeked item, remaining streams ...)
   over a scripted source with transient / permanent faults, driven by consumer Next calls whose
   context is live or expired. TLC explores every script over a small alphabet, every parameter and
   every pattern of expired contexts; the invariant is SessionRules!SessionOK of the record assembled
   so far - the very judge that validates the sessions recorded from the code. *)
EXTENDS SessionRules, Json
CONSTANTS Combs, MaxItems, MaxCalls, NRange,
          Bug        \* "" = the code as it is; "chunk-drops" / "first-spends" = seeded defects (teeth runs)
VARIABLES comb, n, pred, key, script, pos, taken, cst, calls
pvars == <<comb, n, pred, key, script, pos, taken, cst, calls>>
\* source steps: <<kind, val>>  kind 0 item, 1 transient, 2 permanent, 3 end
Steps == {<<0, 1>>, <<0, 2>>, <<1, 0>>, <<2, 0>>}
RECURSIVE SeqsUpTo(_)
SeqsUpTo(k) == IF k = 0 THEN {<<>>} ELSE LET S == SeqsUpTo(k - 1) IN S \cup {Append(s, e) : s \in {t \in S : Len(t) = k - 1}, e \in Steps}
Scripts == {Append(s, <<3, 0>>) : s \in SeqsUpTo(MaxItems)}
\* ---- the scripted source (harness/comb.Src)
END == [k |-> 1, e |-> 0, v |-> <<>>]
Err(e) == [k |-> 2, e |-> e, v |-> <<>>]
Item(x) == [k |-> 0, e |-> 0, v |-> <<x>>]
\* returns [r, pos, taken]
SrcNext(p, tk, expired) ==
  IF expired THEN [r |-> Err(3), pos |-> p, taken |-> tk]
  ELSE LET st == script[p] IN
       CASE st[1] = 0 -> [r |-> Item(st[2]), pos |-> p + 1, taken |-> tk + 1]
         [] st[1] = 1 -> [r |-> Err(1), pos |-> p + 1, taken |-> tk]
         [] st[1] = 2 -> [r |-> Err(2), pos |-> p, taken |-> tk]
         [] OTHER -> [r |-> END, pos |-> p, taken |-> tk]
\* ---- combinator machines: Step(c, st, p, tk, x) = [r, st, pos, taken] - one consumer Next, x = ctx expired
\* Each is written like its Next method in stream.go; loops are recursion on the source position.
RECURSIVE ChunkNext(_, _, _, _)
ChunkNext(st, p, tk, x) ==
  LET s == SrcNext(p, tk, x) IN
  IF s.r.k = 1 THEN (IF st.chunk # <<>> THEN [r |-> [k |-> 0, e |-> 0, v |-> st.chunk], st |-> [st EXCEPT !.chunk = <<>>], pos |-> s.pos, taken |-> s.taken]
                     ELSE [r |-> END, st |-> st, pos |-> s.pos, taken |-> s.taken])
  ELSE IF s.r.k = 2 THEN [r |-> s.r, st |-> (IF Bug = "chunk-drops" THEN [st EXCEPT !.chunk = <<>>] ELSE st), pos |-> s.pos, taken |-> s.taken]   \* the partial chunk is kept
  ELSE LET c2 == st.chunk \o s.r.v IN
       IF Len(c2) = n THEN [r |-> [k |-> 0, e |-> 0, v |-> c2], st |-> [st EXCEPT !.chunk = <<>>], pos |-> s.pos, taken |-> s.taken]
       ELSE ChunkNext([st EXCEPT !.chunk = c2], s.pos, s.taken, x)
RECURSIVE CompactNext(_, _, _, _)
CompactNext(st, p, tk, x) ==
  LET s == SrcNext(p, tk, x) IN
  IF s.r.k # 0 THEN [r |-> s.r, st |-> st, pos |-> s.pos, taken |-> s.taken]
  ELSE IF st.first THEN [r |-> s.r, st |-> [first |-> FALSE, prev |-> s.r.v[1]], pos |-> s.pos, taken |-> s.taken]
  ELSE IF key[st.prev] # key[s.r.v[1]] THEN [r |-> s.r, st |-> [st EXCEPT !.prev = s.r.v[1]], pos |-> s.pos, taken |-> s.taken]
  ELSE CompactNext(st, s.pos, s.taken, x)
RECURSIVE FilterNext(_, _, _, _)
FilterNext(st, p, tk, x) ==
  LET s == SrcNext(p, tk, x) IN
  IF s.r.k # 0 THEN [r |-> s.r, st |-> st, pos |-> s.pos, taken |-> s.taken]
  ELSE IF pred[s.r.v[1]] = 1 THEN [r |-> s.r, st |-> st, pos |-> s.pos, taken |-> s.taken]
  ELSE FilterNext(st, s.pos, s.taken, x)
FirstNext(st, p, tk, x) ==
  IF st.x <= 0 THEN [r |-> END, st |-> st, pos |-> p, taken |-> tk]
  ELSE LET s == SrcNext(p, tk, x) IN
       IF s.r.k # 0 THEN [r |-> s.r, st |-> (IF Bug = "first-spends" THEN [st EXCEPT !.x = @ - 1] ELSE st), pos |-> s.pos, taken |-> s.taken]      \* the counter is only spent on an item
       ELSE [r |-> s.r, st |-> [st EXCEPT !.x = @ - 1], pos |-> s.pos, taken |-> s.taken]
WhileNext(st, p, tk, x) ==
  IF st.done THEN [r |-> END, st |-> st, pos |-> p, taken |-> tk]
  ELSE LET s == IF st.has THEN [r |-> Item(st.item), pos |-> p, taken |-> tk] ELSE SrcNext(p, tk, x) IN
       IF s.r.k # 0 THEN [r |-> s.r, st |-> st, pos |-> s.pos, taken |-> s.taken]
       ELSE IF pred[s.r.v[1]] = 1 THEN [r |-> s.r, st |-> [st EXCEPT !.has = FALSE], pos |-> s.pos, taken |-> s.taken]
       ELSE [r |-> END, st |-> [st EXCEPT !.done = TRUE, !.has = TRUE, !.item = s.r.v[1]], pos |-> s.pos, taken |-> s.taken]
MapNext(st, p, tk, x) ==
  LET s == SrcNext(p, tk, x) IN
  IF s.r.k # 0 THEN [r |-> s.r, st |-> st, pos |-> s.pos, taken |-> s.taken]
  ELSE [r |-> Item(s.r.v[1] + 10), st |-> st, pos |-> s.pos, taken |-> s.taken]
IdNext(st, p, tk, x) == LET s == SrcNext(p, tk, x) IN [r |-> s.r, st |-> st, pos |-> s.pos, taken |-> s.taken]
Step(c, st, p, tk, x) ==
  CASE c = "Chunk" -> ChunkNext(st, p, tk, x)
    [] c = "Compact" -> CompactNext(st, p, tk, x)
    [] c = "Filter" -> FilterNext(st, p, tk, x)
    [] c = "First" -> FirstNext(st, p, tk, x)
    [] c = "While" -> WhileNext(st, p, tk, x)
    [] c = "Map" -> MapNext(st, p, tk, x)
    [] OTHER -> IdNext(st, p, tk, x)
InitSt(c, nn) ==
  CASE c = "Chunk" -> [chunk |-> <<>>]
    [] c = "Compact" -> [first |-> TRUE, prev |-> 0]
    [] c = "First" -> [x |-> nn]
    [] c = "While" -> [done |-> FALSE, has |-> FALSE, item |-> 0]
    [] OTHER -> [z |-> 0]
Tables == {<<a, b, c>> : a \in {0, 1}, b \in {0, 1}, c \in {1}}
KeyTables == {<<1, 1, 1>>, <<1, 2, 3>>}
Init == /\ comb \in Combs /\ n \in NRange /\ pred \in Tables /\ key \in KeyTables /\ script \in Scripts
        /\ (comb = "Chunk" => n >= 1)
        /\ (comb \notin {"Chunk", "First"} => n = 1)                \* n is irrelevant: one representative
        /\ (comb \notin {"Filter", "While"} => pred = <<1, 1, 1>>)
        /\ (comb # "Compact" => key = <<1, 2, 3>>)
        /\ pos = 1 /\ taken = 0 /\ cst = InitSt(comb, n) /\ calls = <<>>
Call(x) == /\ Len(calls) < MaxCalls
           /\ LET s == Step(comb, cst, pos, taken, x = 1) IN
              /\ cst' = s.st /\ pos' = s.pos /\ taken' = s.taken
              /\ calls' = Append(calls, [ctx |-> x, k |-> s.r.k, e |-> s.r.e, v |-> s.r.v, t |-> s.taken])
           /\ UNCHANGED <<comb, n, pred, key, script>>
Next == Call(0) \/ Call(1)
Spec == Init /\ [][Next]_pvars
Rec == [fam |-> "stream", comb |-> comb, n |-> n, pred |-> pred, key |-> key, cbfail |-> 0, cbfired |-> 0,
        script |-> <<script>>, calls |-> calls, closed |-> 0, ledger |-> <<>>, panic |-> "", outs |-> <<>>]
\* the pull machines satisfy the session rules in every reachable state
MachinesOK == SessionOK(Rec)
\* export every complete behaviour (MaxCalls consumer calls) for replay on the code
Export == Len(calls) < MaxCalls \/ PrintT(<<"PULL", ToJson(Rec)>>)
=============================================================================
