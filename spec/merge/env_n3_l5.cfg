SPECIFICATION LSpec
CONSTANTS
  N = 3
  MaxLen = 5
  MaxItems = 2
VIEW View
ACTION_CONSTRAINT Dump
CHECK_DEADLOCK FALSE
