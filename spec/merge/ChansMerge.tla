------------------------------ MODULE ChansMerge ------------------------------
(* I-layer of chans.Merge (C12) for N inputs: the select loop over the still-open inputs (merge2 / merge3
   nil-ing a closed input and counting nDone; the reflect.Select loop removing the closed case), each
   received value forwarded to out before the next select; producers send their values in order and close;
   the consumer takes from out at its own pace. Channels are rendez-vous.
   RemoveWrong = TRUE models removing the wrong case when an input closes (a seeded defect of the
   reflect path). TLC: every interleaving of sends, closes and consumer pace. *)
EXTENDS Integers, Sequences, FiniteSets, TLC
CONSTANTS N, Lens, RemoveWrong     \* Lens: sequence giving the number of values of each input
In == 1..N
VARIABLES sent, closedIn, open, holding, mpc, out, returned
\* sent[i]: values of input i handed to Merge so far; open: inputs Merge still selects on; holding: value Merge is forwarding
vars == <<sent, closedIn, open, holding, mpc, out, returned>>
Init == sent = [i \in In |-> 0] /\ closedIn = {} /\ open = In /\ holding = <<>> /\ mpc = "select" /\ out = <<>> /\ returned = FALSE
Un(vs) == UNCHANGED vs
\* Merge's select receives the next value of an open input (rendez-vous with its producer)
RecvVal(i) == /\ mpc = "select" /\ i \in open /\ i \notin closedIn /\ sent[i] < Lens[i]
              /\ sent' = [sent EXCEPT ![i] = @ + 1] /\ holding' = <<i, sent[i] + 1>> /\ mpc' = "forward"
              /\ Un(<<closedIn, open, out, returned>>)
ProducerClose(i) == /\ i \notin closedIn /\ sent[i] = Lens[i] /\ closedIn' = closedIn \cup {i}
                    /\ Un(<<sent, open, holding, mpc, out, returned>>)
\* Merge's select sees an input closed: it stops selecting on it (or, defect, on another one)
RecvClosed(i) == /\ mpc = "select" /\ i \in open /\ i \in closedIn
                 /\ open' = (IF RemoveWrong /\ \E k \in open : k # i THEN open \ {CHOOSE k \in open : k # i} ELSE open \ {i})
                 /\ Un(<<sent, closedIn, holding, mpc, out, returned>>)
Forward == /\ mpc = "forward" /\ out' = Append(out, holding) /\ holding' = <<>> /\ mpc' = "select"      \* the consumer takes it
           /\ Un(<<sent, closedIn, open, returned>>)
Return == /\ mpc = "select" /\ open = {} /\ ~returned /\ returned' = TRUE /\ Un(<<sent, closedIn, open, holding, mpc, out>>)
Done == returned /\ UNCHANGED vars
Next == Forward \/ Return \/ Done \/ (\E i \in In : RecvVal(i) \/ ProducerClose(i) \/ RecvClosed(i))
Spec == Init /\ [][Next]_vars
L0 == <<>>
L2 == <<2, 1>>
L3 == <<1, 2, 0>>
L5 == <<1, 0, 2, 1, 1>>
Sub(q, i) == SelectSeq(q, LAMBDA x : x[1] = i)
PerInputOrder == \A i \in In : Sub(out, i) = [k \in 1..Len(Sub(out, i)) |-> <<i, k>>]
ReturnsExactlyWhenDone == returned => (closedIn = In /\ \A i \in In : Len(Sub(out, i)) = Lens[i])
==============================================================================
