---------------------------- MODULE Trace_Merge ----------------------------
(* C12: monitors for chans.Merge, chans.Replicate and stream.Merge histories recorded in bubbles.
   Values are 100*input + k, so the input a value came from is v \div 100.
   kind = "chans": send(i,v) = a producer starts sending v on input i; closein(i); take(n) = the
     consumer asks for n more values; recv(v); eof = the consumer saw the output closed (the harness
     closes it when Merge has returned); ret = Merge returned; q(pending) = quiescence.
   kind = "repl": send(0,v) on the source, closein(0), recvd(j,v) at destination j, ret.
   kind = "stream": taken(i,v) / srcend(i) / srcerr(i) / srcclose(i) from the instrumented inputs,
     call/ret of the consumer's Next and Close, q(pend, srcbusy). *)
EXTENDS Integers, Sequences, FiniteSets, TLC, Json
Trace == ndJsonDeserialize("trace.ndjson")
VARIABLES kind, n, started, got, closedIn, demand, returned, eof, srcSt, srcClosed, pend, closed, cancelled, gotD, l
vars == <<kind, n, started, got, closedIn, demand, returned, eof, srcSt, srcClosed, pend, closed, cancelled, gotD, l>>
Ev == Trace[l]
Inputs == 0..(n - 1)
Of(v) == v \div 100
Init == /\ kind = "" /\ n = 0 /\ started = <<>> /\ got = <<>> /\ closedIn = {} /\ demand = 0 /\ returned = FALSE /\ eof = FALSE
        /\ srcSt = <<>> /\ srcClosed = <<>> /\ pend = <<>> /\ closed = 0 /\ cancelled = {} /\ gotD = <<>> /\ l = 1 /\ TLCSet(1, 0)
Sub(q, i) == SelectSeq(q, LAMBDA v : Of(v) = i)
IsPrefix(p, q) == Len(p) <= Len(q) /\ SubSeq(q, 1, Len(p)) = p
\* every input's values come out in order, each at most once, and only values that were sent
OrderOK(g) == \A i \in Inputs : IsPrefix(Sub(g, i), Sub(started, i))
AllOut(g) == \A i \in Inputs : Sub(g, i) = Sub(started, i)
Un(vs) == UNCHANGED vs
Ids == DOMAIN pend
Next ==
  /\ l <= Len(Trace) /\ l' = l + 1
  /\ CASE kind = "done" /\ Ev.ev # "reset" -> Un(<<kind, n, started, got, closedIn, demand, returned, eof, srcSt, srcClosed, pend, closed, cancelled, gotD>>)      \* the harness's epilogue is not judged
       [] Ev.ev = "reset" ->
            /\ kind' = Ev.kind /\ n' = Ev.n /\ started' = <<>> /\ got' = <<>> /\ closedIn' = {} /\ demand' = 0 /\ returned' = FALSE /\ eof' = FALSE
            /\ srcSt' = [i \in 1..Ev.n |-> 0] /\ srcClosed' = [i \in 1..Ev.n |-> 0] /\ pend' = <<>> /\ closed' = 0 /\ cancelled' = {}
            /\ gotD' = [j \in 1..Ev.nd |-> <<>>]
       [] Ev.ev \in {"send", "taken"} -> started' = Append(started, Ev.v) /\ Un(<<kind, n, got, closedIn, demand, returned, eof, srcSt, srcClosed, pend, closed, cancelled, gotD>>)
       [] Ev.ev = "closein" -> closedIn' = closedIn \cup {Ev.i} /\ Un(<<kind, n, started, got, demand, returned, eof, srcSt, srcClosed, pend, closed, cancelled, gotD>>)
       [] Ev.ev = "take" -> demand' = demand + Ev.n /\ Un(<<kind, n, started, got, closedIn, returned, eof, srcSt, srcClosed, pend, closed, cancelled, gotD>>)
       [] Ev.ev = "recv" -> /\ got' = Append(got, Ev.v) /\ OrderOK(got') /\ ~eof /\ demand' = demand - 1
                            /\ Un(<<kind, n, started, closedIn, returned, eof, srcSt, srcClosed, pend, closed, cancelled, gotD>>)
       [] Ev.ev = "recvd" -> /\ gotD' = [gotD EXCEPT ![Ev.j] = Append(@, Ev.v)] /\ IsPrefix(gotD'[Ev.j], started)
                             /\ Un(<<kind, n, started, got, closedIn, demand, returned, eof, srcSt, srcClosed, pend, closed, cancelled>>)
       [] Ev.ev = "eof" -> eof' = TRUE /\ Un(<<kind, n, started, got, closedIn, demand, returned, srcSt, srcClosed, pend, closed, cancelled, gotD>>)
       [] Ev.ev = "mret" -> returned' = TRUE /\ Ev.panic = 0 /\ Un(<<kind, n, started, got, closedIn, demand, eof, srcSt, srcClosed, pend, closed, cancelled, gotD>>)
       [] Ev.ev = "srcend" -> srcSt' = [srcSt EXCEPT ![Ev.i + 1] = 1] /\ Un(<<kind, n, started, got, closedIn, demand, returned, eof, srcClosed, pend, closed, cancelled, gotD>>)
       [] Ev.ev = "srcerr" -> srcSt' = [srcSt EXCEPT ![Ev.i + 1] = (IF Ev.c = 1 THEN 3 ELSE 2)] /\ Un(<<kind, n, started, got, closedIn, demand, returned, eof, srcClosed, pend, closed, cancelled, gotD>>)
       [] Ev.ev = "srcclose" -> srcClosed' = [srcClosed EXCEPT ![Ev.i + 1] = @ + 1] /\ Un(<<kind, n, started, got, closedIn, demand, returned, eof, srcSt, pend, closed, cancelled, gotD>>)
       [] Ev.ev = "srcviol" -> FALSE        \* the instrumented source saw Next after Close / a second Close / overlapping calls (C09)
       [] Ev.ev = "cancel" -> cancelled' = cancelled \cup {Ev.ctx} /\ Un(<<kind, n, started, got, closedIn, demand, returned, eof, srcSt, srcClosed, pend, closed, gotD>>)
       [] Ev.ev \in {"item", "leak", "adv"} -> Un(<<kind, n, started, got, closedIn, demand, returned, eof, srcSt, srcClosed, pend, closed, cancelled, gotD>>)
       [] Ev.ev = "call" -> /\ pend' = [i \in Ids \cup {Ev.id} |-> IF i = Ev.id THEN [op |-> Ev.op, ctx |-> Ev.ctx] ELSE pend[i]]
                            /\ closed' = (IF Ev.op = "Close" THEN 1 ELSE closed)
                            /\ Un(<<kind, n, started, got, closedIn, demand, returned, eof, srcSt, srcClosed, cancelled, gotD>>)
       [] Ev.ev = "ret" ->
            /\ Ev.id \in Ids /\ pend' = [i \in Ids \ {Ev.id} |-> pend[i]]
            /\ IF Ev.op = "Next" THEN
                 /\ Un(closed)
                 /\ \/ /\ Ev.res.k = "val" /\ got' = Append(got, Ev.res.v) /\ OrderOK(got')
                    \/ /\ Ev.res.k = "end" /\ Un(got)          \* End exactly when all inputs are exhausted and everything was delivered
                       /\ (closed >= 1 \/ ((\A i \in 1..n : srcSt[i] = 1) /\ AllOut(got)))
                    \/ /\ Ev.res.k = "err" /\ Ev.res.e = "src" /\ Un(got) /\ (closed >= 1 \/ \E i \in 1..n : srcSt[i] = 2)
                    \/ /\ Ev.res.k = "err" /\ Ev.res.e = "ctx" /\ Un(got) /\ (closed >= 1 \/ pend[Ev.id].ctx \in cancelled \/ \E i \in 1..n : srcSt[i] = 3)   \* 3: an input failed with context.Canceled itself
                    \/ /\ Ev.res.k = "err" /\ Ev.res.e = "closedpipe" /\ Un(got) /\ closed >= 1
               ELSE /\ closed' = 2 /\ Un(got)
                    /\ (kind = "stream" => \A i \in 1..n : srcClosed[i] = 1)   \* by the time Close returns every input has been closed (C09)
            /\ Un(<<kind, n, started, closedIn, demand, returned, eof, srcSt, srcClosed, cancelled, gotD>>)
       [] Ev.ev = "q" ->
            /\ Un(<<kind, n, started, got, closedIn, demand, returned, eof, srcSt, srcClosed, pend, closed, cancelled, gotD>>)
            /\ CASE kind = "chans" ->
                      /\ (demand > 0 => AllOut(got))                                  \* nothing sent is stuck while the consumer asks
                      /\ (returned => (closedIn = Inputs /\ (demand > 0 => AllOut(got))))   \* returns only when the inputs are exhausted
                      /\ ((closedIn = Inputs /\ AllOut(got)) => returned)              \* ... and exactly then
                 [] kind = "repl" ->
                      /\ Ev.pendsend = 0                                               \* the source is read as long as it is open (also with no destination)
                      /\ \A j \in 1..Len(gotD) : gotD[j] = started                     \* every destination got the whole source, in order
                      /\ (returned <=> 0 \in closedIn)
                 [] kind = "stream" ->
                      /\ \A i \in Ids :
                           IF pend[i].op = "Close" THEN FALSE
                           ELSE \/ closed >= 1
                                \/ /\ pend[i].ctx \notin cancelled
                                   /\ AllOut(got)                                      \* nothing taken from an input is held back
                                   /\ ~(\A j \in 1..n : srcSt[j] = 1)                  \* all inputs exhausted => End
                                   /\ ~(\E j \in 1..n : srcSt[j] >= 2)                 \* an input failed => its error
                      \* after the output's Close returned: the goroutines are gone and every input is closed exactly once
                      /\ (closed = 2 => (Ev.srcbusy = 0 /\ \A j \in 1..n : srcClosed[j] = 1))
                      /\ \A j \in 1..n : srcClosed[j] <= 1
Spec == Init /\ [][Next]_vars
HWM == TLCSet(1, IF TLCGet(1) < l THEN l ELSE TLCGet(1))
Accepted == PrintT(<<"HWM", TLCGet(1)>>) /\ TLCGet(1) = Len(Trace) + 1
=============================================================================
