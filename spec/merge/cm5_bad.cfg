SPECIFICATION Spec
CONSTANTS
  N = 5
  Lens <- L5
  RemoveWrong = TRUE
INVARIANTS PerInputOrder ReturnsExactlyWhenDone
