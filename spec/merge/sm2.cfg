SPECIFICATION Spec
CONSTANTS
  N = 2
  Lens <- M2
  Fails <- F2ok
  CloseWaits = TRUE
INVARIANTS PerInputOrder EndOnlyWhenAllOut ErrOnlyIfAnInputFailed AfterClose
