SPECIFICATION Spec
CONSTANTS
  N = 2
  Lens <- M2
  Fails <- F2err
  CloseWaits = TRUE
INVARIANTS PerInputOrder EndOnlyWhenAllOut ErrOnlyIfAnInputFailed AfterClose
