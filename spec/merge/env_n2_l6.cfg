SPECIFICATION LSpec
CONSTANTS
  N = 2
  MaxLen = 6
  MaxItems = 3
VIEW View
ACTION_CONSTRAINT Dump
CHECK_DEADLOCK FALSE
