SPECIFICATION Spec
CONSTANTS
  N = 3
  Lens <- L3
  RemoveWrong = FALSE
INVARIANTS PerInputOrder ReturnsExactlyWhenDone
