------------------------------ MODULE StreamMerge ------------------------------
(* I-layer of stream.Merge (C12, C09) as repaired: one reader goroutine per input looping
   Next(ctx) -> Send on a Pipe(0); the last reader to finish closes the sender with nil unless an error
   was already reported (closeOnce); an input error cancels ctx and closes the sender with that error;
   every reader closes its input when it leaves; the consumer calls Next and finally Close = close the
   receiver, cancel ctx, wait for the readers. Inputs are scripts: Lens[i] items, then End (Fail[i] = 0) or an error.
   CloseWaits = FALSE models the pinned code (Close neither cancels nor waits; inputs never closed). *)
EXTENDS Integers, Sequences, FiniteSets, TLC
CONSTANTS N, Lens, Fails, CloseWaits
In == 1..N
VARIABLES rpc, pos, item, senderClosed, senderErr, closeOnce, nDone, ctxDone, streamDone, inClosed,
          got, cpc, cres, closed
vars == <<rpc, pos, item, senderClosed, senderErr, closeOnce, nDone, ctxDone, streamDone, inClosed, got, cpc, cres, closed>>
Init == /\ rpc = [i \in In |-> "next"] /\ pos = [i \in In |-> 0] /\ item = [i \in In |-> 0]
        /\ senderClosed = (N = 0) /\ senderErr = FALSE /\ closeOnce = FALSE /\ nDone = 0 /\ ctxDone = FALSE /\ streamDone = FALSE
        /\ inClosed = [i \in In |-> 0] /\ got = <<>> /\ cpc = "idle" /\ cres = "none" /\ closed = FALSE
Un(vs) == UNCHANGED vs
\* a reader leaves: closes its input; the last one closes the sender with nil unless closeOnce
Leave(i) == /\ rpc' = [rpc EXCEPT ![i] = "gone"] /\ inClosed' = [inClosed EXCEPT ![i] = @ + (IF CloseWaits THEN 1 ELSE 0)]
            /\ nDone' = nDone + 1
            /\ senderClosed' = (senderClosed \/ (nDone + 1 = N /\ ~closeOnce))
RNext(i) == /\ rpc[i] = "next"
            /\ IF ctxDone THEN Leave(i) /\ Un(<<pos, item, senderErr, closeOnce, ctxDone>>)                                   \* Next(ctx) returns the cancellation
               ELSE IF pos[i] < Lens[i] THEN /\ pos' = [pos EXCEPT ![i] = @ + 1] /\ item' = [item EXCEPT ![i] = pos[i] + 1] /\ rpc' = [rpc EXCEPT ![i] = "send"]
                                             /\ Un(<<senderClosed, senderErr, closeOnce, nDone, ctxDone, inClosed>>)
               ELSE IF Fails[i] = 0 THEN Leave(i) /\ Un(<<pos, item, senderErr, closeOnce, ctxDone>>)                          \* End
               ELSE /\ Leave(i) /\ Un(<<pos, item>>)                                                                          \* the input's error
                    /\ IF ~closeOnce THEN closeOnce' = TRUE /\ ctxDone' = TRUE /\ senderErr' = TRUE ELSE Un(<<closeOnce, ctxDone, senderErr>>)
            /\ Un(<<streamDone, got, cpc, cres, closed>>)
\* Send: rendez-vous with a consumer parked in Next, or give up (ctx / receiver closed / sender closed)
RSendTo(i) == /\ rpc[i] = "send" /\ cpc = "next" /\ ~(senderClosed \/ senderErr)
              /\ got' = Append(got, <<i, item[i]>>) /\ cpc' = "idle" /\ cres' = "val" /\ rpc' = [rpc EXCEPT ![i] = "next"]
              /\ Un(<<pos, item, senderClosed, senderErr, closeOnce, nDone, ctxDone, streamDone, inClosed, closed>>)
RSendAbort(i) == /\ rpc[i] = "send" /\ (ctxDone \/ streamDone \/ senderClosed \/ senderErr)
                 /\ Leave(i) /\ Un(<<pos, item, senderErr, closeOnce, ctxDone, streamDone, got, cpc, cres, closed>>)
\* consumer
CNext == /\ cpc = "idle" /\ ~closed /\ cpc' = "next" /\ cres' = "none"
         /\ Un(<<rpc, pos, item, senderClosed, senderErr, closeOnce, nDone, ctxDone, streamDone, inClosed, got, closed>>)
CEnd == /\ cpc = "next" /\ (senderClosed \/ senderErr) /\ cpc' = "idle" /\ cres' = (IF senderErr THEN "err" ELSE "end")
        /\ Un(<<rpc, pos, item, senderClosed, senderErr, closeOnce, nDone, ctxDone, streamDone, inClosed, got, closed>>)
CClose == /\ cpc = "idle" /\ ~closed /\ closed' = TRUE /\ streamDone' = TRUE /\ ctxDone' = (ctxDone \/ CloseWaits) /\ cpc' = (IF CloseWaits THEN "closing" ELSE "idle")
          /\ Un(<<rpc, pos, item, senderClosed, senderErr, closeOnce, nDone, inClosed, got, cres>>)
CCloseRet == /\ cpc = "closing" /\ nDone = N /\ cpc' = "idle"
             /\ Un(<<rpc, pos, item, senderClosed, senderErr, closeOnce, nDone, ctxDone, streamDone, inClosed, got, cres, closed>>)
Done == closed /\ cpc = "idle" /\ UNCHANGED vars
Next == CNext \/ CEnd \/ CClose \/ CCloseRet \/ Done \/ (\E i \in In : RNext(i) \/ RSendTo(i) \/ RSendAbort(i))
Spec == Init /\ [][Next]_vars
Sub(q, i) == SelectSeq(q, LAMBDA x : x[1] = i)
PerInputOrder == \A i \in In : Sub(got, i) = [k \in 1..Len(Sub(got, i)) |-> <<i, k>>]
EndOnlyWhenAllOut == cres = "end" => (\A i \in In : Fails[i] = 0 /\ Len(Sub(got, i)) = Lens[i])
ErrOnlyIfAnInputFailed == cres = "err" => \E i \in In : Fails[i] # 0 /\ pos[i] = Lens[i]
\* after the output's Close returned: every reader is gone and every input was closed exactly once
AfterClose == (closed /\ cpc = "idle") => (\A i \in In : rpc[i] = "gone" /\ inClosed[i] = 1)
M0 == <<>>
M2 == <<2, 1>>
F2ok == <<0, 0>>
F2err == <<0, 1>>
M3 == <<1, 1, 2>>
F3 == <<0, 1, 0>>
==============================================================================
