SPECIFICATION Spec
CONSTANTS
  N = 2
  Lens <- L2
  RemoveWrong = FALSE
INVARIANTS PerInputOrder ReturnsExactlyWhenDone
