SPECIFICATION Spec
CONSTANTS
  N = 3
  Lens <- M3
  Fails <- F3
  CloseWaits = TRUE
INVARIANTS PerInputOrder EndOnlyWhenAllOut ErrOnlyIfAnInputFailed AfterClose
