------------------------------ MODULE MergeEnv ------------------------------
(* The environment of stream.Merge as the bubble harness drives it (C08, C09, C12): N gated inputs; an input gets an
   item, ends, fails (with its own error, or with context.Canceled as its own error); the consumer calls Next with a
   live context (0) or with context 1, context 1 is cancelled, the consumer closes, or a consumer drains and closes
   back to back. Inputs may have their end / an item waiting before Merge is even called (pre-steps, only as a
   prefix). Every behaviour up to MaxLen steps is one schedule; TLC dumps the transition system and the paths
   are replayed on the code. *)
EXTENDS Integers, Sequences, FiniteSets, TLC, Json
CONSTANTS N, MaxLen, MaxItems
VARIABLES fin, items, cancelled, closed, started, len, op
vars == <<fin, items, cancelled, closed, started, len, op>>
In == 0..(N - 1)
R(a, i, c) == op' = [a |-> a, i |-> i, ctx |-> c] /\ len' = len + 1
Init == fin = {} /\ items = 0 /\ cancelled = FALSE /\ closed = FALSE /\ started = FALSE /\ len = 0 /\ op = [a |-> "init", i |-> 0, ctx |-> 0]
Pre(i) == /\ ~started /\ i \notin fin
          /\ \/ (fin' = fin \cup {i} /\ UNCHANGED items /\ R("preend", i, 0))
             \/ (items < MaxItems /\ items' = items + 1 /\ UNCHANGED fin /\ R("preitem", i, 0))
          /\ UNCHANGED <<cancelled, closed, started>>
Item(i) == i \notin fin /\ items < MaxItems /\ items' = items + 1 /\ started' = TRUE /\ UNCHANGED <<fin, cancelled, closed>> /\ R("item", i, 0)
Finish(i) == /\ i \notin fin /\ fin' = fin \cup {i} /\ started' = TRUE /\ UNCHANGED <<items, cancelled, closed>>
             /\ \E a \in {"end", "srcerr", "srccanc"} : R(a, i, 0)
NextC(c) == started' = TRUE /\ UNCHANGED <<fin, items, cancelled, closed>> /\ R("next", 0, c)
Cancel == ~cancelled /\ cancelled' = TRUE /\ started' = TRUE /\ UNCHANGED <<fin, items, closed>> /\ R("cancel", 0, 1)
Close == closed' = TRUE /\ started' = TRUE /\ UNCHANGED <<fin, items, cancelled>> /\ \E a \in {"close", "drainclose"} : R(a, 0, 0)
Next == /\ len < MaxLen /\ ~closed
        /\ \/ \E i \in In : Pre(i) \/ Item(i) \/ Finish(i)
           \/ \E c \in {0, 1} : NextC(c)
           \/ Cancel \/ Close
Spec == Init /\ [][Next]_vars
View == <<fin, items, cancelled, closed, started, len>>
LState == [f |-> fin, n |-> items, c |-> cancelled, cl |-> closed, s |-> started, l |-> len]
Dump == PrintT(<<"LTS", ToJson([from |-> LState, op |-> op', to |-> LState'])>>)
LInit == Init /\ PrintT(<<"LTSINIT", ToJson([from |-> LState])>>)
LSpec == LInit /\ [][Next]_vars
=============================================================================
