SPECIFICATION Spec
CONSTANTS
  N = 5
  Lens <- L5
  RemoveWrong = FALSE
INVARIANTS PerInputOrder ReturnsExactlyWhenDone
