SPECIFICATION LSpec
CONSTANTS
  N = 3
  MaxLen = 7
  MaxItems = 3
VIEW View
ACTION_CONSTRAINT Dump
CHECK_DEADLOCK FALSE
