SPECIFICATION Spec
CONSTANTS
  N = 0
  Lens <- M0
  Fails <- M0
  CloseWaits = TRUE
INVARIANTS PerInputOrder EndOnlyWhenAllOut ErrOnlyIfAnInputFailed AfterClose
