SPECIFICATION Spec
CONSTANTS
  N = 0
  Lens <- L0
  RemoveWrong = FALSE
INVARIANTS PerInputOrder ReturnsExactlyWhenDone
