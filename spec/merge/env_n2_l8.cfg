SPECIFICATION LSpec
CONSTANTS
  N = 2
  MaxLen = 8
  MaxItems = 4
VIEW View
ACTION_CONSTRAINT Dump
CHECK_DEADLOCK FALSE
