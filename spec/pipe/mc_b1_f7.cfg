SPECIFICATION Spec
CONSTANTS
  B = 1
  Senders = {1,2}
  NVals = 2
  Fixed = FALSE
  WithCtx = TRUE
INVARIANTS OnlySentOnceInOrder NoLossBeforeClose StickyEnd NoStuckSend NoStuckNext
CHECK_DEADLOCK FALSE
