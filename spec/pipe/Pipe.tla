-------------------------------- MODULE Pipe --------------------------------
(* I-layer of stream.Pipe (C10): the channel c (capacity B; B = 0 is a rendez-vous), the closed
   flags senderDone / streamDone, sender goroutines running a script of Send calls, a closer that
   calls PipeSender.Close at any moment, a receiver calling Next and finally Close, one context per
   process that may expire at any step. A select is a pc value; each ready arm is its own action, so
   TLC explores every choice of ready arm.
   Fixed = TRUE models the repaired code (Send checks senderDone first; Next drains c in the
   senderDone arm); Fixed = FALSE the pinned code (finding F7). *)
EXTENDS Integers, Sequences, FiniteSets, TLC
CONSTANTS B, Senders, NVals, Fixed, WithCtx
VARIABLES c, senderDone, streamDone,
          spc, sidx, sctx,            \* sender: pc ("idle" | "pre" | "select" | "done"), next value index, ctx expired?
          rpc, rctx, rcalls,          \* receiver: pc ("idle" | "select" | "closed"), ctx expired?, calls made
          closeCalled,
          got, acked, ackedBC,        \* history: delivered values; values whose Send returned nil (before Close was invoked)
          lastRes, endSeen, endHadSend, late
vars == <<c, senderDone, streamDone, spc, sidx, sctx, rpc, rctx, rcalls, closeCalled, got, acked, ackedBC, lastRes, endSeen, endHadSend, late>>
Val(s) == <<s, sidx[s]>>
Init == /\ c = <<>> /\ senderDone = FALSE /\ streamDone = FALSE
        /\ spc = [s \in Senders |-> "idle"] /\ sidx = [s \in Senders |-> 1] /\ sctx = [s \in Senders |-> FALSE]
        /\ rpc = "idle" /\ rctx = FALSE /\ rcalls = 0 /\ closeCalled = FALSE
        /\ got = <<>> /\ acked = [s \in Senders |-> <<>>] /\ ackedBC = {} /\ lastRes = "none"
        /\ endSeen = FALSE /\ endHadSend = FALSE /\ late = FALSE
Un(vs) == UNCHANGED vs
\* ---- sender s: Send(ctx, Val(s))
StartSend(s) == /\ spc[s] = "idle" /\ sidx[s] <= NVals
                /\ spc' = [spc EXCEPT ![s] = IF Fixed THEN "pre" ELSE "select"]
                /\ Un(<<c, senderDone, streamDone, sidx, sctx, rpc, rctx, rcalls, closeCalled, got, acked, ackedBC, lastRes, endSeen, endHadSend, late>>)
\* the repaired code's non-blocking check of senderDone
PreCheck(s) == /\ spc[s] = "pre"
               /\ IF senderDone THEN spc' = [spc EXCEPT ![s] = "idle"] /\ sidx' = [sidx EXCEPT ![s] = NVals + 1]
                  ELSE spc' = [spc EXCEPT ![s] = "select"] /\ Un(sidx)
               /\ Un(<<c, senderDone, streamDone, sctx, rpc, rctx, rcalls, closeCalled, got, acked, ackedBC, lastRes, endSeen, endHadSend, late>>)
Accept(s) == /\ acked' = [acked EXCEPT ![s] = Append(@, Val(s))]
             /\ ackedBC' = IF closeCalled THEN ackedBC ELSE ackedBC \cup {Val(s)}
             /\ sidx' = [sidx EXCEPT ![s] = @ + 1] /\ spc' = [spc EXCEPT ![s] = "idle"]
SendBuf(s) == /\ spc[s] = "select" /\ Len(c) < B /\ c' = Append(c, Val(s)) /\ Accept(s)
              /\ Un(<<senderDone, streamDone, sctx, rpc, rctx, rcalls, closeCalled, got, lastRes, endSeen, endHadSend, late>>)
\* hand-off to a receiver parked in Next
SendRdv(s) == /\ spc[s] = "select" /\ rpc = "select" /\ Len(c) = 0
              /\ got' = Append(got, Val(s)) /\ rpc' = "idle" /\ lastRes' = "val" /\ late' = (late \/ (endSeen /\ ~endHadSend)) /\ Accept(s)
              /\ Un(<<c, senderDone, streamDone, sctx, rctx, rcalls, closeCalled, endSeen, endHadSend>>)
SendAbort(s) == /\ spc[s] = "select" /\ (senderDone \/ streamDone \/ sctx[s])
                /\ sidx' = [sidx EXCEPT ![s] = NVals + 1] /\ spc' = [spc EXCEPT ![s] = "idle"]
                /\ Un(<<c, senderDone, streamDone, sctx, rpc, rctx, rcalls, closeCalled, got, acked, ackedBC, lastRes, endSeen, endHadSend, late>>)
ExpireS(s) == /\ WithCtx /\ ~sctx[s] /\ sctx' = [sctx EXCEPT ![s] = TRUE]
              /\ Un(<<c, senderDone, streamDone, spc, sidx, rpc, rctx, rcalls, closeCalled, got, acked, ackedBC, lastRes, endSeen, endHadSend, late>>)
\* ---- PipeSender.Close (once, at any moment; concurrent with Sends)
CloseSender == /\ ~closeCalled /\ closeCalled' = TRUE /\ senderDone' = TRUE
               /\ Un(<<c, streamDone, spc, sidx, sctx, rpc, rctx, rcalls, got, acked, ackedBC, lastRes, endSeen, endHadSend, late>>)
\* ---- receiver
SendInFlight == \E s \in Senders : spc[s] \in {"pre", "select"}
StartNext == /\ rpc = "idle" /\ rcalls < NVals * Cardinality(Senders) + 3 /\ rpc' = "select" /\ rcalls' = rcalls + 1
             /\ Un(<<c, senderDone, streamDone, spc, sidx, sctx, rctx, closeCalled, got, acked, ackedBC, lastRes, endSeen, endHadSend, late>>)
NextBuf == /\ rpc = "select" /\ Len(c) > 0 /\ got' = Append(got, Head(c)) /\ c' = Tail(c) /\ rpc' = "idle" /\ lastRes' = "val"
           /\ late' = (late \/ (endSeen /\ ~endHadSend))
           /\ Un(<<senderDone, streamDone, spc, sidx, sctx, rctx, rcalls, closeCalled, acked, ackedBC, endSeen, endHadSend>>)
\* the senderDone arm
NextDone == /\ rpc = "select" /\ senderDone
            /\ IF Fixed /\ Len(c) > 0
               THEN got' = Append(got, Head(c)) /\ c' = Tail(c) /\ lastRes' = "val" /\ late' = (late \/ (endSeen /\ ~endHadSend)) /\ Un(<<endSeen, endHadSend>>)
               ELSE lastRes' = "end" /\ endSeen' = TRUE /\ endHadSend' = (endHadSend \/ SendInFlight) /\ Un(<<got, c, late>>)
            /\ rpc' = "idle"
            /\ Un(<<senderDone, streamDone, spc, sidx, sctx, rctx, rcalls, closeCalled, acked, ackedBC>>)
NextCtx == /\ rpc = "select" /\ rctx /\ rpc' = "idle" /\ lastRes' = "ctx"
           /\ Un(<<c, senderDone, streamDone, spc, sidx, sctx, rctx, rcalls, closeCalled, got, acked, ackedBC, endSeen, endHadSend, late>>)
ExpireR == /\ WithCtx /\ ~rctx /\ rctx' = TRUE
           /\ Un(<<c, senderDone, streamDone, spc, sidx, sctx, rpc, rcalls, closeCalled, got, acked, ackedBC, lastRes, endSeen, endHadSend, late>>)
RenewR == /\ rctx /\ rpc = "idle" /\ rctx' = FALSE      \* the next call uses a live context
          /\ Un(<<c, senderDone, streamDone, spc, sidx, sctx, rpc, rcalls, closeCalled, got, acked, ackedBC, lastRes, endSeen, endHadSend, late>>)
CloseRecv == /\ rpc = "idle" /\ rpc' = "closed" /\ streamDone' = TRUE
             /\ Un(<<c, senderDone, spc, sidx, sctx, rctx, rcalls, closeCalled, got, acked, ackedBC, lastRes, endSeen, endHadSend, late>>)
Prog == \/ (\E s \in Senders : PreCheck(s) \/ SendBuf(s) \/ SendRdv(s) \/ SendAbort(s)) \/ NextBuf \/ NextDone \/ NextCtx
Env == \/ (\E s \in Senders : StartSend(s) \/ ExpireS(s)) \/ CloseSender \/ StartNext \/ ExpireR \/ RenewR \/ CloseRecv
Next == Prog \/ Env
Spec == Init /\ [][Next]_vars
FairSpec == Spec /\ WF_vars(Prog)
\* ---- properties
Sub(q, s) == SelectSeq(q, LAMBDA x : x[1] = s)
IsPrefix(p, q) == Len(p) <= Len(q) /\ SubSeq(q, 1, Len(p)) = p
OnlySentOnceInOrder == \A s \in Senders : IsPrefix(Sub(got, s), acked[s])       \* only sent values, at most once, per-sender order
NoLossBeforeClose == (endSeen /\ lastRes = "end") => \A v \in ackedBC : \E i \in 1..Len(got) : got[i] = v
StickyEnd == ~late                                   \* no value after the end unless a Send was in flight when it was reported
\* no stuck call: when the program cannot move, a pending call is one the statement allows to wait
Quiescent == ~ENABLED Prog
NoStuckSend == \A s \in Senders : (Quiescent /\ spc[s] \in {"pre", "select"}) => (~senderDone /\ ~streamDone /\ ~sctx[s] /\ rpc # "select")
NoStuckNext == (Quiescent /\ rpc = "select") => (Len(c) = 0 /\ ~senderDone /\ ~rctx /\ ~SendInFlight)
View == <<c, senderDone, streamDone, spc, sidx, sctx, rpc, rctx, rcalls, closeCalled, ackedBC, lastRes, endSeen, endHadSend, late, got>>
=============================================================================
