SPECIFICATION Spec
CONSTANTS
  B = 2
  Senders = {1,2}
  NVals = 2
  Fixed = TRUE
  WithCtx = TRUE
INVARIANTS OnlySentOnceInOrder NoLossBeforeClose StickyEnd NoStuckSend NoStuckNext
CHECK_DEADLOCK FALSE
