SPECIFICATION LSpec
CONSTANTS
  NS = 1
  MaxLen = 8
  MaxSend = 5
VIEW View
ACTION_CONSTRAINT Dump
CHECK_DEADLOCK FALSE
