----------------------------- MODULE Trace_Pipe -----------------------------
(* C10: trace validation of stream.Pipe histories recorded in synctest bubbles.
   The trace holds call / ret / cancel / q (quiescence) records; every call record carries the
   result the call eventually returned (res.k = "none" if it never did). TLC searches for a
   linearisation: each pending call takes effect in one silent Lin step between its call and its
   ret; at a quiescence record every call that has not returned must be one the property allows
   to wait.

   P-layer state: inflight[s] = values of sender s accepted and not yet delivered (per-sender FIFO;
   nothing is said about the order between senders), sClosed (0 open, 1 closed with nil, 2 closed
   with an error), rClosed, cancelled contexts, acked = values whose Send returned nil before the
   sender's Close was invoked, delivered. *)
EXTENDS Integers, Sequences, FiniteSets, TLC, Json
Trace == ndJsonDeserialize("trace.ndjson")
Senders == 1..3
VARIABLES inflight, sClosed, rClosed, cancelled, pend, acked, delivered, closeCalled, ended, endHadSend, l
vars == <<inflight, sClosed, rClosed, cancelled, pend, acked, delivered, closeCalled, ended, endHadSend, l>>
Ev == Trace[l]
Ids == DOMAIN pend
Init0 == /\ inflight = [s \in Senders |-> <<>>] /\ sClosed = 0 /\ rClosed = FALSE /\ cancelled = {}
         /\ pend = <<>> /\ acked = {} /\ delivered = {} /\ closeCalled = FALSE /\ ended = FALSE /\ endHadSend = FALSE
Init == Init0 /\ l = 1 /\ TLCSet(1, 0)
Step == l <= Len(Trace) /\ l' = l + 1
Reset == /\ Step /\ Ev.ev = "reset"
         /\ inflight' = [s \in Senders |-> <<>>] /\ sClosed' = 0 /\ rClosed' = FALSE /\ cancelled' = {}
         /\ pend' = <<>> /\ acked' = {} /\ delivered' = {} /\ closeCalled' = FALSE /\ ended' = FALSE /\ endHadSend' = FALSE
Call == /\ Step /\ Ev.ev = "call"
        /\ pend' = [i \in Ids \cup {Ev.id} |-> IF i = Ev.id THEN [op |-> Ev.op, s |-> Ev.s, v |-> Ev.v, ctx |-> Ev.ctx, err |-> Ev.err, res |-> Ev.res, lin |-> FALSE] ELSE pend[i]]
        /\ closeCalled' = (closeCalled \/ Ev.op = "CloseS")
        /\ UNCHANGED <<inflight, sClosed, rClosed, cancelled, acked, delivered, ended, endHadSend>>
Cancel == /\ Step /\ Ev.ev = "cancel" /\ cancelled' = cancelled \cup {Ev.ctx}
          /\ UNCHANGED <<inflight, sClosed, rClosed, pend, acked, delivered, closeCalled, ended, endHadSend>>
SendPending == \E j \in Ids : pend[j].op \in {"Send", "TrySend"} /\ ~pend[j].lin
NoLoss == acked \subseteq delivered
\* the effect of pending call i, chosen by the result it is known to return
Lin(i) ==
  LET c == pend[i] IN
  /\ i \in Ids /\ ~c.lin /\ c.res.k # "none"
  /\ pend' = [pend EXCEPT ![i].lin = TRUE]
  /\ UNCHANGED <<cancelled, acked, closeCalled, l>>
  /\ CASE c.op \in {"Send", "TrySend"} ->
            /\ UNCHANGED <<sClosed, rClosed, delivered, ended, endHadSend>>
            /\ \/ /\ c.res.k \in {"nil", "ok"}                   \* accepted: the value is in flight
                  /\ inflight' = [inflight EXCEPT ![c.s] = Append(@, c.v)]
               \/ /\ c.res.k = "nil" /\ c.op = "Send" /\ sClosed = 1   \* Send after Close(nil) reports the nil close error
                  /\ UNCHANGED inflight
               \/ /\ c.res.k = "full" /\ c.op = "TrySend" /\ UNCHANGED inflight
               \/ /\ c.res.k = "err" /\ UNCHANGED inflight
                  /\ \/ c.res.e = "closedpipe" /\ rClosed
                     \/ c.res.e = "sender" /\ sClosed = 2
                     \/ c.res.e = "ctx" /\ c.ctx \in cancelled
       [] c.op = "Next" ->
            /\ UNCHANGED <<sClosed, rClosed>>
            /\ \/ /\ c.res.k = "val"                             \* only sent values, each once, per-sender order
                  /\ \E s \in Senders : inflight[s] # <<>> /\ Head(inflight[s]) = c.res.v
                                        /\ inflight' = [inflight EXCEPT ![s] = Tail(@)]
                  /\ delivered' = delivered \cup {c.res.v}
                  /\ (ended => endHadSend)                        \* sticky end unless a Send was in flight when it was reported
                  /\ UNCHANGED <<ended, endHadSend>>
               \/ /\ c.res.k = "end" /\ (sClosed = 1 \/ (ended /\ sClosed # 0)) /\ NoLoss
                  /\ ended' = TRUE /\ endHadSend' = (endHadSend \/ SendPending) /\ UNCHANGED <<inflight, delivered>>
               \/ /\ c.res.k = "err" /\ c.res.e = "sender" /\ sClosed = 2 /\ NoLoss
                  /\ ended' = TRUE /\ endHadSend' = (endHadSend \/ SendPending) /\ UNCHANGED <<inflight, delivered>>
               \/ /\ c.res.k = "err" /\ c.res.e = "ctx" /\ c.ctx \in cancelled
                  /\ UNCHANGED <<inflight, delivered, ended, endHadSend>>
       [] c.op = "CloseS" -> /\ c.res.k = "nil" /\ sClosed = 0 /\ sClosed' = (IF c.err = 1 THEN 2 ELSE 1)
                             /\ UNCHANGED <<inflight, rClosed, delivered, ended, endHadSend>>
       [] c.op = "CloseR" -> /\ c.res.k = "nil" /\ rClosed' = TRUE
                             /\ UNCHANGED <<inflight, sClosed, delivered, ended, endHadSend>>
LinAny == \E i \in Ids : Lin(i)
Ret == /\ Step /\ Ev.ev = "ret" /\ Ev.id \in Ids /\ pend[Ev.id].lin /\ pend[Ev.id].res = Ev.res
       /\ pend' = [i \in Ids \ {Ev.id} |-> pend[i]]
       /\ acked' = IF pend[Ev.id].op \in {"Send", "TrySend"} /\ Ev.res.k \in {"nil", "ok"} /\ ~closeCalled
                   THEN acked \cup {pend[Ev.id].v} ELSE acked
       /\ UNCHANGED <<inflight, sClosed, rClosed, cancelled, delivered, closeCalled, ended, endHadSend>>
\* a call that has not returned although every goroutine is blocked must be allowed to wait
MayWait(i) ==
  LET c == pend[i] IN
  CASE c.op = "Send" -> ~rClosed /\ sClosed = 0 /\ c.ctx \notin cancelled /\ ~\E j \in Ids : pend[j].op = "Next"
    [] c.op = "Next" -> (\A s \in Senders : inflight[s] = <<>>) /\ sClosed = 0 /\ c.ctx \notin cancelled
                        /\ ~\E j \in Ids : pend[j].op = "Send"
    [] OTHER -> FALSE                                  \* TrySend and the two Close never block
Quiesce == /\ Step /\ Ev.ev = "q"
           /\ \A i \in Ids : ~pend[i].lin /\ MayWait(i)
           /\ UNCHANGED <<inflight, sClosed, rClosed, cancelled, pend, acked, delivered, closeCalled, ended, endHadSend>>
Next == Reset \/ Call \/ Cancel \/ Ret \/ Quiesce \/ LinAny
Spec == Init /\ [][Next]_vars
HWM == TLCSet(1, IF TLCGet(1) < l THEN l ELSE TLCGet(1))
Accepted == PrintT(<<"HWM", TLCGet(1)>>) /\ TLCGet(1) = Len(Trace) + 1
=============================================================================
