SPECIFICATION LSpec
CONSTANTS
  NS = 1
  MaxLen = 6
  MaxSend = 4
VIEW View
ACTION_CONSTRAINT Dump
CHECK_DEADLOCK FALSE
