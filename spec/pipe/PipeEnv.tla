------------------------------ MODULE PipeEnv ------------------------------
(* The environment of stream.Pipe as the bubble harness drives it (C08, C10): NS senders issue Send / TrySend of
   distinguishable values with a live context (0) or with context 1, the receiver calls Next (context 0 or 1),
   context 1 is cancelled, the sender side is closed (with or without an error), the receiver is closed. The
   buffer size is a header of the run. Every behaviour up to MaxLen steps is one schedule. *)
EXTENDS Integers, Sequences, FiniteSets, TLC, Json
CONSTANTS NS, MaxLen, MaxSend
VARIABLES sent, closedS, closedR, cancelled, len, op
\* contexts: 0 = never ends, 1 = cancelled by a step, 2 = a deadline context that expires (DeadlineExceeded) by a step.
\* noq = TRUE: the harness does not wait for quiescence after the step, so the next step races with it (TrySend only).
vars == <<sent, closedS, closedR, cancelled, len, op>>
S == 1..NS
Total == LET RECURSIVE F(_) F(T) == IF T = {} THEN 0 ELSE LET x == CHOOSE x \in T : TRUE IN sent[x] + F(T \ {x}) IN F(S)
RQ(a, s, v, c, e, q) == op' = [a |-> a, s |-> s, v |-> v, ctx |-> c, err |-> e, noq |-> q] /\ len' = len + 1
R(a, s, v, c, e) == RQ(a, s, v, c, e, FALSE)
Init == sent = [s \in S |-> 0] /\ closedS = FALSE /\ closedR = FALSE /\ cancelled = {} /\ len = 0
        /\ op = [a |-> "init", s |-> 0, v |-> 0, ctx |-> 0, err |-> 0, noq |-> FALSE]
Send(s, a, c) == /\ Total < MaxSend /\ sent' = [sent EXCEPT ![s] = @ + 1] /\ UNCHANGED <<closedS, closedR, cancelled>>
                 /\ R(a, s, 10 * s + sent[s] + 1, c, 0)
NextC(c) == ~closedR /\ UNCHANGED <<sent, closedS, closedR, cancelled>> /\ R("next", 0, 0, c, 0)
Cancel(c) == c \notin cancelled /\ cancelled' = cancelled \cup {c} /\ UNCHANGED <<sent, closedS, closedR>> /\ R("cancel", 0, 0, c, 0)
TrySendRace(s) == /\ Total < MaxSend /\ sent' = [sent EXCEPT ![s] = @ + 1] /\ UNCHANGED <<closedS, closedR, cancelled>>
                  /\ RQ("trysend", s, 10 * s + sent[s] + 1, 0, 0, TRUE)
CloseS(e) == ~closedS /\ closedS' = TRUE /\ UNCHANGED <<sent, closedR, cancelled>> /\ R("closeS", 0, 0, 0, e)
CloseR == ~closedR /\ closedR' = TRUE /\ UNCHANGED <<sent, closedS, cancelled>> /\ R("closeR", 0, 0, 0, 0)
Next == /\ len < MaxLen
        /\ \/ \E s \in S, c \in {0, 1} : Send(s, "send", c)
           \/ \E s \in S : Send(s, "trysend", 0)
           \/ (NS > 1 /\ \E s \in S : TrySendRace(s))
           \/ \E c \in {0, 1, 2} : NextC(c)
           \/ (\E c \in {1, 2} : Cancel(c)) \/ CloseR \/ \E e \in {0, 1} : CloseS(e)
Spec == Init /\ [][Next]_vars
View == <<sent, closedS, closedR, cancelled, len>>
LState == [s |-> [i \in S |-> sent[i]], cs |-> closedS, cr |-> closedR, c |-> cancelled, l |-> len]
Dump == PrintT(<<"LTS", ToJson([from |-> LState, op |-> op', to |-> LState'])>>)
LInit == Init /\ PrintT(<<"LTSINIT", ToJson([from |-> LState])>>)
LSpec == LInit /\ [][Next]_vars
=============================================================================
