SPECIFICATION LSpec
CONSTANTS
  Vals = {1,2}
  MaxLen = 2
  MaxCap = 20
  MinSize = 16
  WithIter = FALSE
  GenFix = TRUE
  GrowArgs = {1,3}
  ShrinkArgs <- ArgsM1to2
  IdxArgs <- ArgsM1to2
VIEW View
ACTION_CONSTRAINT Dump
