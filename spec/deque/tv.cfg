SPECIFICATION TSpec
CONSTANTS
  NIter = 3
  Vals = {}
  MaxLen = 0
  GrowArgs = {}
  ShrinkArgs = {}
  IdxArgs = {}
CONSTRAINT HWM
POSTCONDITION Accepted
CHECK_DEADLOCK FALSE
