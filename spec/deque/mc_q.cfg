SPECIFICATION Spec
CONSTANTS
  Vals = {1,2}
  MaxLen = 2
  MaxCap = 20
  MinSize = 16
  WithIter = TRUE
  GenFix = TRUE
  GrowArgs = {0,1,3}
  ShrinkArgs <- ArgsM1to2
  IdxArgs <- ArgsM1to2
VIEW View
INVARIANTS Refines LenOK InRange Retention
PROPERTY IterRefines
