----------------------------- MODULE SnapIter -----------------------------
(* C15, P-layer: what the property allows an iterator over a sequence container to return.
   An iterator state p is a record; q is the container's current contents (a sequence).
   cands: the snapshots the iterator may be iterating over. The snapshot is taken at Iterate() or,
   for an implementation that creates its cursor lazily, at the first Next ("once iteration is
   under way"); an in-place Set of a position is visible or not (both accepted).
   j = items yielded so far.
   started   : the first Next has returned (iteration is under way).
   touched   : the container was changed in any way since the snapshot (a panic is then allowed).
   structural: an element was added or removed once iteration was under way (only a panic is allowed).
   Results: values, PANIC = -1, END = -2. *)
EXTENDS Integers, Sequences, FiniteSets
PANIC == -1
END == -2
OK == -3
NoPit == [live |-> FALSE, j |-> 0, cands |-> {}, started |-> FALSE, touched |-> FALSE, structural |-> FALSE]
PitNew(q) == [live |-> TRUE, j |-> 0, cands |-> {q}, started |-> FALSE, touched |-> FALSE, structural |-> FALSE]
PCands(p, q) == IF p.started THEN p.cands ELSE p.cands \cup {q}
Allowed(p, q) ==
  IF p.structural THEN {PANIC}
  ELSE (IF p.touched THEN {PANIC} ELSE {})
       \cup {c[p.j + 1] : c \in {d \in PCands(p, q) : Len(d) > p.j}}
       \cup (IF \E c \in PCands(p, q) : Len(c) = p.j THEN {END} ELSE {})
\* effect of a mutation of the container on a live iterator
\* once only a panic is allowed the rest of the iterator state is irrelevant: normalise it
Doomed == [live |-> TRUE, j |-> 0, cands |-> {}, started |-> TRUE, touched |-> TRUE, structural |-> TRUE]
PitAddRemove(p) == IF p.live THEN (IF p.started THEN Doomed ELSE [p EXCEPT !.touched = TRUE]) ELSE p
PitTouch(p) == IF p.live THEN [p EXCEPT !.touched = TRUE] ELSE p
PitSet(p, i, v) == IF p.live /\ ~p.structural
                   THEN [p EXCEPT !.touched = TRUE, !.cands = @ \cup {[c EXCEPT ![i + 1] = v] : c \in {d \in p.cands : Len(d) > i}}]
                   ELSE p
\* effect of the iterator's own Next returning res (q = contents at that moment)
PitAfter(p, q, res) ==
  IF res = PANIC THEN NoPit
  ELSE IF res = END THEN [p EXCEPT !.started = TRUE, !.cands = {c \in PCands(p, q) : Len(c) = p.j}]
  ELSE [p EXCEPT !.started = TRUE, !.j = p.j + 1, !.cands = {c \in PCands(p, q) : Len(c) > p.j /\ c[p.j + 1] = res}]
=============================================================================
