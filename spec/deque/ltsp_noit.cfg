SPECIFICATION LSpec
CONSTANTS
  NIter = 0
  Vals = {1,2}
  MaxLen = 4
  GrowArgs = {1,3}
  ShrinkArgs <- ArgsM1to2
  IdxArgs <- ArgsM1to3
VIEW View
ACTION_CONSTRAINT Dump
