------------------------------ MODULE DequeP ------------------------------
(* P-layer of container/deque (C04 + C15): the ideal double-ended sequence q, NIter iterator slots
   judged by SnapIter. Every action takes the call's result as a parameter and is enabled exactly
   for the results the properties allow, so the same actions generate the transition system that
   is replayed on the code and validate traces recorded from the code. *)
EXTENDS Integers, Sequences, FiniteSets, TLC, Json, SnapIter
CONSTANTS NIter, Vals, MaxLen, GrowArgs, ShrinkArgs, IdxArgs
ArgsM1to2 == {-1, 0, 1, 2}
ArgsM1to3 == {-1, 0, 1, 2, 3}
VARIABLES q, pits, op
pvars == <<q, pits>>
Iters == 1..NIter
All(F(_)) == [i \in Iters |-> F(pits[i])]
Unch == UNCHANGED <<q, pits>>
PInit == q = <<>> /\ pits = [i \in Iters |-> NoPit]

PushFront(v, r) == r = OK /\ q' = <<v>> \o q /\ pits' = All(PitAddRemove)
PushBack(v, r) == r = OK /\ q' = Append(q, v) /\ pits' = All(PitAddRemove)
PopFront(r) == IF q = <<>> THEN r = PANIC /\ Unch
               ELSE r = Head(q) /\ q' = Tail(q) /\ pits' = All(PitAddRemove)
PopBack(r) == IF q = <<>> THEN r = PANIC /\ Unch
              ELSE r = q[Len(q)] /\ q' = SubSeq(q, 1, Len(q) - 1) /\ pits' = All(PitAddRemove)
Front(r) == r = (IF q = <<>> THEN PANIC ELSE Head(q)) /\ Unch
Back(r) == r = (IF q = <<>> THEN PANIC ELSE q[Len(q)]) /\ Unch
LenOp(r) == r = Len(q) /\ Unch
Item(i, r) == r = (IF i < 0 \/ i >= Len(q) THEN PANIC ELSE q[i + 1]) /\ Unch
SetOp(i, v, r) == IF i < 0 \/ i >= Len(q) THEN r = PANIC /\ Unch
                  ELSE r = OK /\ q' = [q EXCEPT ![i + 1] = v] /\ pits' = [k \in Iters |-> PitSet(pits[k], i, v)]
Grow(n, r) == r = OK /\ q' = q /\ pits' = All(PitTouch)
Shrink(n, r) == IF n < 0 THEN r = PANIC /\ Unch ELSE r = OK /\ q' = q /\ pits' = All(PitTouch)
Iterate(k, r) == r = OK /\ q' = q /\ pits' = [pits EXCEPT ![k] = PitNew(q)]
IterNext(k, r) == /\ pits[k].live /\ r \in Allowed(pits[k], q)
                  /\ q' = q /\ pits' = [pits EXCEPT ![k] = PitAfter(pits[k], q, r)]

\* ---- generative form (bounded) for the LTS
R(name, args, res) == op' = [name |-> name, args |-> args, res |-> res]
Results == Vals \cup {PANIC, END, OK} \cup 0..MaxLen
Init == PInit /\ op = [name |-> "init", args |-> <<>>, res |-> OK]
Next == \E r \in Results :
   \/ (\E v \in Vals : Len(q) < MaxLen /\ ((PushFront(v, r) /\ R("PushFront", <<v>>, r)) \/ (PushBack(v, r) /\ R("PushBack", <<v>>, r))))
   \/ (PopFront(r) /\ R("PopFront", <<>>, r)) \/ (PopBack(r) /\ R("PopBack", <<>>, r))
   \/ (Front(r) /\ R("Front", <<>>, r)) \/ (Back(r) /\ R("Back", <<>>, r)) \/ (LenOp(r) /\ R("Len", <<>>, r))
   \/ (\E i \in IdxArgs : Item(i, r) /\ R("Item", <<i>>, r))
   \/ (\E i \in IdxArgs, v \in Vals : SetOp(i, v, r) /\ R("Set", <<i, v>>, r))
   \/ (\E n \in GrowArgs : Grow(n, r) /\ R("Grow", <<n>>, r))
   \/ (\E n \in ShrinkArgs : Shrink(n, r) /\ R("Shrink", <<n>>, r))
   \/ (\E k \in Iters : (Iterate(k, r) /\ R("Iterate", <<k>>, r)) \/ (IterNext(k, r) /\ R("IterNext", <<k>>, r)))
vars == <<q, pits, op>>
Spec == Init /\ [][Next]_vars
View == <<q, pits>>
LState == [q |-> q, pits |-> pits]
LObs == [q |-> q, len |-> Len(q), garbage |-> 0]
Dump == PrintT(<<"LTS", ToJson([from |-> LState, op |-> op', to |-> LState', obs |-> LObs'])>>)
LInit == Init /\ PrintT(<<"LTSINIT", ToJson([from |-> LState, obs |-> LObs])>>)
LSpec == LInit /\ [][Next]_vars
===========================================================================
