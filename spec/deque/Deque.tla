------------------------------ MODULE Deque ------------------------------
(* container/deque.Deque (C04) and its iterator (C15).
   P-layer : q = the ideal double-ended sequence; pit = what the property lets an iterator do.
   I-layer : the ring buffer of deque.go (buf, isNil, front, back, gen) and the raw-index iterator,
             one action per method, written like the code.
   Results are integers: values are >= 1, Zero = 0 is the element type's zero value,
   PANIC = -1, END = -2, OK = -3 (methods without a result).
   gen is abstracted to "bumped since the live iterator was created" (it only ever grows and is only
   compared for equality). *)
EXTENDS Integers, Sequences, FiniteSets, TLC, Json, SnapIter
CONSTANTS Vals,      \* element values (>= 1)
          MaxLen,    \* bound on Len(q) for model checking
          MaxCap,    \* bound on the capacity reached through Grow
          MinSize,   \* deque.go: minSize = 16
          GrowArgs, ShrinkArgs, IdxArgs,
          WithIter,  \* FALSE: no iterator actions (smaller graphs for the C04 replay)
          GenFix     \* TRUE: resize and pop-to-empty bump gen (the repaired code); FALSE: the pinned code (finding F9)
Zero == 0
\* argument sets for the cfg files (cfg syntax has no negative numbers)
ArgsM1to2 == {-1, 0, 1, 2}
ArgsM1to3 == {-1, 0, 1, 2, 3}
ArgsM1to4 == {-1, 0, 1, 2, 3, 4}
VARIABLES q, pit,                         \* P-layer
          buf, isNil, front, back, gen,   \* I-layer container
          iit,                            \* I-layer iterator [i, done]
          op                              \* last call, output only
ivars == <<buf, isNil, front, back, gen>>
vars == <<q, pit, buf, isNil, front, back, gen, iit, op>>

\* ---------------------------------------------------------------- I-layer helpers
Cap == Len(buf)
LenI == IF isNil \/ back = -1 THEN 0
        ELSE IF front <= back THEN back - front + 1 ELSE Cap - front + back + 1
At(i) == buf[i + 1]                                  \* 0-based slot
Live == IF LenI = 0 THEN <<>> ELSE [k \in 1..LenI |-> At((front + k - 1) % Cap)]
PMod(a, d) == ((a % d) + d) % d
Max(a, b) == IF a > b THEN a ELSE b
Resized(n) == LET old == Live IN
  [buf |-> [k \in 1..n |-> IF k <= Len(old) THEN old[k] ELSE Zero], front |-> 0, back |-> Len(old) - 1]
Expanded == IF LenI = Cap THEN Resized(Max(MinSize, Cap * 2)) @@ [grew |-> TRUE]
            ELSE [buf |-> buf, front |-> front, back |-> back, grew |-> FALSE]
R(name, args, res, alt) == op' = [name |-> name, args |-> args, res |-> res, alt |-> alt]
Same == UNCHANGED <<q, pit, buf, isNil, front, back, gen, iit>>

Init == /\ q = <<>> /\ pit = NoPit
        /\ buf = <<>> /\ isNil = TRUE /\ front = 0 /\ back = 0 /\ gen = FALSE
        /\ iit = [i |-> 0, done |-> FALSE]
        /\ op = [name |-> "init", args |-> <<>>, res |-> OK, alt |-> <<>>]

PushFront(v) ==
  /\ Len(q) < MaxLen
  /\ LET e == Expanded  nf == PMod(e.front - 1, Len(e.buf)) IN
     /\ buf' = [e.buf EXCEPT ![nf + 1] = v] /\ front' = nf /\ back' = (IF e.back = -1 THEN nf ELSE e.back)
     /\ isNil' = FALSE /\ gen' = TRUE
  /\ q' = <<v>> \o q /\ pit' = PitAddRemove(pit) /\ R("PushFront", <<v>>, OK, <<>>) /\ UNCHANGED iit
PushBack(v) ==
  /\ Len(q) < MaxLen
  /\ LET e == Expanded  nb == IF e.back = -1 THEN e.front ELSE (e.back + 1) % Len(e.buf) IN
     /\ buf' = [e.buf EXCEPT ![nb + 1] = v] /\ back' = nb /\ front' = e.front
     /\ isNil' = FALSE /\ gen' = TRUE
  /\ q' = Append(q, v) /\ pit' = PitAddRemove(pit) /\ R("PushBack", <<v>>, OK, <<>>) /\ UNCHANGED iit
PopFront ==
  IF LenI = 0 THEN R("PopFront", <<>>, PANIC, <<>>) /\ Same
  ELSE /\ R("PopFront", <<>>, At(front), <<>>) /\ q' = Tail(q) /\ pit' = PitAddRemove(pit)
       /\ buf' = [buf EXCEPT ![front + 1] = Zero] /\ UNCHANGED <<isNil, iit>>
       /\ IF LenI = 1 THEN front' = 0 /\ back' = -1 /\ gen' = (gen \/ GenFix)
          ELSE front' = (front + 1) % Cap /\ gen' = TRUE /\ UNCHANGED back
PopBack ==
  IF LenI = 0 THEN R("PopBack", <<>>, PANIC, <<>>) /\ Same
  ELSE /\ R("PopBack", <<>>, At(back), <<>>) /\ q' = SubSeq(q, 1, Len(q) - 1) /\ pit' = PitAddRemove(pit)
       /\ buf' = [buf EXCEPT ![back + 1] = Zero] /\ UNCHANGED <<isNil, iit>>
       /\ IF LenI = 1 THEN front' = 0 /\ back' = -1 /\ gen' = (gen \/ GenFix)
          ELSE back' = PMod(back - 1, Cap) /\ gen' = TRUE /\ UNCHANGED front
FrontOp == R("Front", <<>>, IF LenI = 0 THEN PANIC ELSE At(front), <<>>) /\ Same
BackOp == R("Back", <<>>, IF LenI = 0 THEN PANIC ELSE At(back), <<>>) /\ Same
LenOp == R("Len", <<>>, LenI, <<>>) /\ Same
Item(i) == R("Item", <<i>>, IF i < 0 \/ i >= LenI THEN PANIC ELSE At((front + i) % Cap), <<>>) /\ Same
SetOp(i, v) ==
  IF i < 0 \/ i >= LenI THEN R("Set", <<i, v>>, PANIC, <<>>) /\ Same
  ELSE /\ buf' = [buf EXCEPT ![((front + i) % Cap) + 1] = v] /\ q' = [q EXCEPT ![i + 1] = v]
       /\ pit' = PitSet(pit, i, v)
       /\ R("Set", <<i, v>>, OK, <<>>) /\ UNCHANGED <<isNil, front, back, gen, iit>>
ApplyResize(n) == LET r == Resized(n) IN buf' = r.buf /\ front' = r.front /\ back' = r.back /\ isNil' = FALSE
Grow(n) ==
  /\ Cap + n <= MaxCap
  /\ IF Cap - LenI < n THEN ApplyResize(Cap + n) /\ gen' = (gen \/ GenFix)
     ELSE UNCHANGED <<buf, isNil, front, back, gen>>
  /\ pit' = PitTouch(pit)      \* P-layer: any Grow/Shrink call counts as a change (a panic is tolerated afterwards)
  /\ R("Grow", <<n>>, OK, <<>>) /\ UNCHANGED <<q, iit>>
Shrink(n) ==
  IF n < 0 THEN R("Shrink", <<n>>, PANIC, <<>>) /\ Same
  ELSE /\ IF Cap - LenI > n THEN ApplyResize(LenI + n) /\ gen' = (gen \/ GenFix)
          ELSE UNCHANGED <<buf, isNil, front, back, gen>>
       /\ pit' = PitTouch(pit)
       /\ R("Shrink", <<n>>, OK, <<>>) /\ UNCHANGED <<q, iit>>
\* one live iterator at a time (Iterate discards the previous one)
Iterate ==
  /\ pit' = PitNew(q)
  /\ iit' = [i |-> front, done |-> FALSE] /\ gen' = FALSE
  /\ R("Iterate", <<>>, OK, <<>>) /\ UNCHANGED <<q, buf, isNil, front, back>>
\* dequeIterator.Next as written; an index outside the buffer is Go's index-out-of-range panic
IRes == IF gen THEN PANIC
        ELSE IF LenI = 0 \/ iit.done THEN END
        ELSE IF iit.i >= Cap THEN PANIC
        ELSE At(iit.i)
SetSeq(S) == LET RECURSIVE F(_) F(T) == IF T = {} THEN <<>> ELSE LET m == CHOOSE x \in T : \A y \in T : x <= y IN <<m>> \o F(T \ {m}) IN F(S)
IterNext ==
  /\ pit.live
  /\ LET res == IRes IN
     /\ R("IterNext", <<>>, res, SetSeq(Allowed(pit, q) \ {res}))
     /\ pit' = PitAfter(pit, q, res)
     /\ iit' = IF res \in {PANIC, END} THEN iit
               ELSE [i |-> (iit.i + 1) % Cap, done |-> (iit.i = back)]
  /\ UNCHANGED <<q, buf, isNil, front, back, gen>>

Next == \/ (\E v \in Vals : PushFront(v) \/ PushBack(v))
        \/ PopFront \/ PopBack \/ FrontOp \/ BackOp \/ LenOp
        \/ (\E i \in IdxArgs : Item(i))
        \/ (\E i \in IdxArgs, v \in Vals : SetOp(i, v))
        \/ (\E n \in GrowArgs : Grow(n)) \/ (\E n \in ShrinkArgs : Shrink(n))
        \/ (WithIter /\ (Iterate \/ IterNext))
Spec == Init /\ [][Next]_vars

\* ---------------------------------------------------------------- what TLC checks (D)
Refines == Live = q                                     \* the ring denotes the ideal sequence
LenOK == LenI = Len(q)
InRange == isNil \/ (front \in 0..(Cap - 1) /\ back \in -1..(Cap - 1)) \/ (Cap = 0 /\ front = 0 /\ back = -1)
\* popped elements are not retained: every slot outside the live range holds the zero value
LiveSlots == IF LenI = 0 THEN {} ELSE {(front + d) % Cap : d \in 0..(LenI - 1)}
Retention == \A k \in 0..(Cap - 1) : k \notin LiveSlots => At(k) = Zero
\* the code's iterator does only what the property allows (C15)
IterRefines == [][IterNext => IRes \in Allowed(pit, q)]_vars

\* ---------------------------------------------------------------- LTS export
View == <<q, pit, buf, isNil, front, back, gen, iit>>
LState == [q |-> q, cap |-> Cap, nil |-> isNil, front |-> front, back |-> back, gen |-> gen, buf |-> buf, pit |-> pit, iit |-> iit]
\* P-observation (verdicts) and I-observation (model drift only)
LObs == [q |-> q, len |-> Len(q), garbage |-> 0]
IObs == [cap |-> Cap, front |-> front, back |-> back]
Dump == PrintT(<<"LTS", ToJson([from |-> LState, op |-> op', to |-> LState', obs |-> LObs', iobs |-> IObs'])>>)
LInit == Init /\ PrintT(<<"LTSINIT", ToJson([from |-> LState, obs |-> LObs])>>)
LSpec == LInit /\ [][Next]_vars
===========================================================================
