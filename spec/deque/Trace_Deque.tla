---------------------------- MODULE Trace_Deque ----------------------------
(* Trace validation of container/deque against the P-layer (DequeP): every recorded call with its
   result must be a DequeP step, and the full observation made after it (contents through
   Item/Len, retained-garbage count through the read-only hook) must match. *)
EXTENDS DequeP
VARIABLE l
Trace == ndJsonDeserialize("trace.ndjson")
Ev == Trace[l]
tvars == <<q, pits, op, l>>
TInit == PInit /\ op = 0 /\ l = 1 /\ TLCSet(1, 0)
A1 == Ev.args[1]
A2 == Ev.args[2]
Reset == Ev.op = "Reset" /\ q' = <<>> /\ pits' = [i \in Iters |-> NoPit]
Call ==
  \/ Ev.op = "PushFront" /\ PushFront(A1, Ev.res)
  \/ Ev.op = "PushBack" /\ PushBack(A1, Ev.res)
  \/ Ev.op = "PopFront" /\ PopFront(Ev.res)
  \/ Ev.op = "PopBack" /\ PopBack(Ev.res)
  \/ Ev.op = "Front" /\ Front(Ev.res)
  \/ Ev.op = "Back" /\ Back(Ev.res)
  \/ Ev.op = "Len" /\ LenOp(Ev.res)
  \/ Ev.op = "Item" /\ Item(A1, Ev.res)
  \/ Ev.op = "Set" /\ SetOp(A1, A2, Ev.res)
  \/ Ev.op = "Grow" /\ Grow(A1, Ev.res)
  \/ Ev.op = "Shrink" /\ Shrink(A1, Ev.res)
  \/ Ev.op = "Iterate" /\ Iterate(Ev.it, Ev.res)
  \/ Ev.op = "IterNext" /\ IterNext(Ev.it, Ev.res)
ObsOK == Ev.obs.q = q' /\ Ev.obs.len = Len(q') /\ Ev.obs.garbage = 0
TNext == /\ l <= Len(Trace) /\ l' = l + 1 /\ op' = op
         /\ (Reset \/ (Call /\ ObsOK))
TSpec == TInit /\ [][TNext]_tvars
HWM == TLCSet(1, IF TLCGet(1) < l THEN l ELSE TLCGet(1))
Accepted == PrintT(<<"HWM", TLCGet(1)>>) /\ TLCGet(1) = Len(Trace) + 1
=============================================================================
