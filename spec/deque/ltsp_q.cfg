SPECIFICATION LSpec
CONSTANTS
  NIter = 1
  Vals = {1,2}
  MaxLen = 3
  GrowArgs = {1,3}
  ShrinkArgs = {0,1}
  IdxArgs = {0,1}
VIEW View
ACTION_CONSTRAINT Dump
