SPECIFICATION LSpec
CONSTANTS
  Vals = {1,2}
  MaxLen = 3
  MaxCap = 20
  MinSize = 16
  WithIter = FALSE
  GenFix = TRUE
  GrowArgs = {1,3}
  ShrinkArgs <- ArgsM1to3
  IdxArgs <- ArgsM1to3
VIEW View
ACTION_CONSTRAINT Dump
