SPECIFICATION Spec
CONSTANTS
  NItems = 3
  SrcEnd = "End"
  BatchSize = 2
  MaxWait = 2
  MaxT = 5
  NCalls = 3
  ProducerSelectsOnCtx = TRUE
  StopTimerOnWaitingFlush = TRUE
INVARIANTS NonEmpty SizeOK PrefixOK UnderfullOnlyAfterWait NotHeldBack AllDelivered CloseNotStuck
CHECK_DEADLOCK FALSE
