SPECIFICATION LSpec
CONSTANTS
  MaxLen = 9
  MaxItems = 5
  Advs = {4, 10, 11}
  WithHold = FALSE
VIEW View
ACTION_CONSTRAINT Dump
CHECK_DEADLOCK FALSE
