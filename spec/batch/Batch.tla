---- MODULE Batch ----
\* I-layer of stream.BatchFunc (C11): producer, batcher (select loop, timer, waitingAtEmpty, flush), consumer calls,
\* Close, a discrete clock. ProducerSelectsOnCtx / StopTimerOnWaitingFlush = TRUE model the repaired code (F8, F17).
EXTENDS Integers, Sequences, FiniteSets, TLC
CONSTANTS NItems,
          SrcEnd,     \* "End" or "Err"
          BatchSize, MaxWait, MaxT, NCalls, ProducerSelectsOnCtx, StopTimerOnWaitingFlush
Items == [i \in 1..NItems |-> i]
VARIABLES src, ppc, pitem, parr, outErr, cClosed,
          bpc, batch, arr, batchStart, timerArmed, timerAt, waitingAtEmpty, batchCClosed,
          cpc, ccalls, cctx, bg, now, out, closePc, srcClosed
vars == <<src, ppc, pitem, parr, outErr, cClosed, bpc, batch, arr, batchStart, timerArmed, timerAt,
          waitingAtEmpty, batchCClosed, cpc, ccalls, cctx, bg, now, out, closePc, srcClosed>>
\* out: sequence of records [items, kind, t, oldest]   kind in {"A","B","W","C"}
Init == /\ src = Items /\ ppc = "next" /\ pitem = 0 /\ parr = 0 /\ outErr = FALSE /\ cClosed = FALSE
        /\ bpc = "loop" /\ batch = <<>> /\ arr = <<>> /\ batchStart = 0 /\ timerArmed = FALSE /\ timerAt = 0
        /\ waitingAtEmpty = FALSE /\ batchCClosed = FALSE
        /\ cpc = "idle" /\ ccalls = 0 /\ cctx = TRUE /\ bg = FALSE /\ now = 0 /\ out = <<>>
        /\ closePc = "no" /\ srcClosed = FALSE

UNCH(vs) == UNCHANGED vs
----
\* Producer
PNextItem == /\ ppc = "next" /\ Len(src) > 0 /\ pitem' = Head(src) /\ src' = Tail(src) /\ parr' = now /\ ppc' = "send"
             /\ UNCH(<<outErr, cClosed, bpc, batch, arr, batchStart, timerArmed, timerAt, waitingAtEmpty, batchCClosed, cpc, ccalls, cctx, bg, now, out, closePc, srcClosed>>)
PNextEnd == /\ ppc = "next" /\ Len(src) = 0 /\ ppc' = "done" /\ cClosed' = TRUE /\ srcClosed' = TRUE
            /\ outErr' = (SrcEnd = "Err")
            /\ UNCH(<<src, pitem, parr, bpc, batch, arr, batchStart, timerArmed, timerAt, waitingAtEmpty, batchCClosed, cpc, ccalls, cctx, bg, now, out, closePc>>)
\* source honours bgCtx: Next returns Canceled -> break
PNextCancelled == /\ ppc = "next" /\ bg /\ ppc' = "done" /\ cClosed' = TRUE /\ srcClosed' = TRUE
            /\ UNCH(<<src, pitem, parr, outErr, bpc, batch, arr, batchStart, timerArmed, timerAt, waitingAtEmpty, batchCClosed, cpc, ccalls, cctx, bg, now, out, closePc>>)
\* (fixed variant only) producer gives up the send when bgCtx is done
PSendCancelled == /\ ProducerSelectsOnCtx /\ ppc = "send" /\ bg /\ ppc' = "done" /\ cClosed' = TRUE /\ srcClosed' = TRUE
            /\ UNCH(<<src, pitem, parr, outErr, bpc, batch, arr, batchStart, timerArmed, timerAt, waitingAtEmpty, batchCClosed, cpc, ccalls, cctx, bg, now, out, closePc>>)
----
\* Batcher helper: state after a successful flush of kind k handed to the consumer
Deliver(k) == /\ out' = Append(out, [items |-> batch, kind |-> k, t |-> now, oldest |-> IF arr = <<>> THEN -1 ELSE arr[1], srcOpen |-> ~cClosed])
              /\ batch' = <<>> /\ arr' = <<>> /\ waitingAtEmpty' = FALSE
\* c receive in main loop: item (rendez-vous with producer in "send")
BRecvItem == /\ bpc = "loop" /\ ppc = "send"
             /\ ppc' = "next"
             /\ LET nb == Append(batch, pitem) na == Append(arr, parr) IN
                IF Len(nb) >= BatchSize
                THEN /\ batch' = nb /\ arr' = na /\ timerArmed' = FALSE /\ bpc' = "flushA"   \* stopTimer(); flush()
                     /\ UNCH(<<batchStart, timerAt, waitingAtEmpty>>)
                ELSE /\ batch' = nb /\ arr' = na /\ bpc' = "loop"
                     /\ IF Len(nb) = 1
                        THEN /\ batchStart' = now
                             /\ IF waitingAtEmpty THEN timerArmed' = TRUE /\ timerAt' = now + MaxWait
                                ELSE UNCH(<<timerArmed, timerAt>>)
                        ELSE UNCH(<<batchStart, timerArmed, timerAt>>)
                     /\ UNCH(waitingAtEmpty)
             /\ UNCH(<<src, pitem, parr, outErr, cClosed, batchCClosed, cpc, ccalls, cctx, bg, now, out, closePc, srcClosed>>)
\* after flushA succeeded the code runs "if len(batch)==1" on the NEW empty batch: no-op.
BRecvClosed == /\ bpc = "loop" /\ cClosed /\ ppc = "done"
               /\ IF Len(batch) > 0 THEN bpc' = "flushC" ELSE (bpc' = "done" /\ TRUE)
               /\ batchCClosed' = (Len(batch) = 0)
               /\ UNCH(<<src, ppc, pitem, parr, outErr, cClosed, batch, arr, batchStart, timerArmed, timerAt, waitingAtEmpty, cpc, ccalls, cctx, bg, now, out, closePc, srcClosed>>)
BTimer == /\ bpc = "loop" /\ timerArmed /\ now >= timerAt /\ timerArmed' = FALSE /\ bpc' = "flushB"
          /\ UNCH(<<src, ppc, pitem, parr, outErr, cClosed, batch, arr, batchStart, timerAt, waitingAtEmpty, batchCClosed, cpc, ccalls, cctx, bg, now, out, closePc, srcClosed>>)
\* waiting rendez-vous: consumer in sel1, batcher in loop
BWaiting == /\ bpc = "loop" /\ cpc = "sel1" /\ cpc' = "sel2"
            /\ IF Len(batch) > 0
               THEN IF now - batchStart > MaxWait
                    THEN bpc' = "flushW" /\ timerArmed' = (IF StopTimerOnWaitingFlush THEN FALSE ELSE timerArmed) /\ UNCH(<<timerAt, waitingAtEmpty>>)
                    ELSE bpc' = "loop" /\ timerArmed' = TRUE /\ timerAt' = batchStart + MaxWait /\ UNCH(waitingAtEmpty)
               ELSE bpc' = "loop" /\ waitingAtEmpty' = TRUE /\ UNCH(<<timerArmed, timerAt>>)
            /\ UNCH(<<src, ppc, pitem, parr, outErr, cClosed, batch, arr, batchStart, batchCClosed, ccalls, cctx, bg, now, out, closePc, srcClosed>>)
InFlush == bpc \in {"flushA", "flushB", "flushW", "flushC"}
Kind == CASE bpc = "flushA" -> "A" [] bpc = "flushB" -> "B" [] bpc = "flushW" -> "W" [] OTHER -> "C"
\* flush: batchC rendez-vous with consumer in sel1 or sel2
BFlushDeliver == /\ InFlush /\ cpc \in {"sel1", "sel2"}
                 /\ Deliver(Kind)
                 /\ cpc' = "idle"
                 /\ IF bpc = "flushC" THEN bpc' = "done" /\ batchCClosed' = TRUE ELSE bpc' = "loop" /\ UNCH(batchCClosed)
                 /\ UNCH(<<src, ppc, pitem, parr, outErr, cClosed, batchStart, timerArmed, timerAt, ccalls, cctx, bg, now, closePc, srcClosed>>)
BFlushCancelled == /\ InFlush /\ bg /\ bpc' = "done" /\ batchCClosed' = TRUE
                   /\ UNCH(<<src, ppc, pitem, parr, outErr, cClosed, batch, arr, batchStart, timerArmed, timerAt, waitingAtEmpty, cpc, ccalls, cctx, bg, now, out, closePc, srcClosed>>)
----
\* Consumer
CStart == /\ cpc = "idle" /\ ccalls < NCalls /\ closePc = "no" /\ cpc' = "sel1" /\ ccalls' = ccalls + 1 /\ cctx' = TRUE
          /\ UNCH(<<src, ppc, pitem, parr, outErr, cClosed, bpc, batch, arr, batchStart, timerArmed, timerAt, waitingAtEmpty, batchCClosed, bg, now, out, closePc, srcClosed>>)
CCtxExpire == /\ cpc \in {"sel1", "sel2"} /\ cctx /\ cctx' = FALSE
          /\ UNCH(<<src, ppc, pitem, parr, outErr, cClosed, bpc, batch, arr, batchStart, timerArmed, timerAt, waitingAtEmpty, batchCClosed, cpc, ccalls, bg, now, out, closePc, srcClosed>>)
CCtxReturn == /\ cpc \in {"sel1", "sel2"} /\ ~cctx /\ cpc' = "idle"
          /\ UNCH(<<src, ppc, pitem, parr, outErr, cClosed, bpc, batch, arr, batchStart, timerArmed, timerAt, waitingAtEmpty, batchCClosed, ccalls, cctx, bg, now, out, closePc, srcClosed>>)
CEnd == /\ cpc \in {"sel1", "sel2"} /\ batchCClosed /\ cpc' = "idle" /\ ccalls' = NCalls   \* End/err seen: stop calling
          /\ UNCH(<<src, ppc, pitem, parr, outErr, cClosed, bpc, batch, arr, batchStart, timerArmed, timerAt, waitingAtEmpty, batchCClosed, cctx, bg, now, out, closePc, srcClosed>>)
\* Close (only when no Next in flight)
CloseCall == /\ closePc = "no" /\ cpc = "idle" /\ closePc' = "waiting" /\ bg' = TRUE
          /\ UNCH(<<src, ppc, pitem, parr, outErr, cClosed, bpc, batch, arr, batchStart, timerArmed, timerAt, waitingAtEmpty, batchCClosed, cpc, ccalls, cctx, now, out, srcClosed>>)
CloseRet == /\ closePc = "waiting" /\ ppc = "done" /\ bpc = "done" /\ closePc' = "returned"
          /\ UNCH(<<src, ppc, pitem, parr, outErr, cClosed, bpc, batch, arr, batchStart, timerArmed, timerAt, waitingAtEmpty, batchCClosed, cpc, ccalls, cctx, bg, now, out, srcClosed>>)
Tick == /\ now < MaxT /\ now' = now + 1
        /\ UNCH(<<src, ppc, pitem, parr, outErr, cClosed, bpc, batch, arr, batchStart, timerArmed, timerAt, waitingAtEmpty, batchCClosed, cpc, ccalls, cctx, bg, out, closePc, srcClosed>>)

Prog == PNextItem \/ PNextEnd \/ PNextCancelled \/ PSendCancelled \/ BRecvItem \/ BRecvClosed \/ BTimer \/ BWaiting
        \/ BFlushDeliver \/ BFlushCancelled \/ CCtxReturn \/ CEnd \/ CloseRet
Env == CStart \/ CCtxExpire \/ CloseCall \/ Tick
Next == Prog \/ Env
Spec == Init /\ [][Next]_vars /\ WF_vars(Prog)
----
Flat(seqs) == IF seqs = <<>> THEN <<>> ELSE LET F[i \in 0..Len(seqs)] == IF i = 0 THEN <<>> ELSE F[i-1] \o seqs[i].items IN F[Len(seqs)]
IsPrefix(a, b) == Len(a) <= Len(b) /\ a = SubSeq(b, 1, Len(a))
NonEmpty == \A i \in 1..Len(out) : Len(out[i].items) > 0
SizeOK == \A i \in 1..Len(out) : Len(out[i].items) <= BatchSize
PrefixOK == IsPrefix(Flat(out), Items)
UnderfullOnlyAfterWait == \A i \in 1..Len(out) :
    (Len(out[i].items) < BatchSize /\ out[i].srcOpen) => out[i].t - out[i].oldest >= MaxWait
\* a consumer is waiting, batch non-empty and old enough, and nothing in the system can move (except time)
HeldBack == /\ cpc = "sel2" /\ cctx /\ Len(batch) > 0 /\ now - arr[1] >= MaxWait /\ ~ENABLED Prog
NotHeldBack == ~HeldBack
CloseStuck == closePc = "waiting" /\ ~ENABLED Prog
CloseNotStuck == ~CloseStuck
AllDelivered == (batchCClosed /\ closePc = "no" /\ bpc = "done") => Flat(out) = Items
CloseReturns == (closePc = "waiting") ~> (closePc = "returned")
====
