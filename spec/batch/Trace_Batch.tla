---------------------------- MODULE Trace_Batch ----------------------------
(* C11: validation of stream.Batch / BatchFunc histories recorded in synctest bubbles (fake clock).
   Records: reset(size, maxwait); taken(v) = the instrumented source handed item v to the library at
   fake time t; srcend / srcerr = the source reported End / its error to the library; call/ret of the
   consumer's Next (res.k = "batch" with res.items, "end", "err" with res.e) and of Close;
   cancel(ctx); hold / unhold = the user's full() callback is being held by the harness (latency);
   q = every goroutine is durably blocked, with the calls that have not returned.
   The consumer's calls are sequential, so results are totally ordered: a deterministic monitor. *)
EXTENDS Integers, Sequences, FiniteSets, TLC, Json
Trace == ndJsonDeserialize("trace.ndjson")
VARIABLES size, maxwait, taken, tt, ndel, srcState, cancelled, pend, closed, held, srcClosed, l
\* taken: items handed to the library, tt: the times they entered a batch (hand-over, or later - see ret), ndel: number delivered in batches
\* srcState: 0 running, 1 ended, 2 failed, 3 failed with context.Canceled as its own error.  closed: 0 no, 1 Close called, 2 Close returned
vars == <<size, maxwait, taken, tt, ndel, srcState, cancelled, pend, closed, held, srcClosed, l>>
Ev == Trace[l]
Init == /\ size = 1 /\ maxwait = 0 /\ taken = <<>> /\ tt = <<>> /\ ndel = 0 /\ srcState = 0 /\ cancelled = {}
        /\ pend = <<>> /\ closed = 0 /\ held = FALSE /\ srcClosed = 0 /\ l = 1 /\ TLCSet(1, 0)
Ids == DOMAIN pend
Undelivered == Len(taken) - ndel
\* the next batch: does the pending batch hold a full batch / has its oldest item waited long enough at time now
FullReady == Undelivered >= size
Aged(now) == Undelivered > 0 /\ now - tt[ndel + 1] >= maxwait
Un(vs) == UNCHANGED vs
RetNext(res, now) ==
  \/ /\ res.k = "batch"
     /\ LET n == Len(res.items) IN
        /\ n >= 1 /\ n <= size /\ n <= Undelivered                         \* non-empty, at most batchSize
        /\ res.items = SubSeq(taken, ndel + 1, ndel + n)                    \* partition of the source, in order
        /\ (n < size /\ srcState = 0) => now - tt[ndel + 1] >= maxwait      \* under-full only after maxWait
        /\ (n < size /\ srcState # 0) => n = Undelivered \/ now - tt[ndel + 1] >= maxwait
        /\ ndel' = ndel + n
  \/ /\ res.k = "end" /\ srcState = 1 /\ Undelivered = 0 /\ Un(ndel)        \* End only after everything
  \/ /\ res.k = "err" /\ res.e = "src" /\ srcState = 2 /\ Undelivered = 0 /\ Un(ndel)   \* the error after the items before it
  \/ /\ res.k = "err" /\ res.e = "ctx" /\ Un(ndel)
  \/ /\ res.k = "end" /\ closed >= 1 /\ Un(ndel)                            \* after the consumer's own Close anything goes
  \/ /\ res.k = "err" /\ closed >= 1 /\ Un(ndel)
Next ==
  /\ l <= Len(Trace) /\ l' = l + 1
  /\ CASE Ev.ev = "reset" ->
            /\ size' = Ev.size /\ maxwait' = Ev.maxwait /\ taken' = <<>> /\ tt' = <<>> /\ ndel' = 0 /\ srcState' = 0
            /\ cancelled' = {} /\ pend' = <<>> /\ closed' = 0 /\ held' = FALSE /\ srcClosed' = 0
       [] Ev.ev = "taken" -> taken' = Append(taken, Ev.v) /\ tt' = Append(tt, Ev.t)
                             /\ Un(<<size, maxwait, ndel, srcState, cancelled, pend, closed, held, srcClosed>>)
       [] Ev.ev = "srcend" -> srcState' = 1 /\ Un(<<size, maxwait, taken, tt, ndel, cancelled, pend, closed, held, srcClosed>>)
       [] Ev.ev = "srcerr" -> srcState' = (IF Ev.c = 1 THEN 3 ELSE 2) /\ Un(<<size, maxwait, taken, tt, ndel, cancelled, pend, closed, held, srcClosed>>)
       [] Ev.ev = "srcclose" -> srcClosed' = srcClosed + 1 /\ Un(<<size, maxwait, taken, tt, ndel, srcState, cancelled, pend, closed, held>>)
       [] Ev.ev = "srcviol" -> FALSE        \* the instrumented source saw Next after Close / a second Close / overlapping calls (C09)
       [] Ev.ev = "cancel" -> cancelled' = cancelled \cup {Ev.ctx} /\ Un(<<size, maxwait, taken, tt, ndel, srcState, pend, closed, held, srcClosed>>)
       [] Ev.ev \in {"adv", "item", "leak"} -> Un(<<size, maxwait, taken, tt, ndel, srcState, cancelled, pend, closed, held, srcClosed>>)
       [] Ev.ev = "hold" -> held' = TRUE /\ Un(<<size, maxwait, taken, tt, ndel, srcState, cancelled, pend, closed, srcClosed>>)
       [] Ev.ev = "unhold" -> held' = FALSE /\ Un(<<size, maxwait, taken, tt, ndel, srcState, cancelled, pend, closed, srcClosed>>)
       [] Ev.ev = "call" ->
            /\ pend' = [i \in Ids \cup {Ev.id} |-> IF i = Ev.id THEN [op |-> Ev.op, ctx |-> Ev.ctx] ELSE pend[i]]
            /\ closed' = (IF Ev.op = "Close" THEN 1 ELSE closed)
            /\ Un(<<size, maxwait, taken, tt, ndel, srcState, cancelled, held, srcClosed>>)
       [] Ev.ev = "ret" ->
            /\ Ev.id \in Ids /\ pend' = [i \in Ids \ {Ev.id} |-> pend[i]]
            /\ IF Ev.op = "Next"
               THEN /\ RetNext(Ev.res, Ev.t)
                    \* a context error: the call's own context, or the source's own error is context.Canceled (after the items before it)
                    /\ (Ev.res.k = "err" /\ Ev.res.e = "ctx" /\ closed = 0) => (pend[Ev.id].ctx \in cancelled \/ (srcState = 3 /\ Undelivered = 0))
                    /\ Un(closed)
               ELSE /\ closed' = 2 /\ srcClosed = 1 /\ Un(ndel)       \* Close returned: the source has been closed exactly once
            \* "has been in the batch": an item that was taken from the source while the previous batch was still waiting for a
            \* consumer (the producer is one item ahead) enters the next batch when that batch is handed out, not before
            /\ tt' = IF Ev.op = "Next" /\ Ev.res.k = "batch"
                      THEN [i \in DOMAIN tt |-> IF i > ndel + Len(Ev.res.items) /\ tt[i] < Ev.t THEN Ev.t ELSE tt[i]]
                      ELSE tt
            /\ Un(<<size, maxwait, taken, srcState, cancelled, held, srcClosed>>)
       [] Ev.ev = "q" ->          \* nothing can move: a pending call must be one the property lets wait
            /\ \A i \in Ids :
                 IF pend[i].op = "Close" THEN held                       \* Close always returns - once a held full() callback does
                 ELSE \/ closed >= 1 \/ held
                      \/ /\ pend[i].ctx \notin cancelled
                         /\ ~FullReady                                    \* a full batch is handed to a waiting consumer
                         /\ ~Aged(Ev.t)                                   \* ... and so is an aged one (not held back)
                         /\ ~(srcState # 0 /\ Undelivered > 0)            \* ... and the rest once the source is finished
                         /\ ~(srcState # 0 /\ Undelivered = 0)            \* ... and then the End / the error
            /\ (closed = 2 => srcClosed = 1)
            /\ Un(<<size, maxwait, taken, tt, ndel, srcState, cancelled, pend, closed, held, srcClosed>>)
Spec == Init /\ [][Next]_vars
HWM == TLCSet(1, IF TLCGet(1) < l THEN l ELSE TLCGet(1))
Accepted == PrintT(<<"HWM", TLCGet(1)>>) /\ TLCGet(1) = Len(Trace) + 1
=============================================================================
