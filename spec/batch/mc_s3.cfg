SPECIFICATION Spec
CONSTANTS
  NItems = 4
  SrcEnd = "End"
  BatchSize = 3
  MaxWait = 2
  MaxT = 5
  NCalls = 3
  ProducerSelectsOnCtx = TRUE
  StopTimerOnWaitingFlush = TRUE
INVARIANTS NonEmpty SizeOK PrefixOK UnderfullOnlyAfterWait NotHeldBack AllDelivered CloseNotStuck
CHECK_DEADLOCK FALSE
