SPECIFICATION LSpec
CONSTANTS
  MaxLen = 7
  MaxItems = 4
  Advs = {4, 10, 11}
  WithHold = FALSE
VIEW View
ACTION_CONSTRAINT Dump
CHECK_DEADLOCK FALSE
