------------------------------ MODULE BatchEnv ------------------------------
(* The environment of stream.Batch / BatchFunc as the bubble harness drives it (C08, C09, C11): the source hands over
   the next item, ends, fails (own error or context.Canceled as its own error); the consumer calls Next with a live
   context (0) or with context 1; context 1 is cancelled; fake time advances by D (a fraction of maxWait, exactly
   maxWait, just beyond); the user's full() callback is held / released (BatchFunc runs only); Close ends the run.
   batchSize, maxWait and Batch-vs-BatchFunc are headers of the run. Every behaviour up to MaxLen steps is a schedule. *)
EXTENDS Integers, Sequences, FiniteSets, TLC, Json
CONSTANTS MaxLen, MaxItems, Advs, WithHold
VARIABLES items, fin, cancelled, held, closed, len, op
vars == <<items, fin, cancelled, held, closed, len, op>>
RQ(a, v, c, d, q, y) == op' = [a |-> a, v |-> v, ctx |-> c, d |-> d, noq |-> q, y |-> y] /\ len' = len + 1
R(a, v, c, d) == RQ(a, v, c, d, FALSE, 0)
Init == items = 0 /\ fin = FALSE /\ cancelled = FALSE /\ held = FALSE /\ closed = FALSE /\ len = 0 /\ op = [a |-> "init", v |-> 0, ctx |-> 0, d |-> 0, noq |-> FALSE, y |-> 0]
Item == ~fin /\ items < MaxItems /\ items' = items + 1 /\ UNCHANGED <<fin, cancelled, held, closed>> /\ R("item", items + 1, 0, 0)
\* the item is handed over and the harness goes on at once: the next step (a cancellation, a Next, Close ...) races with the
\* hand-over of a batch that this item completes (y: how often the driver gives up the processor first)
ItemRace == ~fin /\ items < MaxItems /\ items' = items + 1 /\ UNCHANGED <<fin, cancelled, held, closed>> /\ \E y \in {2, 5} : RQ("item", items + 1, 0, 0, TRUE, y)
Finish == ~fin /\ fin' = TRUE /\ UNCHANGED <<items, cancelled, held, closed>> /\ \E a \in {"end", "srcerr", "srccanc"} : R(a, 0, 0, 0)
NextC(c) == UNCHANGED <<items, fin, cancelled, held, closed>> /\ R("next", 0, c, 0)
Cancel == ~cancelled /\ cancelled' = TRUE /\ UNCHANGED <<items, fin, held, closed>> /\ R("cancel", 0, 1, 0)
Adv(d) == UNCHANGED <<items, fin, cancelled, held, closed>> /\ R("adv", 0, 0, d)
Hold == WithHold /\ held' = ~held /\ UNCHANGED <<items, fin, cancelled, closed>> /\ R(IF held THEN "unhold" ELSE "hold", 0, 0, 0)
Close == closed' = TRUE /\ UNCHANGED <<items, fin, cancelled, held>> /\ R("close", 0, 0, 0)
Next == /\ len < MaxLen /\ ~closed
        /\ (Item \/ ItemRace \/ Finish \/ (\E c \in {0, 1} : NextC(c)) \/ Cancel \/ (\E d \in Advs : Adv(d)) \/ Hold \/ Close)
Spec == Init /\ [][Next]_vars
View == <<items, fin, cancelled, held, closed, len>>
LState == [n |-> items, f |-> fin, c |-> cancelled, h |-> held, cl |-> closed, l |-> len]
Dump == PrintT(<<"LTS", ToJson([from |-> LState, op |-> op', to |-> LState'])>>)
LInit == Init /\ PrintT(<<"LTSINIT", ToJson([from |-> LState])>>)
LSpec == LInit /\ [][Next]_vars
=============================================================================
