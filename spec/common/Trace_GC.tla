------------------------------ MODULE Trace_GC ------------------------------
(* "No retained garbage", observed directly (vh gc): the container held pointers to payloads with finalizers; at every
   checkpoint the harness holds no reference to a payload that was deleted, overwritten or popped, so after a garbage
   collection every one of them must have been finalized: finalized = released. *)
EXTENDS Integers, Sequences, TLC, Json
Trace == ndJsonDeserialize("trace.ndjson")
VARIABLE l
Ev == Trace[l]
Init == l = 1 /\ TLCSet(1, 0)
Next == /\ l <= Len(Trace) /\ l' = l + 1
        /\ (Ev.op = "gccheck" => Ev.finalized = Ev.released)
Spec == Init /\ [][Next]_l
HWM == TLCSet(1, IF TLCGet(1) < l THEN l ELSE TLCGet(1))
Accepted == PrintT(<<"HWM", TLCGet(1)>>) /\ TLCGet(1) = Len(Trace) + 1
=============================================================================
