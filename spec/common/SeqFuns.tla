------------------------------ MODULE SeqFuns ------------------------------
(* The documented sequence function of every iterator / stream / xslices combinator and reducer
   (C07). items = sequence of input sequences (one per source; single-source combinators use
   items[1]). Outputs are sequences of lists: a scalar output x is the list <<x>>.
   pred[v] \in {0,1}: the keep / while predicate on value v.  key[v]: same(a,b) <=> key[a] = key[b]
   (the documentation requires same to be an equivalence). *)
EXTENDS Integers, Sequences, FiniteSets
Min(a, b) == IF a < b THEN a ELSE b
Max(a, b) == IF a > b THEN a ELSE b
Wrap(s) == [i \in 1..Len(s) |-> <<s[i]>>]
RECURSIVE Flat(_)
Flat(ss) == IF ss = <<>> THEN <<>> ELSE Head(ss) \o Flat(Tail(ss))
RECURSIVE ChunkF(_, _)
ChunkF(s, n) == IF s = <<>> THEN <<>> ELSE <<SubSeq(s, 1, Min(n, Len(s)))>> \o ChunkF(SubSeq(s, Min(n, Len(s)) + 1, Len(s)), n)
\* indices of the items Compact keeps: the first, and every item not "same" as its predecessor
CompactIdx(s, key) == {i \in 1..Len(s) : i = 1 \/ key[s[i]] # key[s[i - 1]]}
FilterIdx(s, pred) == {i \in 1..Len(s) : pred[s[i]] = 1}
SetSeq(S) == LET RECURSIVE F(_) F(T) == IF T = {} THEN <<>> ELSE LET m == CHOOSE x \in T : \A y \in T : x <= y IN <<m>> \o F(T \ {m}) IN F(S)
Pick(s, idx) == LET is == SetSeq(idx) IN [k \in 1..Len(is) |-> s[is[k]]]
FirstF(s, n) == SubSeq(s, 1, Min(Max(n, 0), Len(s)))
MapF(s) == [i \in 1..Len(s) |-> s[i] + 10]
\* length of the longest prefix on which pred holds
RECURSIVE WhileLen(_, _)
WhileLen(s, pred) == IF s = <<>> \/ pred[Head(s)] = 0 THEN 0 ELSE 1 + WhileLen(Tail(s), pred)
\* runs: maximal blocks of items with the same key; RunEnds = index of the last item of each run
RunEnds(s, key) == {i \in 1..Len(s) : i = Len(s) \/ key[s[i]] # key[s[i + 1]]}
RunsF(s, key) == LET e == SetSeq(RunEnds(s, key)) IN
                 [k \in 1..Len(e) |-> SubSeq(s, (IF k = 1 THEN 1 ELSE e[k - 1] + 1), e[k])]
LastF(s, n) == IF n <= 0 THEN <<>> ELSE SubSeq(s, Max(1, Len(s) - n + 1), Len(s))
Sum(s) == LET RECURSIVE F(_) F(t) == IF t = <<>> THEN 0 ELSE Head(t) + F(Tail(t)) IN F(s)
AllEqual(ss) == \A i, j \in 1..Len(ss) : ss[i] = ss[j]

\* ---- outputs of a combinator
Out(comb, items, n, pred, key) ==
  LET s == IF Len(items) >= 1 THEN items[1] ELSE <<>> IN
  CASE comb \in {"Id", "FromIterator", "WithPeek", "Chan"} -> Wrap(s)
    [] comb = "Counter" -> Wrap([i \in 1..Max(n, 0) |-> i - 1])
    [] comb = "Repeat" -> Wrap([i \in 1..Max(n, 0) |-> 2])
    [] comb = "Empty" -> <<>>
    [] comb = "Chunk" -> ChunkF(s, n)
    [] comb = "Compact" -> Wrap(Pick(s, CompactIdx(s, key)))
    [] comb = "CompactEq" -> Wrap(Pick(s, CompactIdx(s, [v \in 1..3 |-> v])))
    [] comb = "Filter" -> Wrap(Pick(s, FilterIdx(s, pred)))
    [] comb = "First" -> Wrap(FirstF(s, n))
    [] comb \in {"Flatten", "FlattenSlices", "Join", "JoinNested"} -> Wrap(Flat(items))
    [] comb = "Map" -> Wrap(MapF(s))
    [] comb \in {"Runs", "RunsStale"} -> RunsF(s, key)   \* RunsStale: handles of earlier runs are polled again and add nothing
    [] comb = "RunsHeads" -> LET rs == RunsF(s, key) IN [i \in 1..Len(rs) |-> <<rs[i][1]>>]
    [] comb = "While" -> Wrap(SubSeq(s, 1, WhileLen(s, pred)))
\* ---- value of a reducer (as a list)
Red(comb, items, n) ==
  LET s == IF Len(items) >= 1 THEN items[1] ELSE <<>> IN
  CASE comb = "Collect" -> s
    [] comb = "Last" -> LastF(s, n)
    [] comb = "Reduce" -> <<100 + Sum(s)>>
    [] comb = "Equal" -> <<IF AllEqual(items) THEN 1 ELSE 0>>
    [] comb = "One" -> IF Len(s) = 1 THEN s ELSE <<>>

\* ---- laziness: source items needed to determine the outcomes of the first c calls
\* (outcome c is output c if c <= number of outputs, else the end). End probes are not items.
NeedOut(comb, items, n, pred, key, j) ==
  LET s == IF Len(items) >= 1 THEN items[1] ELSE <<>> IN
  CASE comb = "Chunk" -> Min(j * n, Len(s))
    [] comb = "Compact" -> SetSeq(CompactIdx(s, key))[j]
    [] comb = "CompactEq" -> SetSeq(CompactIdx(s, [v \in 1..3 |-> v]))[j]
    [] comb = "Filter" -> SetSeq(FilterIdx(s, pred))[j]
    [] comb \in {"Runs", "RunsStale"} -> Min(Len(s), SetSeq(RunEnds(s, key))[j] + 1)
    [] comb = "RunsHeads" -> Min(Len(s), SetSeq(RunEnds(s, key))[j] + 1)
    [] OTHER -> j
NeedEnd(comb, items, n, pred, key) ==
  LET s == IF Len(items) >= 1 THEN items[1] ELSE <<>> IN
  CASE comb = "First" -> Min(Max(n, 0), Len(s))
    [] comb = "While" -> Min(Len(s), WhileLen(s, pred) + 1)
    [] OTHER -> Len(Flat(items))
=============================================================================
