SPECIFICATION Spec
CONSTRAINT HWM
POSTCONDITION Accepted
CHECK_DEADLOCK FALSE
