SPECIFICATION Spec
CONSTANTS
  MaxKVs = 3
  CKeys = {1,2,3,4,5,6}
  ZeroMerged = TRUE
  Dir = "fwd"
  LoT = "inc"
  LoK = 2
  HiT = "exc"
  HiK = 5
  MaxIds = 9
VIEW View
INVARIANTS NotBad SizeOK
CHECK_DEADLOCK FALSE
