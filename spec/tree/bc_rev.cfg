SPECIFICATION Spec
CONSTANTS
  MaxKVs = 3
  CKeys = {1,2,3,4,5,6}
  ZeroMerged = TRUE
  Dir = "rev"
  LoT = "unb"
  LoK = 2
  HiT = "unb"
  HiK = 5
  MaxIds = 9
VIEW View
INVARIANTS NotBad SizeOK
CHECK_DEADLOCK FALSE
