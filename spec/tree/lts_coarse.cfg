SPECIFICATION LSpec
CONSTANTS
  Keys = {1,2,3,4}
  Cls <- Coarse4
  Vals = {1,2}
  NIter = 0
  BoundPairs <- BP_None
VIEW View
ACTION_CONSTRAINT Dump
