SPECIFICATION Spec
CONSTANTS
  K = 5
  LoT = "unb"
  LoK = 2
  HiT = "exc"
  HiK = 4
  Dir = "rev"
INVARIANT NotBad
CHECK_DEADLOCK FALSE
