SPECIFICATION BSpec
CONSTANTS
  MaxKVs = 3
  BKeys = {1,2,3,4,5,6,7}
  BVals = {1,2}
VIEW BView
INVARIANTS Denotes Shape
PROPERTY PutOldKeepsShape
