SPECIFICATION LSpec
CONSTANTS
  Keys = {1,2,3,4}
  Cls <- Id4
  Vals = {1}
  NIter = 1
  BoundPairs <- BP_Some
VIEW View
ACTION_CONSTRAINT Dump
