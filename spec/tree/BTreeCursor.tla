------------------------------ MODULE BTreeCursor ------------------------------
(* I-layer of container/tree/btree.go with node identity (C02): the pointer structure
     nodes[id] = [n, keys, vals, ch (child ids), parent (0 = none)],  root, gen, size
   the mutating algorithms written like the code (overfill loop, removeRightmost, steal, merge cascade,
   "right.n = 0" on the merged-away node, root replacement) and the cursor (curr, i, k, gen) with lost(),
   seek / find, Next / Prev, refind, and the forward / backward iterators with their While cut-off.
   The P-layer is the 'fresh' rule of SortedMap.tla, re-stated on keys. TLC explores every interleaving of
   Put / Delete / iterator Next over a small fan-out - in particular the mutations that split, merge, rotate
   or unlink the very node the iterator is parked in, collapse the root, or empty the tree.
   ZeroMerged = FALSE models mergeTwo without "right.n = 0" (a seeded defect). *)
EXTENDS Integers, Sequences, FiniteSets, TLC
CONSTANTS MaxKVs, CKeys, ZeroMerged, Dir, LoT, LoK, HiT, HiK, MaxIds
MinKVs == MaxKVs \div 2
Nil == 0
VARIABLES H, cur, itst, pst
\* H: the tree [nodes, root, next, gen, size]; cur: the iterator's cursor [node, i, k, gen]; itst: [open, done (While cut-off)]
\* pst: P-layer [last, fresh, exhausted, bad]
vars == <<H, cur, itst, pst>>
InsAt(s, i, e) == SubSeq(s, 1, i - 1) \o <<e>> \o SubSeq(s, i, Len(s))
DelAt(s, i) == SubSeq(s, 1, i - 1) \o SubSeq(s, i + 1, Len(s))
IndexOf(s, e) == CHOOSE i \in 1..Len(s) : s[i] = e
Nd(h, x) == h.nodes[x]
Leaf(h, x) == Nd(h, x).ch = <<>>
NewNode == [n |-> 0, keys |-> <<>>, vals |-> <<>>, ch |-> <<>>, parent |-> Nil]
EmptyTree == [nodes |-> <<NewNode>>, root |-> 1, next |-> 2, gen |-> 0, size |-> 0]
SetN(h, x, nd) == [h EXCEPT !.nodes = (x :> nd) @@ h.nodes]
\* searchNode on the first n keys: [found, idx] (1-based)
Search(nd, k) == IF \E i \in 1..nd.n : nd.keys[i] = k THEN [found |-> TRUE, idx |-> CHOOSE i \in 1..nd.n : nd.keys[i] = k]
                 ELSE [found |-> FALSE, idx |-> Cardinality({i \in 1..nd.n : nd.keys[i] < k}) + 1]
RECURSIVE Leftmost(_, _)
Leftmost(h, x) == IF Leaf(h, x) THEN x ELSE Leftmost(h, Nd(h, x).ch[1])
RECURSIVE Rightmost(_, _)
Rightmost(h, x) == IF Leaf(h, x) THEN x ELSE Rightmost(h, Nd(h, x).ch[Nd(h, x).n + 1])
\* re-parent the children of x (after they were moved into it)
Adopt(h, x) == [h EXCEPT !.nodes = [y \in DOMAIN h.nodes |-> IF \E j \in 1..Len(Nd(h, x).ch) : Nd(h, x).ch[j] = y THEN [h.nodes[y] EXCEPT !.parent = x] ELSE h.nodes[y]]]
\* ---- Put
\* overfill(x, k, v, afterK): x is full; split into x (left) and a new right node; promote the median
RECURSIVE Overfill(_, _, _, _, _)
Overfill(h, x, k, v, afterK) ==
  LET nd == Nd(h, x)
      at == Cardinality({i \in 1..nd.n : nd.keys[i] < k}) + 1
      keys == InsAt(nd.keys, at, k)  vals == InsAt(nd.vals, at, v)
      ch == IF nd.ch = <<>> THEN <<>> ELSE InsAt(nd.ch, at + 1, afterK)
      med == Len(keys) \div 2
      r == h.next
      left == [nd EXCEPT !.n = med, !.keys = SubSeq(keys, 1, med), !.vals = SubSeq(vals, 1, med), !.ch = IF ch = <<>> THEN <<>> ELSE SubSeq(ch, 1, med + 1)]
      right == [n |-> Len(keys) - med - 1, keys |-> SubSeq(keys, med + 2, Len(keys)), vals |-> SubSeq(vals, med + 2, Len(vals)),
                ch |-> IF ch = <<>> THEN <<>> ELSE SubSeq(ch, med + 2, Len(ch)), parent |-> nd.parent]
      h1 == Adopt(Adopt([h EXCEPT !.nodes = (x :> left) @@ (r :> right) @@ h.nodes, !.next = r + 1], x), r)
      sepK == keys[med + 1]  sepV == vals[med + 1]
  IN IF x = h.root
     THEN LET p == h1.next IN
          [h1 EXCEPT !.nodes = (p :> [n |-> 1, keys |-> <<sepK>>, vals |-> <<sepV>>, ch |-> <<x, r>>, parent |-> Nil])
                               @@ (x :> [h1.nodes[x] EXCEPT !.parent = p]) @@ (r :> [h1.nodes[r] EXCEPT !.parent = p]) @@ h1.nodes,
                     !.root = p, !.next = p + 1]
     ELSE LET p == nd.parent  pn == Nd(h1, p) IN
          IF pn.n < MaxKVs
          THEN LET ip == IndexOf(pn.ch, x) IN
               SetN(h1, p, [pn EXCEPT !.n = @ + 1, !.keys = InsAt(pn.keys, ip, sepK), !.vals = InsAt(pn.vals, ip, sepV), !.ch = InsAt(pn.ch, ip + 1, r)])
          ELSE Overfill(h1, p, sepK, sepV, r)
RECURSIVE Descend(_, _, _)
Descend(h, x, k) == LET s == Search(Nd(h, x), k) IN
                    IF s.found THEN [x |-> x, idx |-> s.idx, found |-> TRUE]
                    ELSE IF Leaf(h, x) THEN [x |-> x, idx |-> s.idx, found |-> FALSE] ELSE Descend(h, Nd(h, x).ch[s.idx], k)
PutH(h, k, v) ==
  LET d == Descend(h, h.root, k) IN
  IF d.found THEN SetN(h, d.x, [Nd(h, d.x) EXCEPT !.vals[d.idx] = v])
  ELSE LET nd == Nd(h, d.x)
           h1 == IF nd.n < MaxKVs THEN SetN(h, d.x, [nd EXCEPT !.n = @ + 1, !.keys = InsAt(nd.keys, d.idx, k), !.vals = InsAt(nd.vals, d.idx, v)])
                 ELSE Overfill(h, d.x, k, v, Nil)
       IN [h1 EXCEPT !.gen = @ + 1, !.size = @ + 1]
\* ---- Delete
Sibs(h, x) == LET p == Nd(h, x).parent IN
              IF p = Nil THEN [l |-> Nil, r |-> Nil, ip |-> 0]
              ELSE LET ip == IndexOf(Nd(h, p).ch, x) IN
                   [l |-> IF ip > 1 THEN Nd(h, p).ch[ip - 1] ELSE Nil, r |-> IF ip <= Nd(h, p).n THEN Nd(h, p).ch[ip + 1] ELSE Nil, ip |-> ip]
RotLeft(h, l, r) ==       \* l gets the separator at its end, r's first key goes up
  LET p == Nd(h, r).parent  ip == IndexOf(Nd(h, p).ch, r)  pn == Nd(h, p)  ln == Nd(h, l)  rn == Nd(h, r)
      child == IF rn.ch = <<>> THEN Nil ELSE rn.ch[1]
      h1 == [h EXCEPT !.nodes = (p :> [pn EXCEPT !.keys[ip - 1] = rn.keys[1], !.vals[ip - 1] = rn.vals[1]])
                                 @@ (r :> [rn EXCEPT !.n = @ - 1, !.keys = Tail(@), !.vals = Tail(@), !.ch = IF @ = <<>> THEN <<>> ELSE Tail(@)])
                                 @@ (l :> [ln EXCEPT !.n = @ + 1, !.keys = Append(@, pn.keys[ip - 1]), !.vals = Append(@, pn.vals[ip - 1]),
                                                     !.ch = IF @ = <<>> THEN <<>> ELSE Append(@, child)])
                                 @@ h.nodes]
  IN IF child = Nil THEN h1 ELSE SetN(h1, child, [Nd(h1, child) EXCEPT !.parent = l])
RotRight(h, l, r) ==      \* r gets the separator in front, l's last key goes up
  LET p == Nd(h, l).parent  ip == IndexOf(Nd(h, p).ch, l)  pn == Nd(h, p)  ln == Nd(h, l)  rn == Nd(h, r)
      child == IF ln.ch = <<>> THEN Nil ELSE ln.ch[ln.n + 1]
      h1 == [h EXCEPT !.nodes = (p :> [pn EXCEPT !.keys[ip] = ln.keys[ln.n], !.vals[ip] = ln.vals[ln.n]])
                                 @@ (l :> [ln EXCEPT !.n = @ - 1, !.keys = SubSeq(@, 1, ln.n - 1), !.vals = SubSeq(@, 1, ln.n - 1),
                                                     !.ch = IF @ = <<>> THEN <<>> ELSE SubSeq(@, 1, ln.n)])
                                 @@ (r :> [rn EXCEPT !.n = @ + 1, !.keys = <<pn.keys[ip]>> \o @, !.vals = <<pn.vals[ip]>> \o @,
                                                     !.ch = IF @ = <<>> THEN <<>> ELSE <<child>> \o @])
                                 @@ h.nodes]
  IN IF child = Nil THEN h1 ELSE SetN(h1, child, [Nd(h1, child) EXCEPT !.parent = r])
\* steal: [ok, h]
Steal(h, x) == LET s == Sibs(h, x) IN
               IF s.r # Nil /\ Nd(h, s.r).n > MinKVs THEN [ok |-> TRUE, h |-> RotLeft(h, x, s.r)]
               ELSE IF s.l # Nil /\ Nd(h, s.l).n > MinKVs THEN [ok |-> TRUE, h |-> RotRight(h, s.l, x)]
               ELSE [ok |-> FALSE, h |-> h]
RECURSIVE Merge(_, _)
MergeTwo(h, l, r) ==
  LET p == Nd(h, l).parent  ip == IndexOf(Nd(h, p).ch, l)  pn == Nd(h, p)  ln == Nd(h, l)  rn == Nd(h, r)
      merged == [ln EXCEPT !.n = ln.n + rn.n + 1, !.keys = ln.keys \o <<pn.keys[ip]>> \o SubSeq(rn.keys, 1, rn.n),
                           !.vals = ln.vals \o <<pn.vals[ip]>> \o SubSeq(rn.vals, 1, rn.n), !.ch = ln.ch \o rn.ch]
      pn2 == [pn EXCEPT !.n = @ - 1, !.keys = DelAt(@, ip), !.vals = DelAt(@, ip), !.ch = DelAt(@, ip + 1)]
      \* "signal to cursors in right that they're lost": right.n = 0 (its key / child slots are left as they were)
      rn2 == IF ZeroMerged THEN [rn EXCEPT !.n = 0] ELSE rn
      h1 == Adopt([h EXCEPT !.nodes = (l :> merged) @@ (p :> pn2) @@ (r :> rn2) @@ h.nodes], l)
  IN IF p = h.root
     THEN (IF pn2.n = 0 THEN [h1 EXCEPT !.root = l, !.nodes = (l :> [h1.nodes[l] EXCEPT !.parent = Nil]) @@ h1.nodes] ELSE h1)
     ELSE IF pn2.n < MinKVs THEN (LET st == Steal(h1, p) IN IF st.ok THEN st.h ELSE Merge(h1, p)) ELSE h1
Merge(h, x) == LET s == Sibs(h, x) IN
               IF s.l # Nil /\ Nd(h, s.l).n <= MinKVs THEN MergeTwo(h, s.l, x) ELSE MergeTwo(h, x, s.r)
DeleteH(h, k) ==
  LET d == Descend(h, h.root, k) IN
  IF ~d.found THEN h
  ELSE LET h0 == [h EXCEPT !.size = @ - 1, !.gen = @ + 1]  nd == Nd(h0, d.x) IN
       IF Leaf(h0, d.x)
       THEN LET h1 == SetN(h0, d.x, [nd EXCEPT !.n = @ - 1, !.keys = DelAt(@, d.idx), !.vals = DelAt(@, d.idx)]) IN
            IF nd.n - 1 >= MinKVs THEN h1
            ELSE LET st == Steal(h1, d.x) IN IF st.ok THEN st.h ELSE IF d.x # h1.root THEN Merge(h1, d.x) ELSE h1
       ELSE LET lf == Rightmost(h0, nd.ch[d.idx])  ln == Nd(h0, lf)
                h1 == [h0 EXCEPT !.nodes = (d.x :> [nd EXCEPT !.keys[d.idx] = ln.keys[ln.n], !.vals[d.idx] = ln.vals[ln.n]])
                                           @@ (lf :> [ln EXCEPT !.n = @ - 1, !.keys = SubSeq(@, 1, ln.n - 1), !.vals = SubSeq(@, 1, ln.n - 1)]) @@ h0.nodes]
            IN IF ln.n - 1 >= MinKVs THEN h1
               ELSE LET st == Steal(h1, lf) IN IF st.ok THEN st.h ELSE IF lf # h1.root THEN Merge(h1, lf) ELSE h1
\* ---- abstraction
RECURSIVE InOrderH(_, _)
InOrderH(h, x) == LET nd == Nd(h, x) IN
                  IF nd.ch = <<>> THEN SubSeq(nd.keys, 1, nd.n)
                  ELSE LET RECURSIVE G(_) G(j) == IF j > nd.n + 1 THEN <<>> ELSE InOrderH(h, nd.ch[j]) \o (IF j <= nd.n THEN <<nd.keys[j]>> ELSE <<>>) \o G(j + 1) IN G(1)
KeySet(h) == LET s == InOrderH(h, h.root) IN {s[i] : i \in 1..Len(s)}
\* ---- the cursor, as in btree.go (indices 0-based in the code; here i is 1-based, i = 0 means "before the first")
NoCur == [node |-> Nil, i |-> 0, k |-> 0, gen |-> 0]
Lost(h, c) == c.gen # h.gen /\ c.node # Nil /\ (c.i > Nd(h, c.node).n \/ c.i < 1 \/ Nd(h, c.node).keys[c.i] # c.k)
RECURSIVE Find(_, _, _)
Find(h, x, k) == LET s == Search(Nd(h, x), k) IN      \* [node, i]: k itself, or a neighbour of k in a leaf
                 IF s.found THEN [node |-> x, i |-> s.idx]
                 ELSE IF Leaf(h, x) THEN [node |-> x, i |-> IF s.idx = Nd(h, x).n + 1 THEN s.idx - 1 ELSE s.idx]
                 ELSE Find(h, Nd(h, x).ch[s.idx], k)
Seek(h, k) == IF Nd(h, h.root).n = 0 THEN NoCur
              ELSE LET f == Find(h, h.root, k) IN [node |-> f.node, i |-> f.i, k |-> Nd(h, f.node).keys[f.i], gen |-> h.gen]
RECURSIVE ClimbNext(_, _)
ClimbNext(h, c) == LET p == Nd(h, c.node).parent IN
                   IF p = Nil THEN [c EXCEPT !.node = Nil]
                   ELSE LET idx == IndexOf(Nd(h, p).ch, c.node) IN
                        IF idx <= Nd(h, p).n THEN [c EXCEPT !.node = p, !.i = idx, !.k = Nd(h, p).keys[idx]]
                        ELSE ClimbNext(h, [c EXCEPT !.node = p, !.i = idx])
RECURSIVE ClimbPrev(_, _)
ClimbPrev(h, c) == LET p == Nd(h, c.node).parent IN
                   IF p = Nil THEN [c EXCEPT !.node = Nil]
                   ELSE LET idx == IndexOf(Nd(h, p).ch, c.node) - 1 IN
                        IF idx >= 1 THEN [c EXCEPT !.node = p, !.i = idx, !.k = Nd(h, p).keys[idx]]
                        ELSE ClimbPrev(h, [c EXCEPT !.node = p, !.i = idx])
\* cursor.Next / Prev without the lost() prologue
CNextRaw(h, c) ==
  IF c.node = Nil THEN c
  ELSE LET nd == Nd(h, c.node) IN
       IF nd.ch = <<>> THEN (IF c.i + 1 <= nd.n THEN [c EXCEPT !.i = c.i + 1, !.k = nd.keys[c.i + 1]] ELSE ClimbNext(h, c))
       ELSE IF c.i <= nd.n THEN LET lf == Leftmost(h, nd.ch[c.i + 1]) IN [c EXCEPT !.node = lf, !.i = 1, !.k = Nd(h, lf).keys[1]]
       ELSE ClimbNext(h, c)
CPrevRaw(h, c) ==
  IF c.node = Nil THEN c
  ELSE LET nd == Nd(h, c.node) IN
       IF nd.ch = <<>> THEN (IF c.i - 1 >= 1 THEN [c EXCEPT !.i = c.i - 1, !.k = nd.keys[c.i - 1]] ELSE ClimbPrev(h, c))
       ELSE IF c.i >= 1 THEN LET lf == Rightmost(h, nd.ch[c.i]) IN [c EXCEPT !.node = lf, !.i = Nd(h, lf).n, !.k = Nd(h, lf).keys[Nd(h, lf).n]]
       ELSE ClimbPrev(h, c)
SeekFirstGE(h, k) == LET c == Seek(h, k) IN IF c.node = Nil THEN c ELSE IF k > c.k THEN CNextRaw(h, c) ELSE c
SeekFirstGT(h, k) == LET c == Seek(h, k) IN IF c.node = Nil THEN c ELSE IF k >= c.k THEN CNextRaw(h, c) ELSE c
SeekLastLE(h, k) == LET c == Seek(h, k) IN IF c.node = Nil THEN c ELSE IF k < c.k THEN CPrevRaw(h, c) ELSE c
SeekLastLT(h, k) == LET c == Seek(h, k) IN IF c.node = Nil THEN c ELSE IF k <= c.k THEN CPrevRaw(h, c) ELSE c
SeekFirst(h) == IF Nd(h, h.root).n = 0 THEN NoCur ELSE LET lf == Leftmost(h, h.root) IN [node |-> lf, i |-> 1, k |-> Nd(h, lf).keys[1], gen |-> h.gen]
SeekLast(h) == IF Nd(h, h.root).n = 0 THEN NoCur ELSE LET lf == Rightmost(h, h.root) IN [node |-> lf, i |-> Nd(h, lf).n, k |-> Nd(h, lf).keys[Nd(h, lf).n], gen |-> h.gen]
CNext(h, c) == IF Lost(h, c) THEN SeekFirstGT(h, c.k) ELSE CNextRaw(h, c)
CPrev(h, c) == IF Lost(h, c) THEN SeekLastLT(h, c.k) ELSE CPrevRaw(h, c)
\* ---- Range / RangeReverse and the iterators
OpenCurD(dir, lot, lok, hit, hik, h) ==
  IF dir = "fwd" THEN (IF lot = "unb" THEN SeekFirst(h) ELSE IF lot = "inc" THEN SeekFirstGE(h, lok) ELSE SeekFirstGT(h, lok))
  ELSE (IF hit = "unb" THEN SeekLast(h) ELSE IF hit = "inc" THEN SeekLastLE(h, hik) ELSE SeekLastLT(h, hik))
OpenCur(h) == OpenCurD(Dir, LoT, LoK, HiT, HiK, h)
FarOK(k) == IF Dir = "fwd" THEN (HiT = "unb" \/ (HiT = "inc" /\ k <= HiK) \/ (HiT = "exc" /\ k < HiK))
            ELSE (LoT = "unb" \/ (LoT = "inc" /\ k >= LoK) \/ (LoT = "exc" /\ k > LoK))
InB(k) == /\ (LoT = "unb" \/ (LoT = "inc" /\ k >= LoK) \/ (LoT = "exc" /\ k > LoK))
          /\ (HiT = "unb" \/ (HiT = "inc" /\ k <= HiK) \/ (HiT = "exc" /\ k < HiK))
\* forwardIterator.Next / backwardIterator.Next: [res (0 = end, else the key), val, cur]
IterStepD(dir, h, c) ==
  LET c1 == IF Lost(h, c) THEN (IF dir = "fwd" THEN SeekFirstGE(h, c.k) ELSE SeekLastLE(h, c.k)) ELSE c IN
  IF c1.node = Nil THEN [res |-> 0, val |-> 0, cur |-> c1]
  ELSE [res |-> c1.k, val |-> Nd(h, c1.node).vals[c1.i], cur |-> IF dir = "fwd" THEN CNext(h, c1) ELSE CPrev(h, c1)]
IterStep(h, c) == IterStepD(Dir, h, c)
\* ---- canonical node numbering: reachable nodes in pre-order, then (if it is not reachable any more) the node the
\* cursor is parked in. Unreachable nodes are dropped - only the cursor can still refer to one. This identifies states
\* that differ in allocation history only.
RECURSIVE PreIds(_, _)
PreIds(h, x) == <<x>> \o (IF Leaf(h, x) THEN <<>> ELSE LET nd == Nd(h, x) IN
                           LET RECURSIVE G(_) G(j) == IF j > Len(nd.ch) THEN <<>> ELSE PreIds(h, nd.ch[j]) \o G(j + 1) IN G(1))
Canon(h, c) ==
  LET pre == PreIds(h, h.root)
      reach == {pre[i] : i \in 1..Len(pre)}
      order == IF c.node # Nil /\ c.node \notin reach THEN Append(pre, c.node) ELSE pre
      f(x) == IF x = Nil THEN Nil ELSE IF \E i \in 1..Len(order) : order[i] = x THEN CHOOSE i \in 1..Len(order) : order[i] = x ELSE Nil
      ren(nd, alive) == [nd EXCEPT !.parent = f(nd.parent),
                                   !.ch = IF alive THEN [j \in 1..Len(nd.ch) |-> f(nd.ch[j])]
                                          ELSE (IF \A j \in 1..Len(nd.ch) : f(nd.ch[j]) # Nil THEN [j \in 1..Len(nd.ch) |-> f(nd.ch[j])] ELSE <<>>)]
  IN [h |-> [h EXCEPT !.nodes = [i \in 1..Len(order) |-> ren(h.nodes[order[i]], order[i] \in reach)], !.root = 1, !.next = Len(order) + 1],
      c |-> [c EXCEPT !.node = f(c.node)]]
\* ---- the state machine
Beyond(a, b) == IF Dir = "fwd" THEN a > b ELSE a < b
Init == H = EmptyTree /\ cur = NoCur /\ itst = [open |-> FALSE, done |-> FALSE] /\ pst = [last |-> 0, fresh |-> {}, exhausted |-> FALSE, bad |-> FALSE]
Put(k) == /\ LET cn == Canon(PutH(H, k, 1), cur) IN H' = cn.h /\ cur' = cn.c
          /\ pst' = IF itst.open /\ k \notin KeySet(H) THEN [pst EXCEPT !.fresh = @ \cup {k}] ELSE pst
          /\ UNCHANGED itst
Del(k) == /\ k \in KeySet(H) /\ LET cn == Canon(DeleteH(H, k), cur) IN H' = cn.h /\ cur' = cn.c
          /\ pst' = [pst EXCEPT !.fresh = @ \ {k}] /\ UNCHANGED itst
Open == /\ ~itst.open /\ itst' = [open |-> TRUE, done |-> FALSE] /\ cur' = OpenCur(H) /\ UNCHANGED <<H, pst>>
YieldOK(k) == /\ k \in KeySet(H) /\ InB(k) /\ (pst.last = 0 \/ Beyond(k, pst.last)) /\ ~pst.exhausted
              /\ \A q \in KeySet(H) : (InB(q) /\ (pst.last = 0 \/ Beyond(q, pst.last)) /\ Beyond(k, q)) => q \in pst.fresh
EndOK == pst.exhausted \/ \A q \in KeySet(H) : (InB(q) /\ (pst.last = 0 \/ Beyond(q, pst.last))) => q \in pst.fresh
IterNext ==
  /\ itst.open /\ UNCHANGED H
  /\ IF itst.done THEN pst' = [pst EXCEPT !.bad = @ \/ ~EndOK, !.exhausted = TRUE] /\ UNCHANGED <<cur, itst>>
     ELSE LET s == IterStep(H, cur) IN
          /\ cur' = Canon(H, s.cur).c
          /\ IF s.res = 0 THEN pst' = [pst EXCEPT !.bad = @ \/ ~EndOK, !.exhausted = TRUE] /\ UNCHANGED itst
             ELSE IF ~FarOK(s.res) THEN itst' = [itst EXCEPT !.done = TRUE] /\ pst' = [pst EXCEPT !.bad = @ \/ ~EndOK, !.exhausted = TRUE]
             ELSE pst' = [pst EXCEPT !.bad = @ \/ ~YieldOK(s.res), !.last = s.res, !.fresh = {}] /\ UNCHANGED itst
Next == Open \/ IterNext \/ (\E k \in CKeys : Put(k) \/ Del(k))
Spec == Init /\ [][Next]_vars
NotBad == ~pst.bad
\* the tree part agrees with the identity-free model's invariants
SizeOK == H.size = Cardinality(KeySet(H))
\* states are compared up to the numbering of node ids: drop gen (monotone) by keeping only "cursor is current"
\* bound the exploration: node ids are never re-used, so limit the number of allocations
Small == H.next <= MaxIds
View == <<H.nodes, H.root, cur.node, cur.i, cur.k, cur.gen = H.gen, itst, pst>>
================================================================================
