SPECIFICATION BSpec
CONSTANTS
  MaxKVs = 4
  BKeys = {1,2,3,4,5,6,7,8,9,10,11}
  BVals = {1}
VIEW BView
INVARIANTS Denotes Shape
PROPERTY PutOldKeepsShape
