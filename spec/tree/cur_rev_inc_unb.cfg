SPECIFICATION Spec
CONSTANTS
  K = 5
  LoT = "inc"
  LoK = 2
  HiT = "unb"
  HiK = 4
  Dir = "rev"
INVARIANT NotBad
CHECK_DEADLOCK FALSE
