SPECIFICATION TSpec
CONSTANTS
  Keys <- K40
  Cls <- Coarse40
  Vals = {}
  NIter = 6
  BoundPairs = {}
  MaxKVs = 15
  MinKVs = 7
  CheckDrift = FALSE
CONSTRAINT HWM
POSTCONDITION Accepted
CHECK_DEADLOCK FALSE
