---- MODULE TreeCursor ----
\* I-layer (abstract) of the tree iterators (C02): the code's algorithm - the cursor is parked on the next key to yield
\* (pre-fetch), re-seeks >= / <= that key when it is gone, the While cut-off is sticky - judged by the P-rule of
\* SortedMap.tla (the "fresh" set). One cfg per direction x bound-kind pair; all interleavings of Put/Delete/Next over 5 keys.
EXTENDS Integers, FiniteSets, TLC
CONSTANTS K, LoT, LoK, HiT, HiK, Dir   \* keys 1..K; bound types "unb"|"inc"|"exc"; Dir "fwd"|"rev"
Keys == 1..K
None == 0
VARIABLES m, open, nk, last, done, fresh, bad, exhausted
vars == <<m, open, nk, last, done, fresh, bad, exhausted>>
InLo(k) == LoT = "unb" \/ (LoT = "inc" /\ k >= LoK) \/ (LoT = "exc" /\ k > LoK)
InHi(k) == HiT = "unb" \/ (HiT = "inc" /\ k <= HiK) \/ (HiT = "exc" /\ k < HiK)
InB(k) == InLo(k) /\ InHi(k)
Min(S) == CHOOSE x \in S : \A y \in S : x <= y
Max(S) == CHOOSE x \in S : \A y \in S : x >= y
\* direction-generic helpers
Beyond(a, b) == IF Dir = "fwd" THEN a > b ELSE a < b          \* a strictly beyond b
FirstFrom(S) == IF S = {} THEN None ELSE IF Dir = "fwd" THEN Min(S) ELSE Max(S)
NearOK(k) == IF Dir = "fwd" THEN InLo(k) ELSE InHi(k)          \* bound applied by the initial seek
FarOK(k)  == IF Dir = "fwd" THEN InHi(k) ELSE InLo(k)          \* bound applied by While
Init == m \in SUBSET Keys /\ open = FALSE /\ nk = None /\ last = None /\ done = FALSE /\ fresh = {} /\ bad = FALSE /\ exhausted = FALSE
Open == /\ ~open /\ open' = TRUE /\ nk' = FirstFrom({k \in m : NearOK(k)})
        /\ UNCHANGED <<m, last, done, fresh, bad, exhausted>>
Put(k) == /\ m' = m \cup {k} /\ fresh' = IF open /\ k \notin m THEN fresh \cup {k} ELSE fresh
          /\ UNCHANGED <<open, nk, last, done, bad, exhausted>>
Del(k) == /\ k \in m /\ m' = m \ {k} /\ fresh' = fresh \ {k} /\ UNCHANGED <<open, nk, last, done, bad, exhausted>>
\* P-layer judgement of an outcome
Between(q, k) == (last = None \/ Beyond(q, last)) /\ Beyond(k, q)
YieldOK(k) == /\ k \in m /\ InB(k) /\ (last = None \/ Beyond(k, last)) /\ ~exhausted
              /\ \A q \in m : (InB(q) /\ Between(q, k)) => q \in fresh
EndOK == \A q \in m : (InB(q) /\ (last = None \/ Beyond(q, last))) => q \in fresh
\* I-layer: the code's algorithm on the abstract map
NextI == /\ open
         /\ IF done \/ nk = None
            THEN /\ bad' = (bad \/ ~(exhausted \/ EndOK)) /\ exhausted' = TRUE /\ UNCHANGED <<nk, last, done, fresh>>
            ELSE LET cand == {k \in m : k = nk \/ Beyond(k, nk)}
                     k1 == FirstFrom(cand) IN
                 IF k1 = None
                 THEN /\ nk' = None /\ bad' = (bad \/ ~(exhausted \/ EndOK)) /\ exhausted' = TRUE /\ UNCHANGED <<last, done, fresh>>
                 ELSE IF ~FarOK(k1)
                      THEN /\ done' = TRUE /\ bad' = (bad \/ ~(exhausted \/ EndOK)) /\ exhausted' = TRUE
                           /\ nk' = FirstFrom({k \in m : Beyond(k, k1)}) /\ UNCHANGED <<last, fresh>>
                      ELSE /\ bad' = (bad \/ ~YieldOK(k1)) /\ last' = k1 /\ fresh' = {}
                           /\ nk' = FirstFrom({k \in m : Beyond(k, k1)}) /\ UNCHANGED <<done, exhausted>>
         /\ UNCHANGED <<m, open>>
Next == Open \/ NextI \/ \E k \in Keys : Put(k) \/ Del(k)
Spec == Init /\ [][Next]_vars
NotBad == ~bad
====
