SPECIFICATION Spec
CONSTANTS
  K = 5
  LoT = "unb"
  LoK = 2
  HiT = "unb"
  HiK = 4
  Dir = "fwd"
INVARIANT NotBad
CHECK_DEADLOCK FALSE
