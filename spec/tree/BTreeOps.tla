------------------------------- MODULE BTreeOps -------------------------------
(* I-layer of container/tree/btree.go (C01, C03): the B-tree as a nested value
     node == [keys |-> Seq, vals |-> Seq, ch |-> Seq(node)]      (ch = <<>> for a leaf)
   and the code's algorithms as recursive operators: searchNode, leaf insert, overfill (split at the
   median of the MaxKVs+1 keys, separator promoted, cascading to a new root), Delete with predecessor
   replacement (removeRightmost), steal (right sibling preferred, then left), merge (with the left
   sibling if there is one, else the right), cascade, root collapse.
   The functional form visits the same nodes and makes the same choices as the pointer code, so the
   node structure it produces is the code's node structure; Trace_Tree compares it with the shape
   logged from the real tree (MaxKVs = 15) after every operation (model drift, not a verdict).
   TLC checks, for every history over Keys with a small fan-out, that the tree denotes the ideal map
   m and keeps every structural invariant of C03. *)
EXTENDS Integers, Sequences, FiniteSets, TLC
CONSTANTS MaxKVs
MinKVs == MaxKVs \div 2
Leaf(x) == x.ch = <<>>
N(x) == Len(x.keys)
EmptyNode == [keys |-> <<>>, vals |-> <<>>, ch |-> <<>>]
InsAt(s, i, e) == SubSeq(s, 1, i - 1) \o <<e>> \o SubSeq(s, i, Len(s))          \* e becomes s'[i]
DelAt(s, i) == SubSeq(s, 1, i - 1) \o SubSeq(s, i + 1, Len(s))
LastOf(s) == s[Len(s)]
\* searchNode: [found, idx] - idx (1-based) of the key, or of the child to descend into
Search(x, k) == LET lt == {i \in 1..N(x) : x.keys[i] < k} IN
                IF \E i \in 1..N(x) : x.keys[i] = k THEN [found |-> TRUE, idx |-> CHOOSE i \in 1..N(x) : x.keys[i] = k]
                ELSE [found |-> FALSE, idx |-> Cardinality(lt) + 1]
\* ---- Put: returns [kind |-> "one", t |-> node] or [kind |-> "split", l, k, v, r]
Split(keys, vals, ch) ==
  LET med == Len(keys) \div 2 IN          \* 0-based median index of the MaxKVs+1 entries = number of keys left of it
  [kind |-> "split",
   l |-> [keys |-> SubSeq(keys, 1, med), vals |-> SubSeq(vals, 1, med), ch |-> IF ch = <<>> THEN <<>> ELSE SubSeq(ch, 1, med + 1)],
   k |-> keys[med + 1], v |-> vals[med + 1],
   r |-> [keys |-> SubSeq(keys, med + 2, Len(keys)), vals |-> SubSeq(vals, med + 2, Len(vals)),
          ch |-> IF ch = <<>> THEN <<>> ELSE SubSeq(ch, med + 2, Len(ch))]]
Fit(keys, vals, ch) == IF Len(keys) <= MaxKVs THEN [kind |-> "one", t |-> [keys |-> keys, vals |-> vals, ch |-> ch]] ELSE Split(keys, vals, ch)
RECURSIVE Ins(_, _, _)
Ins(x, k, v) ==
  LET s == Search(x, k) IN
  IF s.found THEN [kind |-> "one", t |-> [x EXCEPT !.vals[s.idx] = v]]
  ELSE IF Leaf(x) THEN Fit(InsAt(x.keys, s.idx, k), InsAt(x.vals, s.idx, v), <<>>)
  ELSE LET r == Ins(x.ch[s.idx], k, v) IN
       IF r.kind = "one" THEN [kind |-> "one", t |-> [x EXCEPT !.ch[s.idx] = r.t]]
       ELSE Fit(InsAt(x.keys, s.idx, r.k), InsAt(x.vals, s.idx, r.v),
                SubSeq(x.ch, 1, s.idx - 1) \o <<r.l, r.r>> \o SubSeq(x.ch, s.idx + 1, Len(x.ch)))
PutT(root, k, v) == LET r == Ins(root, k, v) IN
                    IF r.kind = "one" THEN r.t ELSE [keys |-> <<r.k>>, vals |-> <<r.v>>, ch |-> <<r.l, r.r>>]
\* ---- Delete
\* repair child i of x after it lost a key: steal from the right sibling, else from the left, else merge
\* (with the left sibling if there is one, else with the right one)
RotLeft(x, i) ==       \* child i takes the separator, the right sibling's first key goes up
  LET c == x.ch[i]  r == x.ch[i + 1] IN
  [x EXCEPT !.keys[i] = r.keys[1], !.vals[i] = r.vals[1],
            !.ch[i] = [keys |-> Append(c.keys, x.keys[i]), vals |-> Append(c.vals, x.vals[i]),
                       ch |-> IF Leaf(c) THEN <<>> ELSE Append(c.ch, r.ch[1])],
            !.ch[i + 1] = [keys |-> Tail(r.keys), vals |-> Tail(r.vals), ch |-> IF Leaf(r) THEN <<>> ELSE Tail(r.ch)]]
RotRight(x, i) ==      \* child i takes the separator in front, the left sibling's last key goes up
  LET c == x.ch[i]  l == x.ch[i - 1] IN
  [x EXCEPT !.keys[i - 1] = LastOf(l.keys), !.vals[i - 1] = LastOf(l.vals),
            !.ch[i] = [keys |-> <<x.keys[i - 1]>> \o c.keys, vals |-> <<x.vals[i - 1]>> \o c.vals,
                       ch |-> IF Leaf(c) THEN <<>> ELSE <<LastOf(l.ch)>> \o c.ch],
            !.ch[i - 1] = [keys |-> SubSeq(l.keys, 1, N(l) - 1), vals |-> SubSeq(l.vals, 1, N(l) - 1),
                           ch |-> IF Leaf(l) THEN <<>> ELSE SubSeq(l.ch, 1, Len(l.ch) - 1)]]
MergeAt(x, i) ==       \* children i and i+1 and separator i become one node
  LET l == x.ch[i]  r == x.ch[i + 1] IN
  [keys |-> DelAt(x.keys, i), vals |-> DelAt(x.vals, i),
   ch |-> SubSeq(x.ch, 1, i - 1)
          \o <<[keys |-> l.keys \o <<x.keys[i]>> \o r.keys, vals |-> l.vals \o <<x.vals[i]>> \o r.vals, ch |-> l.ch \o r.ch]>>
          \o SubSeq(x.ch, i + 2, Len(x.ch))]
Fix(x, i) ==
  IF N(x.ch[i]) >= MinKVs THEN x
  ELSE IF i < Len(x.ch) /\ N(x.ch[i + 1]) > MinKVs THEN RotLeft(x, i)
  ELSE IF i > 1 /\ N(x.ch[i - 1]) > MinKVs THEN RotRight(x, i)
  ELSE IF i > 1 THEN MergeAt(x, i - 1) ELSE MergeAt(x, i)
\* removeRightmost: [t, k, v]
RECURSIVE DelMax(_)
DelMax(x) == IF Leaf(x) THEN [t |-> [x EXCEPT !.keys = SubSeq(x.keys, 1, N(x) - 1), !.vals = SubSeq(x.vals, 1, N(x) - 1)], k |-> LastOf(x.keys), v |-> LastOf(x.vals)]
             ELSE LET r == DelMax(LastOf(x.ch)) IN [t |-> Fix([x EXCEPT !.ch[Len(x.ch)] = r.t], Len(x.ch)), k |-> r.k, v |-> r.v]
RECURSIVE Del(_, _)
Del(x, k) ==
  LET s == Search(x, k) IN
  IF s.found THEN
       IF Leaf(x) THEN [x EXCEPT !.keys = DelAt(x.keys, s.idx), !.vals = DelAt(x.vals, s.idx)]
       ELSE LET r == DelMax(x.ch[s.idx]) IN Fix([x EXCEPT !.keys[s.idx] = r.k, !.vals[s.idx] = r.v, !.ch[s.idx] = r.t], s.idx)
  ELSE IF Leaf(x) THEN x
  ELSE Fix([x EXCEPT !.ch[s.idx] = Del(x.ch[s.idx], k)], s.idx)
DeleteT(root, k) == LET t == Del(root, k) IN IF N(t) = 0 /\ ~Leaf(t) THEN t.ch[1] ELSE t       \* root collapse
RECURSIVE GetT(_, _)
GetT(x, k) == LET s == Search(x, k) IN IF s.found THEN x.vals[s.idx] ELSE IF Leaf(x) THEN 0 ELSE GetT(x.ch[s.idx], k)
\* ---- observations
RECURSIVE InOrderT(_)
InOrderT(x) == IF Leaf(x) THEN x.keys
               ELSE LET RECURSIVE G(_) G(j) == IF j > Len(x.ch) THEN <<>> ELSE InOrderT(x.ch[j]) \o (IF j <= N(x) THEN <<x.keys[j]>> ELSE <<>>) \o G(j + 1) IN G(1)
RECURSIVE DepthT(_)
DepthT(x) == IF Leaf(x) THEN (IF N(x) = 0 THEN 0 ELSE 1) ELSE 1 + DepthT(x.ch[1])
RECURSIVE CountT(_)
CountT(x) == N(x) + (IF Leaf(x) THEN 0 ELSE LET RECURSIVE S(_) S(j) == IF j > Len(x.ch) THEN 0 ELSE CountT(x.ch[j]) + S(j + 1) IN S(1))
\* pre-order list of the nodes' key sequences (what VerifShape logs)
RECURSIVE PreT(_)
PreT(x) == <<x.keys>> \o (IF Leaf(x) THEN <<>> ELSE LET RECURSIVE G(_) G(j) == IF j > Len(x.ch) THEN <<>> ELSE PreT(x.ch[j]) \o G(j + 1) IN G(1))
\* ---- structural invariants of C03 on the model tree
RECURSIVE WellFormed(_, _, _)
WellFormed(x, isRoot, d) ==       \* d = levels below this node (uniform leaf depth)
  /\ Len(x.vals) = N(x) /\ N(x) <= MaxKVs
  /\ (~isRoot => N(x) >= MinKVs)
  /\ IF d = 0 THEN Leaf(x) ELSE (Len(x.ch) = N(x) + 1 /\ \A j \in 1..Len(x.ch) : WellFormed(x.ch[j], FALSE, d - 1))
StrictAsc(s) == \A i \in 1..(Len(s) - 1) : s[i] < s[i + 1]
Pow(b, e) == LET RECURSIVE P(_) P(j) == IF j = 0 THEN 1 ELSE b * P(j - 1) IN P(e)
ShapeOKT(x) == /\ WellFormed(x, TRUE, IF DepthT(x) = 0 THEN 0 ELSE DepthT(x) - 1)
               /\ StrictAsc(InOrderT(x))
               /\ (DepthT(x) = 0 \/ 2 * Pow(MinKVs + 1, DepthT(x) - 1) - 1 <= CountT(x))
               /\ (CountT(x) > 0 => N(x) >= 1)
==============================================================================
