----------------------------- MODULE SortedMap -----------------------------
(* P-layer of container/tree.Map / Set (C01) and of its iterators under mutation (C02).

   Keys are integers 1..N listed in the comparator's ascending order; Cls[k] is the equivalence
   class of key k under the comparator (non-decreasing in k; the identity for a strict total order,
   coarser for orders with distinct-but-equivalent keys). The harness maps these abstract keys to
   concrete ints/strings and natural/reversed/coarse comparators, less- or cmp-constructed.

   mv[c]   : value stored under class c, 0 = absent           (values are >= 1)
   reps[c] : concrete keys put under c since c was last absent (the statement does not say which
             representative a tree keeps, so any of them may be reported)
   its[i]  : iterator i: [live, dir (1 fwd, -1 rev), lo, hi, last, done, fresh]
             last  = class of the last entry yielded (0 = none yet)
             fresh = classes (re)inserted since this iterator's previous yield / its creation.
   A bound is [t, k]: t = 0 unbounded, 1 included, 2 excluded; k = key.
   Every action takes the call's result as a parameter and is enabled exactly for the results the
   properties allow. *)
EXTENDS Integers, Sequences, FiniteSets, TLC, Json
CONSTANTS Keys, Cls, Vals, NIter, BoundPairs
VARIABLES mv, reps, its, op
Classes == {Cls[k] : k \in Keys}
Absent == 0
Present == {c \in Classes : mv[c] # Absent}
Iters == 1..NIter
NoIt == [live |-> FALSE, dir |-> 1, lo |-> [t |-> 0, k |-> 0], hi |-> [t |-> 0, k |-> 0], last |-> 0, done |-> FALSE, fresh |-> {}]
Unch == UNCHANGED <<mv, reps, its>>
END == <<0, 0>>

InLo(c, b) == b.t = 0 \/ (b.t = 1 /\ c >= Cls[b.k]) \/ (b.t = 2 /\ c > Cls[b.k])
InHi(c, b) == b.t = 0 \/ (b.t = 1 /\ c <= Cls[b.k]) \/ (b.t = 2 /\ c < Cls[b.k])
InB(c, it) == InLo(c, it.lo) /\ InHi(c, it.hi)
\* c lies strictly beyond class x in the iterator's direction (x = 0: everything is beyond)
Beyond(c, x, dir) == x = 0 \/ (dir = 1 /\ c > x) \/ (dir = -1 /\ c < x)
Between(c, x, y, dir) == Beyond(c, x, dir) /\ ((dir = 1 /\ c < y) \/ (dir = -1 /\ c > y))

Put(k, v, r) ==
  LET c == Cls[k] IN
  /\ r = 0
  /\ mv' = [mv EXCEPT ![c] = v]
  /\ reps' = [reps EXCEPT ![c] = IF mv[c] = Absent THEN {k} ELSE @ \cup {k}]
  /\ its' = [i \in Iters |-> IF its[i].live /\ mv[c] = Absent THEN [its[i] EXCEPT !.fresh = @ \cup {c}] ELSE its[i]]
Delete(k, r) ==
  LET c == Cls[k] IN
  /\ r = 0
  /\ mv' = [mv EXCEPT ![c] = Absent]
  /\ reps' = [reps EXCEPT ![c] = {}]
  /\ its' = [i \in Iters |-> [its[i] EXCEPT !.fresh = @ \ {c}]]
Get(k, r) == r = mv[Cls[k]] /\ Unch
Contains(k, r) == r = (IF mv[Cls[k]] # Absent THEN 1 ELSE 0) /\ Unch
LenOp(r) == r = Cardinality(Present) /\ Unch
\* First/Last: the extreme entry; the key reported is one of the representatives put under it
Extreme(r, c) == r[1] \in reps[c] /\ r[2] = mv[c]
First(r) == /\ IF Present = {} THEN r = END
               ELSE \E c \in Present : (\A d \in Present : c <= d) /\ Extreme(r, c)
            /\ Unch
Last(r) == /\ IF Present = {} THEN r = END
              ELSE \E c \in Present : (\A d \in Present : c >= d) /\ Extreme(r, c)
           /\ Unch
\* Range / RangeReverse / Iterate create an iterator; nothing is observable until Next
Range(i, dir, lo, hi, r) ==
  /\ r = 0 /\ UNCHANGED <<mv, reps>>
  /\ its' = [its EXCEPT ![i] = [live |-> TRUE, dir |-> dir, lo |-> lo, hi |-> hi, last |-> 0, done |-> FALSE, fresh |-> {}]]
\* classes the iterator still owes: present, in bounds, beyond the last one yielded
Owed(it) == {c \in Present : InB(c, it) /\ Beyond(c, it.last, it.dir)}
IterNext(i, r) ==
  LET it == its[i] IN
  /\ it.live
  /\ UNCHANGED <<mv, reps>>
  /\ \/ /\ r = END                                     \* exhaustion: everything owed is fresh
        /\ (it.done \/ Owed(it) \subseteq it.fresh)
        /\ its' = [its EXCEPT ![i] = [it EXCEPT !.done = TRUE, !.fresh = {}]]
     \/ /\ r # END /\ ~it.done
        /\ \E c \in Owed(it) :
             \* the key reported is equivalent to the present entry (an iterator may remember the concrete
             \* key it was parked on - any key of the class is accepted), the value is the current one
             /\ r[1] \in Keys /\ Cls[r[1]] = c /\ r[2] = mv[c]
             /\ \A d \in Owed(it) : Between(d, it.last, c, it.dir) => d \in it.fresh
             /\ its' = [its EXCEPT ![i] = [it EXCEPT !.last = c, !.fresh = {}]]

\* ---- generative form (bounded) for the LTS
R(name, args, res) == op' = [name |-> name, args |-> args, res |-> res]
PInit == mv = [c \in Classes |-> Absent] /\ reps = [c \in Classes |-> {}] /\ its = [i \in Iters |-> NoIt]
Init == PInit /\ op = [name |-> "init", args |-> <<>>, res |-> 0]
Pairs == {<<k, v>> : k \in Keys, v \in Vals} \cup {END}
Next ==
   \/ \E k \in Keys :
        \/ (\E v \in Vals : Put(k, v, 0) /\ R("Put", <<k, v>>, 0))
        \/ (Delete(k, 0) /\ R("Delete", <<k>>, 0))
        \/ (\E r \in Vals \cup {0} : Get(k, r) /\ R("Get", <<k>>, r))
        \/ (\E r \in {0, 1} : Contains(k, r) /\ R("Contains", <<k>>, r))
   \/ (\E r \in 0..Cardinality(Keys) : LenOp(r) /\ R("Len", <<>>, r))
   \/ (\E r \in Pairs : (First(r) /\ R("First", <<>>, r)) \/ (Last(r) /\ R("Last", <<>>, r)))
   \/ (\E i \in Iters, dir \in {1, -1}, b \in BoundPairs :
          Range(i, dir, b[1], b[2], 0) /\ R("Range", <<i, dir, b[1].t, b[1].k, b[2].t, b[2].k>>, 0))
   \/ (\E i \in Iters, r \in Pairs : IterNext(i, r) /\ R("IterNext", <<i>>, r))
vars == <<mv, reps, its, op>>
Spec == Init /\ [][Next]_vars
View == <<mv, reps, its>>

SetSeq(S) == LET RECURSIVE F(_) F(T) == IF T = {} THEN <<>> ELSE LET m == CHOOSE x \in T : \A y \in T : x <= y IN <<m>> \o F(T \ {m}) IN F(S)
\* observation: value per key (Get), and Len
LObs == [vals |-> [k \in 1..Cardinality(Keys) |-> mv[Cls[k]]], len |-> Cardinality(Present)]
LState == [mv |-> mv, reps |-> [c \in Classes |-> SetSeq(reps[c])], its |-> [i \in Iters |-> [its[i] EXCEPT !.fresh = SetSeq(@)]]]
Dump == PrintT(<<"LTS", ToJson([from |-> LState, op |-> op', to |-> LState', obs |-> LObs'])>>)
LInit == Init /\ PrintT(<<"LTSINIT", ToJson([from |-> LState, obs |-> LObs])>>)
LSpec == LInit /\ [][Next]_vars

\* ---- constants for the bounded graphs
B(t, k) == [t |-> t, k |-> k]
Id4 == [k \in 1..4 |-> k]
Coarse4 == [k \in 1..4 |-> (k + 1) \div 2]
AllBounds(K) == {B(0, 0)} \cup {B(t, k) : t \in {1, 2}, k \in K}
BP_None == {}
BP_All4 == AllBounds(1..4) \X AllBounds(1..4)
BP_Some == {<<B(0, 0), B(0, 0)>>, <<B(1, 2), B(0, 0)>>, <<B(2, 2), B(1, 3)>>, <<B(0, 0), B(2, 3)>>, <<B(2, 1), B(2, 4)>>, <<B(1, 3), B(1, 2)>>}
=============================================================================
