SPECIFICATION TSpec
CONSTANTS
  Keys <- K40
  Cls <- Id40
  Vals = {}
  NIter = 6
  BoundPairs = {}
  MaxKVs = 15
  MinKVs = 7
  CheckDrift = TRUE
CONSTRAINT HWM
POSTCONDITION Accepted
CHECK_DEADLOCK FALSE
