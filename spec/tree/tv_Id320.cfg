SPECIFICATION TSpec
CONSTANTS
  Keys <- K320
  Cls <- Id320
  Vals = {}
  NIter = 6
  BoundPairs = {}
  MaxKVs = 15
  MinKVs = 7
  CheckDrift = FALSE
CONSTRAINT HWM
POSTCONDITION Accepted
CHECK_DEADLOCK FALSE
