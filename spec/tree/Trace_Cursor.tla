---------------------------- MODULE Trace_Cursor ----------------------------
(* Binding of BTreeCursor.tla to the code (model conformance; notes, never a verdict): a history recorded from a
   real tree.Map with the shipped fan-out (MaxKVs = 15) is re-executed on the structural model - the pointer
   tree with the code's split / steal / rotate / merge and every open iterator's cursor (node, i, k, gen) with
   lost / seek / Next / Prev / climb - and after every call
     * the model's nodes in pre-order must carry exactly the logged key lists (hook VerifShape),
     * every open iterator's cursor must sit in the same node (pre-order index, or "unlinked node"), at the same
       index, remember the same key and agree on "has seen the latest generation" (hook VerifCursor),
     * Next must return what the model's iterator returns.
   Events: Reset | Put(k, v) | Delete(k) | Open(it, dir, bt, bk) (near bound; the far end is unbounded) |
   Next(it) -> rk, rv, end; every event carries pre (key lists) and curs (list of [it, node, i, k, current]). *)
EXTENDS BTreeCursor, Json
VARIABLES its, l
Trace == ndJsonDeserialize("trace.ndjson")
Ev == Trace[l]
tvars == <<H, cur, itst, pst, its, l>>
ItIds == 1..4
NoIt == [open |-> FALSE, dir |-> "fwd", c |-> NoCur]
TInit == /\ H = EmptyTree /\ cur = NoCur /\ itst = [open |-> FALSE, done |-> FALSE]
         /\ pst = [last |-> 0, fresh |-> {}, exhausted |-> FALSE, bad |-> FALSE]
         /\ its = [i \in ItIds |-> NoIt] /\ l = 1 /\ TLCSet(1, 0)
\* pre-order position (0-based) of node x, -2 if it is not part of the tree any more, -1 for "off the edge"
PosOf(h, x) == IF x = Nil THEN -1
               ELSE LET pre == PreIds(h, h.root) IN
                    IF \E j \in 1..Len(pre) : pre[j] = x THEN (CHOOSE j \in 1..Len(pre) : pre[j] = x) - 1 ELSE -2
ShapeOK(h) == LET pre == PreIds(h, h.root) IN
              /\ Len(pre) = Len(Ev.pre)
              /\ \A j \in 1..Len(pre) : SubSeq(Nd(h, pre[j]).keys, 1, Nd(h, pre[j]).n) = Ev.pre[j]
CursOK(h, f) == /\ Len(Ev.curs) = Cardinality({i \in ItIds : f[i].open})
                /\ \A j \in 1..Len(Ev.curs) :
                     LET e == Ev.curs[j]  c == f[e.it].c IN
                     /\ f[e.it].open
                     /\ e.node = PosOf(h, c.node)
                     /\ (c.node # Nil => (e.i = c.i - 1 /\ e.k = c.k /\ e.current = (c.gen = h.gen)))
Step ==
  \/ /\ Ev.op = "Put" /\ H' = PutH(H, Ev.k, Ev.v) /\ UNCHANGED its
  \/ /\ Ev.op = "Delete" /\ H' = DeleteH(H, Ev.k) /\ UNCHANGED its
  \/ /\ Ev.op = "Open" /\ UNCHANGED H
     /\ its' = [its EXCEPT ![Ev.it] = [open |-> TRUE, dir |-> Ev.dir,
                                        c |-> OpenCurD(Ev.dir, Ev.bt, Ev.bk, Ev.bt, Ev.bk, H)]]
  \/ /\ Ev.op = "Next" /\ UNCHANGED H /\ its[Ev.it].open
     /\ LET s == IterStepD(its[Ev.it].dir, H, its[Ev.it].c) IN
        /\ its' = [its EXCEPT ![Ev.it].c = s.cur]
        /\ IF Ev.end THEN s.res = 0 ELSE (s.res = Ev.rk /\ s.val = Ev.rv)
TNext == /\ l <= Len(Trace) /\ l' = l + 1
         /\ IF Ev.op = "Reset" THEN H' = EmptyTree /\ its' = [i \in ItIds |-> NoIt]      \* a new run
            ELSE Step /\ (ShapeOK(H') = TRUE) /\ (CursOK(H', its') = TRUE)
         /\ UNCHANGED <<cur, itst, pst>>
TSpec == TInit /\ [][TNext]_tvars
HWM == TLCSet(1, IF TLCGet(1) < l THEN l ELSE TLCGet(1))
Accepted == PrintT(<<"HWM", TLCGet(1)>>) /\ TLCGet(1) = Len(Trace) + 1
=============================================================================
