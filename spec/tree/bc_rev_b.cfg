SPECIFICATION Spec
CONSTANTS
  MaxKVs = 3
  CKeys = {1,2,3,4,5,6}
  ZeroMerged = TRUE
  Dir = "rev"
  LoT = "exc"
  LoK = 2
  HiT = "inc"
  HiK = 5
  MaxIds = 9
VIEW View
INVARIANTS NotBad SizeOK
CHECK_DEADLOCK FALSE
