----------------------------- MODULE TreeShape -----------------------------
(* C03: structural invariants of the B-tree, as operators over a logged shape S (the read-only hook
   VerifShape): S.nodes = sequence of [level, n, keys, leaf, ch, parent_ok, cleared_ok] in pre-order
   (root first, ch = 0-based indices of the children), S.size, S.gen. Keys are logged as spec keys
   (integers in the comparator's ascending order). MaxKVs/MinKVs: 15/7 for the shipped fan-out. *)
EXTENDS Integers, Sequences, FiniteSets
CONSTANTS MaxKVs, MinKVs
Node(S, i) == S.nodes[i + 1]                    \* 0-based index as logged
NNodes(S) == Len(S.nodes)
Root(S) == Node(S, 0)
Empty(S) == Root(S).n = 0 /\ Root(S).leaf
RECURSIVE InOrder(_, _)
InOrder(S, i) ==
  LET x == Node(S, i) IN
  IF x.leaf THEN x.keys
  ELSE LET RECURSIVE Go(_)
           Go(j) == IF j > x.n THEN <<>>
                    ELSE InOrder(S, x.ch[j + 1]) \o (IF j < x.n THEN <<x.keys[j + 1]>> ELSE <<>>) \o Go(j + 1)
       IN Go(0)
StrictlyAscending(s) == \A i \in 1..(Len(s) - 1) : s[i] < s[i + 1]
\* internal nodes have exactly n+1 children, all present
ChildrenOK(S) == \A i \in 0..(NNodes(S) - 1) :
   LET x == Node(S, i) IN
   /\ Len(x.keys) = x.n
   /\ (x.leaf => Len(x.ch) = 0)
   /\ (~x.leaf => Len(x.ch) = x.n + 1 /\ \A j \in 1..Len(x.ch) : x.ch[j] >= 1 /\ x.ch[j] < NNodes(S) /\ Node(S, x.ch[j]).level = x.level + 1)
\* every node except the top one is at least half full; none is over-full; a non-empty tree has a non-empty root
HalfFull(S) == /\ \A i \in 1..(NNodes(S) - 1) : Node(S, i).n >= MinKVs /\ Node(S, i).n <= MaxKVs
               /\ Root(S).n <= MaxKVs
               /\ (S.size > 0 => Root(S).n >= 1)
Leaves(S) == {i \in 0..(NNodes(S) - 1) : Node(S, i).leaf}
LeafDepthUniform(S) == \A i, j \in Leaves(S) : Node(S, i).level = Node(S, j).level
Depth(S) == IF Empty(S) THEN 0 ELSE 1 + Node(S, CHOOSE i \in Leaves(S) : TRUE).level
Pow(b, e) == LET RECURSIVE P(_) P(k) == IF k = 0 THEN 1 ELSE b * P(k - 1) IN P(e)
\* depth <= 1 + floor(log_{MinKVs+1}((n+1)/2))   <=>   2*(MinKVs+1)^(depth-1) - 1 <= n
DepthBound(S) == Depth(S) = 0 \/ 2 * Pow(MinKVs + 1, Depth(S) - 1) - 1 <= S.size
SumN(S) == LET RECURSIVE F(_) F(i) == IF i = NNodes(S) THEN 0 ELSE Node(S, i).n + F(i + 1) IN F(0)
LenOK(S) == S.size = SumN(S)
LinksAndGarbage(S) == \A i \in 0..(NNodes(S) - 1) : Node(S, i).parent_ok /\ Node(S, i).cleared_ok
ShapeOK(S) == /\ ChildrenOK(S) /\ HalfFull(S) /\ LeafDepthUniform(S) /\ DepthBound(S) /\ LenOK(S)
              /\ LinksAndGarbage(S) /\ StrictlyAscending(InOrder(S, 0))
\* which conjunct failed (for the report)
ShapeWhy(S) == <<ChildrenOK(S), HalfFull(S), LeafDepthUniform(S), DepthBound(S), LenOK(S), LinksAndGarbage(S), StrictlyAscending(InOrder(S, 0))>>
=============================================================================
