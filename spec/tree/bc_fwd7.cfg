SPECIFICATION Spec
CONSTANTS
  MaxKVs = 3
  CKeys = {1,2,3,4,5,6,7}
  ZeroMerged = TRUE
  Dir = "fwd"
  LoT = "unb"
  LoK = 2
  HiT = "unb"
  HiK = 5
  MaxIds = 9
VIEW View
INVARIANTS NotBad SizeOK
CHECK_DEADLOCK FALSE
