SPECIFICATION Spec
CONSTANTS
  K = 5
  LoT = "exc"
  LoK = 2
  HiT = "inc"
  HiK = 4
  Dir = "fwd"
INVARIANT NotBad
CHECK_DEADLOCK FALSE
