-------------------------------- MODULE BTree --------------------------------
(* The state machine around BTreeOps (the functional form of btree.go's algorithms) for exhaustive
   checking with a small fan-out: every Put/Delete history over BKeys keeps the tree denoting the ideal
   map m and satisfying the structural invariants of C03; a Put of a present key leaves the structure
   alone (the design-level half of C01's concurrency clause). *)
EXTENDS BTreeOps
CONSTANTS BKeys, BVals
\* ---- the state machine for exhaustive checking
VARIABLES bt, m, last
bvars == <<bt, m, last>>
BInit == bt = EmptyNode /\ m = [k \in BKeys |-> 0] /\ last = "init"
BPut(k, v) == bt' = PutT(bt, k, v) /\ m' = [m EXCEPT ![k] = v] /\ last' = IF m[k] = 0 THEN "put-new" ELSE "put-old"
BDel(k) == bt' = DeleteT(bt, k) /\ m' = [m EXCEPT ![k] = 0] /\ last' = "del"
BNext == \E k \in BKeys : (\E v \in BVals : BPut(k, v)) \/ BDel(k)
BSpec == BInit /\ [][BNext]_bvars
Denotes == /\ InOrderT(bt) = LET S == {k \in BKeys : m[k] # 0} IN
                             LET RECURSIVE F(_) F(T) == IF T = {} THEN <<>> ELSE LET x == CHOOSE x \in T : \A y \in T : x <= y IN <<x>> \o F(T \ {x}) IN F(S)
           /\ \A k \in BKeys : GetT(bt, k) = m[k]
           /\ CountT(bt) = Cardinality({k \in BKeys : m[k] # 0})
Shape == ShapeOKT(bt)
\* a Put of a present key changes one value slot and nothing of the structure
PutOldKeepsShape == [][(\E k \in BKeys, v \in BVals : BPut(k, v) /\ m[k] # 0) => PreT(bt') = PreT(bt)]_bvars
BView == <<bt, m>>
==============================================================================
