SPECIFICATION TSpec
CONSTANTS
  MaxKVs = 15
  CKeys = {}
  ZeroMerged = TRUE
  Dir = "fwd"
  LoT = "unb"
  LoK = 0
  HiT = "unb"
  HiK = 0
  MaxIds = 0
CONSTRAINT HWM
POSTCONDITION Accepted
CHECK_DEADLOCK FALSE
