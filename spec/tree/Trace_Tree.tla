----------------------------- MODULE Trace_Tree -----------------------------
(* Trace validation of container/tree: every recorded call with its result must be a SortedMap step
   (C01, C02); the shape logged after every mutation must satisfy TreeShape and hold exactly the
   map's keys; Get/Contains must stay within the comparison bound (C03). *)
EXTENDS SortedMap, TreeShape
CONSTANT CheckDrift     \* TRUE: also re-execute every Put/Delete on the BTreeOps model (fan-out 16) and compare node by node
VARIABLES l, btv
BT == INSTANCE BTreeOps WITH MaxKVs <- 15
Trace == ndJsonDeserialize("trace.ndjson")
Ev == Trace[l]
tvars == <<mv, reps, its, op, l, btv>>
TInit == PInit /\ op = 0 /\ l = 1 /\ btv = BT!EmptyNode /\ TLCSet(1, 0)
A(i) == Ev.args[i]
Reset == Ev.op = "Reset" /\ mv' = [c \in Classes |-> Absent] /\ reps' = [c \in Classes |-> {}] /\ its' = [i \in Iters |-> NoIt]
Call ==
  \/ Ev.op = "Put" /\ Put(A(1), A(2), Ev.res)
  \/ Ev.op = "Delete" /\ Delete(A(1), Ev.res)
  \/ Ev.op = "Get" /\ Get(A(1), Ev.res)
  \/ Ev.op = "Contains" /\ Contains(A(1), Ev.res)
  \/ Ev.op = "Len" /\ LenOp(Ev.res)
  \/ Ev.op = "First" /\ First(Ev.res)
  \/ Ev.op = "Last" /\ Last(Ev.res)
  \/ Ev.op = "Range" /\ Range(A(1), A(2), [t |-> A(3), k |-> A(4)], [t |-> A(5), k |-> A(6)], Ev.res)
  \/ Ev.op = "IterNext" /\ IterNext(A(1), Ev.res)
\* the logged structure holds exactly the present classes (one key per class, in order) ...
KeysOK(S) == LET io == InOrder(S, 0) IN
             /\ Len(io) = Cardinality(Present')
             /\ \A i \in 1..Len(io) : mv'[Cls[io[i]]] # Absent
             /\ \A i \in 1..(Len(io) - 1) : Cls[io[i]] < Cls[io[i + 1]]
\* ... and a lookup makes at most CmpPerLevel comparator calls per level
CmpOK == "cmps" \in DOMAIN Ev =>
           /\ Ev.cmps <= Ev.cmp_per_level * (IF Ev.depth = 0 THEN 1 ELSE Ev.depth)
           /\ \A i \in 1..Len(Ev.cmplv) : Ev.cmplv[i] <= Ev.cmp_per_level        \* per level (calls attributed through the logged shape)
StructOK == "shape" \in DOMAIN Ev => ShapeOK(Ev.shape) /\ KeysOK(Ev.shape)
\* the model tree follows the recorded mutations; where a shape was logged the two must agree node by node
BtStep == btv' = (IF ~CheckDrift THEN btv
                  ELSE IF Ev.op = "Reset" THEN BT!EmptyNode
                  ELSE IF Ev.op = "Put" THEN BT!PutT(btv, A(1), A(2))
                  ELSE IF Ev.op = "Delete" THEN BT!DeleteT(btv, A(1))
                  ELSE btv)
ShapeKeys(S) == [i \in 1..Len(S.nodes) |-> S.nodes[i].keys]
DriftOK == (CheckDrift /\ "shape" \in DOMAIN Ev) => BT!PreT(btv') = ShapeKeys(Ev.shape)
TNext == /\ l <= Len(Trace) /\ l' = l + 1 /\ op' = op /\ BtStep
         /\ (Reset \/ (Call /\ (StructOK = TRUE) /\ (CmpOK = TRUE) /\ (DriftOK = TRUE)))
TSpec == TInit /\ [][TNext]_tvars
HWM == TLCSet(1, IF TLCGet(1) < l THEN l ELSE TLCGet(1))
Accepted == PrintT(<<"HWM", TLCGet(1)>>) /\ TLCGet(1) = Len(Trace) + 1
IdN(n) == [k \in 1..n |-> k]
CoarseN(n) == [k \in 1..n |-> (k + 1) \div 2]
Id40 == IdN(40)
Id320 == IdN(320)
Id1300 == IdN(1300)
Coarse40 == CoarseN(40)
Coarse320 == CoarseN(320)
K40 == 1..40
K320 == 1..320
K1300 == 1..1300
=============================================================================
