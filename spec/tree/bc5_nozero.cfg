SPECIFICATION Spec
CONSTANTS
  MaxKVs = 3
  CKeys = {1,2,3,4,5}
  ZeroMerged = FALSE
  Dir = "fwd"
  LoT = "unb"
  LoK = 2
  HiT = "unb"
  HiK = 4
  MaxIds = 9
VIEW View
INVARIANTS NotBad SizeOK
CHECK_DEADLOCK FALSE
