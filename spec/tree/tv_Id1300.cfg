SPECIFICATION TSpec
CONSTANTS
  Keys <- K1300
  Cls <- Id1300
  Vals = {}
  NIter = 6
  BoundPairs = {}
  MaxKVs = 15
  MinKVs = 7
  CheckDrift = FALSE
CONSTRAINT HWM
POSTCONDITION Accepted
CHECK_DEADLOCK FALSE
