SPECIFICATION TSpec
CONSTANTS
  Items <- TItems
  MaxSize = 0
  NIter = 3
  Inits = {}
CONSTRAINT HWM
POSTCONDITION Accepted
CHECK_DEADLOCK FALSE
