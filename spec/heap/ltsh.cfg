SPECIFICATION LSpec
CONSTANTS
  Items = {11, 12, 21, 31}
  MaxSize = 5
  NIter = 0
  Inits <- Inits2
VIEW View
ACTION_CONSTRAINT Dump
