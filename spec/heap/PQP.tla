-------------------------------- MODULE PQP --------------------------------
(* P-layer of container/xheap.PriorityQueue (C05, C15): a map from key to priority with minimum
   extraction. Keys are 1..K; priorities are >= 1 and 0 is the zero value reported for absent keys.
   Ties (equal priorities) make Peek/Pop nondeterministic; a queue built from an initial list holds
   each distinct key once with one of the priorities listed for it. *)
EXTENDS Integers, Sequences, FiniteSets, TLC, Json, BagIter
CONSTANTS Keys, Prios, NIter, Inits, PDiv   \* the order given to the queue compares p \div PDiv (PDiv > 1: distinct priorities that tie)
VARIABLES pm, bits, op
Absent == 0
Present(f) == {k \in Keys : f[k] # Absent}
PC(p) == p \div PDiv
MinKeys(f) == {k \in Present(f) : ~\E j \in Present(f) : PC(f[j]) < PC(f[k])}
KeyBag(f) == [k \in Keys |-> IF f[k] # Absent THEN 1 ELSE 0]
Iters == 1..NIter
AllAR == [i \in Iters |-> BitAddRemove(bits[i], Keys)]
AllTouch == [i \in Iters |-> BitTouch(bits[i])]
Unch == UNCHANGED <<pm, bits>>
\* init is a sequence of <<key, prio>> pairs
Listed(init, k) == {init[i][2] : i \in {j \in 1..Len(init) : init[j][1] = k}}
New(init, r) == /\ r = OK
                /\ pm' \in {f \in [Keys -> Prios \cup {Absent}] :
                              \A k \in Keys : IF Listed(init, k) = {} THEN f[k] = Absent ELSE f[k] \in Listed(init, k)}
                /\ bits' = [i \in Iters |-> NoBit(Keys)]
Update(k, p, r) == /\ r = OK /\ pm' = [pm EXCEPT ![k] = p]
                   /\ bits' = IF pm[k] = Absent THEN AllAR ELSE AllTouch
Remove(k, r) == /\ r = OK
                /\ IF pm[k] = Absent THEN Unch ELSE pm' = [pm EXCEPT ![k] = Absent] /\ bits' = AllAR
Contains(k, r) == r = (IF pm[k] # Absent THEN 1 ELSE 0) /\ Unch
Priority(k, r) == r = pm[k] /\ Unch
LenOp(r) == r = Cardinality(Present(pm)) /\ Unch
Peek(r) == IF Present(pm) = {} THEN r = PANIC /\ Unch ELSE r \in MinKeys(pm) /\ Unch
Pop(r) == IF Present(pm) = {} THEN r = PANIC /\ Unch
          ELSE r \in MinKeys(pm) /\ pm' = [pm EXCEPT ![r] = Absent] /\ bits' = AllAR
Grow(n, r) == r = OK /\ Unch
Iterate(i, r) == r = OK /\ pm' = pm /\ bits' = [bits EXCEPT ![i] = BitNew(KeyBag(pm), Keys)]
IterNext(i, r) == /\ bits[i].live /\ r \in BAllowed(bits[i], KeyBag(pm), Keys)
                  /\ pm' = pm /\ bits' = [bits EXCEPT ![i] = BitAfter(bits[i], KeyBag(pm), r, Keys)]

R(name, args, res) == op' = [name |-> name, args |-> args, res |-> res]
Results == Keys \cup Prios \cup {PANIC, END, OK, 0} \cup 0..Cardinality(Keys)
PInit == pm = [k \in Keys |-> Absent] /\ bits = [i \in Iters |-> NoBit(Keys)]
Init == PInit /\ op = [name |-> "init", args |-> <<>>, res |-> OK]
Fresh == op.name = "init"
Next == \E r \in Results :
   \/ (Fresh /\ \E s \in Inits : New(s, r) /\ R("New", <<s>>, r))
   \/ (\E k \in Keys, p \in Prios : Update(k, p, r) /\ R("Update", <<k, p>>, r))
   \/ (\E k \in Keys : \/ (Remove(k, r) /\ R("Remove", <<k>>, r))
                       \/ (Contains(k, r) /\ R("Contains", <<k>>, r))
                       \/ (Priority(k, r) /\ R("Priority", <<k>>, r)))
   \/ (Pop(r) /\ R("Pop", <<>>, r)) \/ (Peek(r) /\ R("Peek", <<>>, r)) \/ (LenOp(r) /\ R("Len", <<>>, r))
   \/ (Grow(2, r) /\ R("Grow", <<2>>, r))
   \/ (\E i \in Iters : (Iterate(i, r) /\ R("Iterate", <<i>>, r)) \/ (IterNext(i, r) /\ R("IterNext", <<i>>, r)))
vars == <<pm, bits, op>>
Spec == Init /\ [][Next]_vars
View == <<pm, bits, Fresh>>
SetSeq(S) == LET RECURSIVE F(_) F(T) == IF T = {} THEN <<>> ELSE LET m == CHOOSE x \in T : \A y \in T : x <= y IN <<m>> \o F(T \ {m}) IN F(S)
PmSeq(f) == [i \in 1..Cardinality(Keys) |-> f[i]]          \* Keys = 1..K
LState == [pm |-> PmSeq(pm), bits |-> bits, fresh |-> Fresh]
LObs == [prio |-> PmSeq(pm), keys |-> SetSeq(Present(pm)), len |-> Cardinality(Present(pm))]
Dump == PrintT(<<"LTS", ToJson([from |-> LState, op |-> op', to |-> LState', obs |-> LObs'])>>)
LInit == Init /\ PrintT(<<"LTSINIT", ToJson([from |-> LState, obs |-> LObs])>>)
LSpec == LInit /\ [][Next]_vars
InitsA == {<<>>, <<<<1, 2>>, <<2, 1>>, <<3, 2>>>>, <<<<1, 3>>, <<2, 2>>, <<1, 1>>, <<3, 2>>, <<2, 3>>>>, <<<<2, 1>>, <<2, 1>>>>}
InitsB == {<<>>, <<<<1, 2>>, <<2, 1>>, <<3, 2>>>>}
=============================================================================
