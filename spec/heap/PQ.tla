--------------------------------- MODULE PQ ---------------------------------
(* I-layer of internal/heap.Heap + xheap.PriorityQueue (C05, C15): the heap array a (0-based slots,
   entries <<key, prio>>), the index map m (key -> slot, -1 = absent), and the code's algorithms
   written like heap.go: Push (append, percolateUp), Pop (move last to 0, percolateDown), RemoveAt
   (move last to i, percolateUp, percolateDown), UpdateAt, bottom-up heapify in New, swap notifying
   both indices. P-layer: pm (PQP.tla's mapping key -> prio, 0 = absent).
   TLC checks for every history over Keys x Prios that the array is a heap, the index map is the exact
   inverse of the array, the array denotes pm, and every Pop/Peek answer is a key of minimal priority.
   UpFix = FALSE models RemoveAt without percolateUp (a seeded defect) to show the invariants have teeth. *)
EXTENDS Integers, Sequences, FiniteSets, TLC, Json
CONSTANTS Keys, Prios, Inits, UpFix, PDiv
VARIABLES a, m, pm, op
vars == <<a, m, pm, op>>
Absent == 0
N(s) == Len(s)
At(s, i) == s[i + 1]                                   \* 0-based
Less(s, i, j) == At(s, i)[2] \div PDiv < At(s, j)[2] \div PDiv
Parent(i) == (i - 1) \div 2
\* a state of the inner heap: [a, m]
Notify(st, i) == [st EXCEPT !.m[At(st.a, i)[1]] = i]
Swap(st, i, j) ==
  LET a2 == [st.a EXCEPT ![i + 1] = At(st.a, j), ![j + 1] = At(st.a, i)] IN
  Notify(Notify([st EXCEPT !.a = a2], i), j)
RECURSIVE Up(_, _)
Up(st, i) == IF i <= 0 THEN st
             ELSE LET p == Parent(i) IN Up(IF Less(st.a, i, p) THEN Swap(st, i, p) ELSE st, p)
RECURSIVE Down(_, _)
Down(st, i) ==
  LET l == 2 * i + 1  r == 2 * i + 2  n == N(st.a) IN
  IF l >= n THEN st
  ELSE IF r >= n THEN (IF Less(st.a, l, i) THEN Down(Swap(st, l, i), l) ELSE st)
  ELSE LET least == IF Less(st.a, r, l) THEN r ELSE l IN
       IF Less(st.a, least, i) THEN Down(Swap(st, least, i), least) ELSE st
Cur == [a |-> a, m |-> m]
Set(st) == a' = st.a /\ m' = st.m
R(name, args, res) == op' = [name |-> name, args |-> args, res |-> res, alt |-> <<>>]
SetSeq(S) == LET RECURSIVE F(_) F(T) == IF T = {} THEN <<>> ELSE LET x == CHOOSE x \in T : \A y \in T : x <= y IN <<x>> \o F(T \ {x}) IN F(S)
MinKeysOf(f) == {k \in Keys : f[k] # 0 /\ \A j \in Keys : f[j] # 0 => f[k] \div PDiv <= f[j] \div PDiv}
\* a Pop/Peek answer: the model's own answer plus the other minima the property allows (ties)
RM(name, res) == op' = [name |-> name, args |-> <<>>, res |-> res, alt |-> SetSeq(MinKeysOf(pm) \ {res})]
\* ---- operations, as in xheap.go / heap.go
DoPush(st, k, p) == LET s1 == [st EXCEPT !.a = Append(st.a, <<k, p>>)] IN Up(Notify(s1, N(s1.a) - 1), N(s1.a) - 1)
DoUpdateAt(st, i, k, p) == LET s1 == Notify([st EXCEPT !.a[i + 1] = <<k, p>>], i) IN Down(Up(s1, i), i)
DoRemoveAt(st, i) ==
  LET n == N(st.a)
      s1 == [st EXCEPT !.a = SubSeq([st.a EXCEPT ![i + 1] = At(st.a, n - 1)], 1, n - 1)] IN
  IF i < n - 1 THEN Down((IF UpFix THEN Up(Notify(s1, i), i) ELSE Notify(s1, i)), i) ELSE s1
DoPop(st) ==
  LET n == N(st.a)
      s1 == [st EXCEPT !.a = SubSeq([st.a EXCEPT ![1] = At(st.a, n - 1)], 1, n - 1)]
      s2 == IF n - 1 > 0 THEN Notify(s1, 0) ELSE s1 IN
  Down(s2, 0)
Update(k, p) ==
  /\ Set(IF m[k] >= 0 THEN DoUpdateAt(Cur, m[k], k, p) ELSE DoPush(Cur, k, p))
  /\ pm' = [pm EXCEPT ![k] = p] /\ R("Update", <<k, p>>, -3)
Remove(k) ==
  /\ IF m[k] < 0 THEN UNCHANGED <<a, m, pm>>
     ELSE LET st == DoRemoveAt(Cur, m[k]) IN Set([st EXCEPT !.m[k] = -1]) /\ pm' = [pm EXCEPT ![k] = Absent]
  /\ R("Remove", <<k>>, -3)
Pop ==
  /\ a # <<>>
  /\ LET k == At(a, 0)[1]  st == DoPop(Cur) IN
     Set([st EXCEPT !.m[k] = -1]) /\ pm' = [pm EXCEPT ![k] = Absent] /\ RM("Pop", k)
Peek == a # <<>> /\ UNCHANGED <<a, m, pm>> /\ RM("Peek", At(a, 0)[1])
\* read-only calls and the calls on an empty queue (for the replayed graph)
PANIC == -1
PopEmpty == a = <<>> /\ UNCHANGED <<a, m, pm>> /\ R("Pop", <<>>, PANIC)
PeekEmpty == a = <<>> /\ UNCHANGED <<a, m, pm>> /\ R("Peek", <<>>, PANIC)
Contains(k) == UNCHANGED <<a, m, pm>> /\ R("Contains", <<k>>, IF pm[k] # Absent THEN 1 ELSE 0)
Priority(k) == UNCHANGED <<a, m, pm>> /\ R("Priority", <<k>>, pm[k])
LenOp == UNCHANGED <<a, m, pm>> /\ R("Len", <<>>, N(a))
\* NewPriorityQueue(initial): first occurrence of a key wins, then bottom-up heapify, then every index is notified
RECURSIVE Dedup(_, _)
Dedup(s, seen) == IF s = <<>> THEN <<>> ELSE IF Head(s)[1] \in seen THEN Dedup(Tail(s), seen) ELSE <<Head(s)>> \o Dedup(Tail(s), seen \cup {Head(s)[1]})
RECURSIVE Heapify(_, _)
Heapify(st, i) == IF i < 0 THEN st ELSE Heapify(Down(st, i), i - 1)
RECURSIVE NotifyAll(_, _)
NotifyAll(st, i) == IF i >= N(st.a) THEN st ELSE NotifyAll(Notify(st, i), i + 1)
New(init) ==
  /\ op.name = "init"
  /\ LET f == Dedup(init, {})
         st0 == [a |-> f, m |-> [k \in Keys |-> -1]]
         st == NotifyAll(Heapify(st0, N(f) \div 2 - 1), 0) IN
     /\ Set(st)
     /\ pm' = [k \in Keys |-> IF \E i \in 1..N(f) : f[i][1] = k THEN f[CHOOSE i \in 1..N(f) : f[i][1] = k][2] ELSE Absent]
  /\ R("New", <<init>>, -3)
Init == a = <<>> /\ m = [k \in Keys |-> -1] /\ pm = [k \in Keys |-> Absent] /\ op = [name |-> "init", args |-> <<>>, res |-> 0, alt |-> <<>>]
Next == \/ (\E k \in Keys, p \in Prios : Update(k, p)) \/ (\E k \in Keys : Remove(k)) \/ Pop \/ Peek
        \/ (\E s \in Inits : New(s))
        \/ PopEmpty \/ PeekEmpty \/ LenOp \/ (\E k \in Keys : Contains(k) \/ Priority(k))
Spec == Init /\ [][Next]_vars
\* ---- what TLC checks
HeapOrder == \A i \in 1..(N(a) - 1) : ~Less(a, i, Parent(i))
IndexExact == /\ \A i \in 0..(N(a) - 1) : m[At(a, i)[1]] = i
              /\ \A k \in Keys : m[k] >= 0 => (m[k] < N(a) /\ At(a, m[k])[1] = k)
Denotes == /\ \A k \in Keys : (pm[k] # Absent) <=> (m[k] >= 0)
           /\ \A i \in 0..(N(a) - 1) : pm[At(a, i)[1]] = At(a, i)[2]
Present == {k \in Keys : pm[k] # Absent}
\* the answer of Pop/Peek (judged in the state before the call, recorded in op) was a minimum
MinAnswer == [][(Pop \/ Peek) => \A k \in Present : pm[op'.res] \div PDiv <= pm[k] \div PDiv]_vars
View == <<a, m, pm, op.name = "init">>
PmSeq(f) == [i \in 1..Cardinality(Keys) |-> f[i]]
LState == [a |-> a, fresh |-> (op.name = "init")]
LObs == [prio |-> PmSeq(pm), keys |-> SetSeq({k \in Keys : pm[k] # Absent}), len |-> N(a)]
Dump == PrintT(<<"LTS", ToJson([from |-> LState, op |-> op', to |-> LState', obs |-> LObs'])>>)
LInit == Init /\ PrintT(<<"LTSINIT", ToJson([from |-> LState, obs |-> LObs])>>)
LSpec == LInit /\ [][Next]_vars
InitsPQ == {<<>>, <<<<1, 2>>, <<2, 1>>, <<3, 2>>>>, <<<<1, 3>>, <<2, 2>>, <<1, 1>>, <<3, 2>>, <<2, 3>>, <<4, 1>>>>}
=============================================================================
