----------------------------- MODULE Trace_PQ -----------------------------
(* Trace validation of xheap.PriorityQueue against PQP. *)
EXTENDS PQP
VARIABLE l
Trace == ndJsonDeserialize("trace.ndjson")
Ev == Trace[l]
tvars == <<pm, bits, op, l>>
TInit == PInit /\ op = 0 /\ l = 1 /\ TLCSet(1, 0)
A1 == Ev.args[1]
A2 == Ev.args[2]
Reset == Ev.op = "Reset" /\ pm' = [k \in Keys |-> Absent] /\ bits' = [i \in Iters |-> NoBit(Keys)]
\* New: the resulting mapping is not returned by the call; it is read off the observation
NewT == /\ Ev.res = OK
        /\ LET f == [k \in Keys |-> Ev.obs.prio[k]] IN
           /\ \A k \in Keys : IF Listed(A1, k) = {} THEN f[k] = Absent ELSE f[k] \in Listed(A1, k)
           /\ pm' = f
        /\ bits' = [i \in Iters |-> NoBit(Keys)]
Call ==
  \/ Ev.op = "New" /\ NewT
  \/ Ev.op = "Update" /\ Update(A1, A2, Ev.res)
  \/ Ev.op = "Remove" /\ Remove(A1, Ev.res)
  \/ Ev.op = "Contains" /\ Contains(A1, Ev.res)
  \/ Ev.op = "Priority" /\ Priority(A1, Ev.res)
  \/ Ev.op = "Pop" /\ Pop(Ev.res)
  \/ Ev.op = "Peek" /\ Peek(Ev.res)
  \/ Ev.op = "Len" /\ LenOp(Ev.res)
  \/ Ev.op = "Grow" /\ Grow(A1, Ev.res)
  \/ Ev.op = "Iterate" /\ Iterate(Ev.it, Ev.res)
  \/ Ev.op = "IterNext" /\ IterNext(Ev.it, Ev.res)
ObsOK == Ev.obs.prio = PmSeq(pm') /\ Ev.obs.keys = SetSeq(Present(pm')) /\ Ev.obs.len = Cardinality(Present(pm'))
TNext == /\ l <= Len(Trace) /\ l' = l + 1 /\ op' = op
         /\ (Reset \/ (Call /\ ObsOK))
TSpec == TInit /\ [][TNext]_tvars
HWM == TLCSet(1, IF TLCGet(1) < l THEN l ELSE TLCGet(1))
Accepted == PrintT(<<"HWM", TLCGet(1)>>) /\ TLCGet(1) = Len(Trace) + 1
=============================================================================
