SPECIFICATION TSpec
CONSTANTS
  PDiv = 3
  Keys = {1,2,3,4,5,6,7,8,9,10,11,12}
  Prios = {1,2,3,4,5,6,7,8,9}
  NIter = 3
  Inits = {}
CONSTRAINT HWM
POSTCONDITION Accepted
CHECK_DEADLOCK FALSE
