---------------------------- MODULE Trace_Heap ----------------------------
(* Trace validation of xheap.Heap against HeapP. *)
EXTENDS HeapP
VARIABLE l
Trace == ndJsonDeserialize("trace.ndjson")
Ev == Trace[l]
tvars == <<bag, bits, op, l>>
TInit == PInit /\ op = 0 /\ l = 1 /\ TLCSet(1, 0)
A1 == Ev.args[1]
Reset == Ev.op = "Reset" /\ bag' = EmptyBag(Items) /\ bits' = [i \in Iters |-> NoBit(Items)]
Call ==
  \/ Ev.op = "New" /\ New(A1, Ev.res)
  \/ Ev.op = "Push" /\ Push(A1, Ev.res)
  \/ Ev.op = "Pop" /\ Pop(Ev.res)
  \/ Ev.op = "Peek" /\ Peek(Ev.res)
  \/ Ev.op = "Len" /\ LenOp(Ev.res)
  \/ Ev.op = "Grow" /\ Grow(A1, Ev.res)
  \/ Ev.op = "Shrink" /\ Shrink(A1, Ev.res)
  \/ Ev.op = "Iterate" /\ Iterate(Ev.it, Ev.res)
  \/ Ev.op = "IterNext" /\ IterNext(Ev.it, Ev.res)
ObsOK == Ev.obs.items = BagSeq(bag') /\ Ev.obs.len = Size(bag')
TNext == /\ l <= Len(Trace) /\ l' = l + 1 /\ op' = op
         /\ (Reset \/ (Call /\ ObsOK))
TSpec == TInit /\ [][TNext]_tvars
HWM == TLCSet(1, IF TLCGet(1) < l THEN l ELSE TLCGet(1))
Accepted == PrintT(<<"HWM", TLCGet(1)>>) /\ TLCGet(1) = Len(Trace) + 1
TItems == {10 * p + i : p \in 1..5, i \in 1..3}
=============================================================================
