SPECIFICATION LSpec
CONSTANTS
  PDiv = 2
  Keys = {1,2,3,4,5}
  Prios = {1,2,3}
  Inits <- InitsPQ
  UpFix = TRUE
VIEW View
ACTION_CONSTRAINT Dump
