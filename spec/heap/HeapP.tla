------------------------------- MODULE HeapP -------------------------------
(* P-layer of container/xheap.Heap (C05, C15): a multiset with minimum extraction.
   An item is the integer 10*prio + id; the order given to the heap looks at prio only, so items
   with equal prio are ties and Pop/Peek may return any of them. *)
EXTENDS Integers, Sequences, FiniteSets, TLC, Json, BagIter
CONSTANTS Items, MaxSize, NIter, Inits
VARIABLES bag, bits, op
Prio(x) == x \div 10
Less(a, b) == Prio(a) < Prio(b)
Size(b) == LET RECURSIVE S(_) S(T) == IF T = {} THEN 0 ELSE LET x == CHOOSE x \in T : TRUE IN b[x] + S(T \ {x}) IN S(Items)
Held(b) == {x \in Items : b[x] > 0}
Minima(b) == {x \in Held(b) : ~\E y \in Held(b) : Less(y, x)}
Iters == 1..NIter
AllAR == [i \in Iters |-> BitAddRemove(bits[i], Items)]
Unch == UNCHANGED <<bag, bits>>
BagOf(s) == [x \in Items |-> Cardinality({i \in 1..Len(s) : s[i] = x})]

\* New(less, initial): any initial slice
New(init, r) == r = OK /\ bag' = BagOf(init) /\ bits' = [i \in Iters |-> NoBit(Items)]
Push(x, r) == r = OK /\ bag' = [bag EXCEPT ![x] = @ + 1] /\ bits' = AllAR
Pop(r) == IF Held(bag) = {} THEN r = PANIC /\ Unch
          ELSE r \in Minima(bag) /\ bag' = [bag EXCEPT ![r] = @ - 1] /\ bits' = AllAR
Peek(r) == IF Held(bag) = {} THEN r = PANIC /\ Unch ELSE r \in Minima(bag) /\ Unch
LenOp(r) == r = Size(bag) /\ Unch
Grow(n, r) == r = OK /\ Unch          \* capacity only: not a change of the contents
Shrink(n, r) == r = OK /\ Unch
Iterate(k, r) == r = OK /\ bag' = bag /\ bits' = [bits EXCEPT ![k] = BitNew(bag, Items)]
IterNext(k, r) == /\ bits[k].live /\ r \in BAllowed(bits[k], bag, Items)
                  /\ bag' = bag /\ bits' = [bits EXCEPT ![k] = BitAfter(bits[k], bag, r, Items)]

R(name, args, res) == op' = [name |-> name, args |-> args, res |-> res]
Results == Items \cup {PANIC, END, OK} \cup 0..MaxSize
PInit == bag = EmptyBag(Items) /\ bits = [i \in Iters |-> NoBit(Items)]
Init == PInit /\ op = [name |-> "init", args |-> <<>>, res |-> OK]
Fresh == op.name = "init"
Next == \E r \in Results :
   \/ (Fresh /\ \E s \in Inits : New(s, r) /\ R("New", <<s>>, r))
   \/ (\E x \in Items : Size(bag) < MaxSize /\ Push(x, r) /\ R("Push", <<x>>, r))
   \/ (Pop(r) /\ R("Pop", <<>>, r)) \/ (Peek(r) /\ R("Peek", <<>>, r)) \/ (LenOp(r) /\ R("Len", <<>>, r))
   \/ (Grow(2, r) /\ R("Grow", <<2>>, r)) \/ (Shrink(0, r) /\ R("Shrink", <<0>>, r))
   \/ (\E k \in Iters : (Iterate(k, r) /\ R("Iterate", <<k>>, r)) \/ (IterNext(k, r) /\ R("IterNext", <<k>>, r)))
vars == <<bag, bits, op>>
Spec == Init /\ [][Next]_vars
\* "New" is only possible as the first call: keep that fact in the view
View == <<bag, bits, Fresh>>
SetSeq(S) == LET RECURSIVE F(_) F(T) == IF T = {} THEN <<>> ELSE LET m == CHOOSE x \in T : \A y \in T : x <= y IN <<m>> \o F(T \ {m}) IN F(S)
RECURSIVE Rep(_, _)
Rep(x, n) == IF n = 0 THEN <<>> ELSE <<x>> \o Rep(x, n - 1)
RECURSIVE Flat(_, _)
Flat(b, s) == IF s = <<>> THEN <<>> ELSE Rep(Head(s), b[Head(s)]) \o Flat(b, Tail(s))
BagSeq(b) == Flat(b, SetSeq(Items))                      \* sorted list of the held items
LState == [bag |-> BagSeq(bag), bits |-> bits, fresh |-> Fresh]
LObs == [items |-> BagSeq(bag), len |-> Size(bag)]
Dump == PrintT(<<"LTS", ToJson([from |-> LState, op |-> op', to |-> LState', obs |-> LObs'])>>)
LInit == Init /\ PrintT(<<"LTSINIT", ToJson([from |-> LState, obs |-> LObs])>>)
LSpec == LInit /\ [][Next]_vars
\* initial slices used by the bounded graphs
Inits2 == {<<>>, <<21, 11>>, <<21, 11, 12>>, <<31, 21, 11, 12>>, <<11, 11>>}
Inits3 == {<<>>, <<21, 11, 12>>}
=============================================================================
