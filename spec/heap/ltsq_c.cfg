SPECIFICATION LSpec
CONSTANTS
  PDiv = 2
  Keys = {1,2,3,4}
  Prios = {1,2,3}
  NIter = 0
  Inits <- InitsA
VIEW View
ACTION_CONSTRAINT Dump
