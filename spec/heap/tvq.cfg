SPECIFICATION TSpec
CONSTANTS
  Keys = {1,2,3,4,5,6,7,8,9,10,11,12}
  Prios = {1,2,3,4,5,6}
  NIter = 3
  Inits = {}
CONSTRAINT HWM
POSTCONDITION Accepted
CHECK_DEADLOCK FALSE
