SPECIFICATION Spec
CONSTANTS
  PDiv = 2
  Keys = {1,2,3,4,5}
  Prios = {1,2,3}
  Inits <- InitsPQ
  UpFix = TRUE
VIEW View
INVARIANTS HeapOrder IndexExact Denotes
PROPERTY MinAnswer
