------------------------------ MODULE BagIter ------------------------------
(* C15, P-layer for heap-like containers: the iterator yields every element of a snapshot once, in
   any order. A bag over the universe U is a function U -> Nat. p.y = bag of the elements yielded so
   far; p.cands = snapshots that are still consistent with what was yielded (the snapshot is taken
   at Iterate() or lazily at the first Next). started / touched / structural as in SnapIter. *)
EXTENDS Integers, FiniteSets
PANIC == -1
END == -2
OK == -3
EmptyBag(U) == [x \in U |-> 0]
NoBit(U) == [live |-> FALSE, y |-> EmptyBag(U), cands |-> {}, started |-> FALSE, touched |-> FALSE, structural |-> FALSE]
BitNew(cur, U) == [live |-> TRUE, y |-> EmptyBag(U), cands |-> {cur}, started |-> FALSE, touched |-> FALSE, structural |-> FALSE]
BCands(p, cur) == IF p.started THEN p.cands ELSE p.cands \cup {cur}
BAllowed(p, cur, U) ==
  IF p.structural THEN {PANIC}
  ELSE (IF p.touched THEN {PANIC} ELSE {})
       \cup {x \in U : \E c \in BCands(p, cur) : p.y[x] < c[x]}
       \cup (IF \E c \in BCands(p, cur) : c = p.y THEN {END} ELSE {})
\* once only a panic is allowed the rest of the iterator state is irrelevant: normalise it
Doomed(U) == [live |-> TRUE, y |-> EmptyBag(U), cands |-> {}, started |-> TRUE, touched |-> TRUE, structural |-> TRUE]
BitAddRemove(p, U) == IF p.live THEN (IF p.started THEN Doomed(U) ELSE [p EXCEPT !.touched = TRUE]) ELSE p
BitTouch(p) == IF p.live THEN [p EXCEPT !.touched = TRUE] ELSE p
BitAfter(p, cur, res, U) ==
  IF res = PANIC THEN NoBit(U)
  ELSE IF res = END THEN [p EXCEPT !.started = TRUE, !.cands = {c \in BCands(p, cur) : c = p.y}]
  ELSE LET y2 == [p.y EXCEPT ![res] = @ + 1] IN
       [p EXCEPT !.started = TRUE, !.y = y2, !.cands = {c \in BCands(p, cur) : \A x \in U : y2[x] <= c[x]}]
=============================================================================
