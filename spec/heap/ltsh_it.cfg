SPECIFICATION LSpec
CONSTANTS
  Items = {11, 12, 21}
  MaxSize = 3
  NIter = 1
  Inits <- Inits3
VIEW View
ACTION_CONSTRAINT Dump
