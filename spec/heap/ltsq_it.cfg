SPECIFICATION LSpec
CONSTANTS
  PDiv = 1
  Keys = {1,2,3}
  Prios = {1,2}
  NIter = 1
  Inits <- InitsB
VIEW View
ACTION_CONSTRAINT Dump
