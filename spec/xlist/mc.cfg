SPECIFICATION Spec
CONSTANTS
  Ids = {1,2,3,4,5}
  MaxLen = 4
VIEW View
INVARIANT Refines
