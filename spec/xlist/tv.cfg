SPECIFICATION TSpec
CONSTANTS
  Ids = {1,2,3,4,5,6,7,8,9,10}
  MaxLen = 9
CONSTRAINT HWM
INVARIANT Refines
POSTCONDITION Accepted
CHECK_DEADLOCK FALSE
