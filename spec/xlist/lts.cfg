SPECIFICATION LSpec
CONSTANTS
  Ids = {1,2,3,4}
  MaxLen = 3
VIEW View
ACTION_CONSTRAINT Dump
