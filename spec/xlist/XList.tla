---------------------------- MODULE XList ----------------------------
(* container/xlist.List (C06).
   P-layer: s = the ideal sequence of node handles, removed = handles passed to Remove (and not re-used).
   I-layer: the code's prev/next/front/back/size, one action per method, written like xlist.go.
   Node handles are small integers; a new node takes the smallest id not in the list; its Value is its id. *)
EXTENDS Integers, Sequences, FiniteSets, TLC, Json
CONSTANTS Ids, MaxLen
Nil == 0
VARIABLES s, removed,                    \* P-layer
          nxt, prv, front, back, size,   \* I-layer
          op                             \* last call (name, args, result) - output only, not in VIEW
pvars == <<s, removed>>
ivars == <<nxt, prv, front, back, size>>
vars == <<s, removed, nxt, prv, front, back, size, op>>

Elems(q) == {q[i] : i \in 1..Len(q)}
Fresh == CHOOSE i \in Ids \ Elems(s) : \A j \in Ids \ Elems(s) : i <= j
Pos(n) == CHOOSE i \in 1..Len(s) : s[i] = n
Without(q, n) == SelectSeq(q, LAMBDA x : x # n)
InsertAt(q, i, n) == SubSeq(q, 1, i - 1) \o <<n>> \o SubSeq(q, i, Len(q))     \* n becomes q'[i]
R(name, args, res) == op' = [name |-> name, args |-> args, res |-> res]

Init == /\ s = <<>> /\ removed = {}
        /\ nxt = [i \in Ids |-> Nil] /\ prv = [i \in Ids |-> Nil] /\ front = Nil /\ back = Nil /\ size = 0
        /\ op = [name |-> "init", args |-> <<>>, res |-> 0]

\* ---- I-layer helpers (functional versions of the code's pointer updates)
\* l.remove(node): returns [nxt, prv, front, back]
IRemove(st, n) ==
  LET f1 == IF st.front = n THEN st.nxt[st.front] ELSE st.front
      nx1 == IF st.front = n THEN st.nxt ELSE [st.nxt EXCEPT ![st.prv[n]] = st.nxt[n]]
      b1 == IF st.back = n THEN st.prv[st.back] ELSE st.back
      pv1 == IF st.back = n THEN st.prv ELSE [st.prv EXCEPT ![st.nxt[n]] = st.prv[n]]
  IN [nxt |-> nx1, prv |-> pv1, front |-> f1, back |-> b1]
Cur == [nxt |-> nxt, prv |-> prv, front |-> front, back |-> back]
SetI(st) == nxt' = st.nxt /\ prv' = st.prv /\ front' = st.front /\ back' = st.back

PushFront ==
  /\ Len(s) < MaxLen
  /\ LET n == Fresh IN
     /\ s' = <<n>> \o s /\ removed' = removed \ {n}
     /\ nxt' = [nxt EXCEPT ![n] = front]
     /\ prv' = IF front # Nil THEN [prv EXCEPT ![front] = n, ![n] = Nil] ELSE [prv EXCEPT ![n] = Nil]
     /\ front' = n /\ back' = (IF back = Nil THEN n ELSE back) /\ size' = size + 1
     /\ R("PushFront", <<n>>, n)
PushBack ==
  /\ Len(s) < MaxLen
  /\ LET n == Fresh IN
     /\ s' = Append(s, n) /\ removed' = removed \ {n}
     /\ prv' = [prv EXCEPT ![n] = back]
     /\ nxt' = IF back # Nil THEN [nxt EXCEPT ![back] = n, ![n] = Nil] ELSE [nxt EXCEPT ![n] = Nil]
     /\ back' = n /\ front' = (IF front = Nil THEN n ELSE front) /\ size' = size + 1
     /\ R("PushBack", <<n>>, n)
InsertBefore(mark) ==
  /\ Len(s) < MaxLen /\ mark \in Elems(s)
  /\ LET n == Fresh  p == prv[mark] IN
     /\ s' = InsertAt(s, Pos(mark), n) /\ removed' = removed \ {n}
     /\ prv' = [prv EXCEPT ![n] = p, ![mark] = n]
     /\ nxt' = IF p # Nil THEN [nxt EXCEPT ![n] = mark, ![p] = n] ELSE [nxt EXCEPT ![n] = mark]
     /\ front' = (IF front = mark THEN n ELSE front) /\ back' = back /\ size' = size + 1
     /\ R("InsertBefore", <<n, mark>>, n)
InsertAfter(mark) ==
  /\ Len(s) < MaxLen /\ mark \in Elems(s)
  /\ LET n == Fresh  q == nxt[mark] IN
     /\ s' = InsertAt(s, Pos(mark) + 1, n) /\ removed' = removed \ {n}
     /\ nxt' = [nxt EXCEPT ![n] = q, ![mark] = n]
     /\ prv' = IF q # Nil THEN [prv EXCEPT ![n] = mark, ![q] = n] ELSE [prv EXCEPT ![n] = mark]
     /\ back' = (IF back = mark THEN n ELSE back) /\ front' = front /\ size' = size + 1
     /\ R("InsertAfter", <<n, mark>>, n)
Remove(n) ==
  /\ n \in Elems(s)
  /\ s' = Without(s, n) /\ removed' = removed \cup {n}
  /\ LET st == IRemove(Cur, n) IN
     SetI([st EXCEPT !.nxt = [st.nxt EXCEPT ![n] = Nil], !.prv = [st.prv EXCEPT ![n] = Nil]])
  /\ size' = size - 1
  /\ R("Remove", <<n>>, 0)
MoveBefore(n, mark) ==
  /\ n \in Elems(s) /\ mark \in Elems(s)
  /\ UNCHANGED <<removed, size>>
  /\ R("MoveBefore", <<n, mark>>, 0)
  /\ IF n = mark THEN UNCHANGED <<s, nxt, prv, front, back>>
     ELSE /\ s' = LET w == Without(s, n) IN InsertAt(w, (CHOOSE i \in 1..Len(w) : w[i] = mark), n)
          /\ LET st == IRemove(Cur, n)
                 p == st.prv[mark]
                 pv == [st.prv EXCEPT ![n] = p, ![mark] = n]
                 nx0 == [st.nxt EXCEPT ![n] = mark]
                 nx == IF p # Nil THEN [nx0 EXCEPT ![p] = n] ELSE nx0
             IN SetI([nxt |-> nx, prv |-> pv, front |-> IF st.front = mark THEN n ELSE st.front, back |-> st.back])
MoveAfter(n, mark) ==
  /\ n \in Elems(s) /\ mark \in Elems(s)
  /\ UNCHANGED <<removed, size>>
  /\ R("MoveAfter", <<n, mark>>, 0)
  /\ IF n = mark THEN UNCHANGED <<s, nxt, prv, front, back>>
     ELSE /\ s' = LET w == Without(s, n) IN InsertAt(w, (CHOOSE i \in 1..Len(w) : w[i] = mark) + 1, n)
          /\ LET st == IRemove(Cur, n)
                 q == st.nxt[mark]
                 nx == [st.nxt EXCEPT ![n] = q, ![mark] = n]
                 pv0 == [st.prv EXCEPT ![n] = mark]
                 pv == IF q # Nil THEN [pv0 EXCEPT ![q] = n] ELSE pv0
             IN SetI([nxt |-> nx, prv |-> pv, front |-> st.front, back |-> IF st.back = mark THEN n ELSE st.back])
\* MoveToFront(n) = MoveBefore(n, Front()); MoveToBack(n) = MoveAfter(n, Back())
MoveToFront(n) ==
  /\ n \in Elems(s)
  /\ UNCHANGED <<removed, size>>
  /\ R("MoveToFront", <<n>>, 0)
  /\ LET mark == front IN
     IF n = mark THEN UNCHANGED <<s, nxt, prv, front, back>>
     ELSE /\ s' = <<n>> \o Without(s, n)
          /\ LET st == IRemove(Cur, n)
                 p == st.prv[mark]
                 pv == [st.prv EXCEPT ![n] = p, ![mark] = n]
                 nx0 == [st.nxt EXCEPT ![n] = mark]
                 nx == IF p # Nil THEN [nx0 EXCEPT ![p] = n] ELSE nx0
             IN SetI([nxt |-> nx, prv |-> pv, front |-> IF st.front = mark THEN n ELSE st.front, back |-> st.back])
MoveToBack(n) ==
  /\ n \in Elems(s)
  /\ UNCHANGED <<removed, size>>
  /\ R("MoveToBack", <<n>>, 0)
  /\ LET mark == back IN
     IF n = mark THEN UNCHANGED <<s, nxt, prv, front, back>>
     ELSE /\ s' = Append(Without(s, n), n)
          /\ LET st == IRemove(Cur, n)
                 q == st.nxt[mark]
                 nx == [st.nxt EXCEPT ![n] = q, ![mark] = n]
                 pv0 == [st.prv EXCEPT ![n] = mark]
                 pv == IF q # Nil THEN [pv0 EXCEPT ![q] = n] ELSE pv0
             IN SetI([nxt |-> nx, prv |-> pv, front |-> st.front, back |-> IF st.back = mark THEN n ELSE st.back])
\* Clear is O(1): the dropped nodes keep their links (they are not "removed" in the sense of the property)
Clear ==
  /\ s' = <<>> /\ UNCHANGED removed
  /\ front' = Nil /\ back' = Nil /\ size' = 0 /\ UNCHANGED <<nxt, prv>>
  /\ R("Clear", <<>>, 0)

Next == \/ PushFront \/ PushBack \/ Clear
        \/ (\E m \in Ids : InsertBefore(m) \/ InsertAfter(m) \/ Remove(m) \/ MoveToFront(m) \/ MoveToBack(m))
        \/ (\E n \in Ids, m \in Ids : MoveBefore(n, m) \/ MoveAfter(n, m))
Spec == Init /\ [][Next]_vars

\* ---- refinement: what the property says about the pointer structure
RECURSIVE Walk(_, _, _)
Walk(f, n, fuel) == IF n = Nil \/ fuel = 0 THEN <<>> ELSE <<n>> \o Walk(f, f[n], fuel - 1)
Rev(q) == [i \in 1..Len(q) |-> q[Len(q) + 1 - i]]
FwdOK == Walk(nxt, front, Cardinality(Ids) + 1) = s
BwdOK == Walk(prv, back, Cardinality(Ids) + 1) = Rev(s)
SizeOK == size = Len(s)
EndsOK == (front # Nil => prv[front] = Nil) /\ (back # Nil => nxt[back] = Nil) /\ ((front = Nil) <=> (back = Nil))
RemovedOK == \A n \in removed : nxt[n] = Nil /\ prv[n] = Nil
NoDup == \A i, j \in 1..Len(s) : s[i] = s[j] => i = j
Refines == FwdOK /\ BwdOK /\ SizeOK /\ EndsOK /\ RemovedOK /\ NoDup

\* ---- LTS export
View == <<s, removed, nxt, prv, front, back, size>>
SetSeq(S) == LET RECURSIVE F(_) F(T) == IF T = {} THEN <<>> ELSE LET m == CHOOSE x \in T : \A y \in T : x <= y IN <<m>> \o F(T \ {m}) IN F(S)
LState == [s |-> s, removed |-> SetSeq(removed), nxt |-> nxt, prv |-> prv]
LObs == [fwd |-> s, bwd |-> Rev(s), len |-> Len(s), removed |-> SetSeq(removed)]
Dump == PrintT(<<"LTS", ToJson([from |-> LState, op |-> op', to |-> LState', obs |-> LObs'])>>)
LInit == Init /\ PrintT(<<"LTSINIT", ToJson([from |-> LState, obs |-> LObs])>>)
LSpec == LInit /\ [][Next]_vars
=======================================================================
