---------------------------- MODULE Trace_XList ----------------------------
(* Trace validation for container/xlist: every recorded call of a real list, with the full
   observation (both walks, Len, removed handles) made after it, must be a step of XList. *)
EXTENDS XList
VARIABLE l
Trace == ndJsonDeserialize("trace.ndjson")
Ev == Trace[l]
tvars == <<vars, l>>
TInit == Init /\ l = 1 /\ TLCSet(1, 0)
A1 == Ev.args[1]
A2 == Ev.args[2]
TReset == /\ Ev.op = "Reset"
          /\ s' = <<>> /\ removed' = {}
          /\ nxt' = [i \in Ids |-> Nil] /\ prv' = [i \in Ids |-> Nil] /\ front' = Nil /\ back' = Nil /\ size' = 0
          /\ op' = [name |-> "init", args |-> <<>>, res |-> 0]
Call == \/ Ev.op = "PushFront" /\ PushFront /\ op'.args[1] = A1
        \/ Ev.op = "PushBack" /\ PushBack /\ op'.args[1] = A1
        \/ Ev.op = "InsertBefore" /\ InsertBefore(A2) /\ op'.args[1] = A1
        \/ Ev.op = "InsertAfter" /\ InsertAfter(A2) /\ op'.args[1] = A1
        \/ Ev.op = "Remove" /\ Remove(A1)
        \/ Ev.op = "MoveBefore" /\ MoveBefore(A1, A2)
        \/ Ev.op = "MoveAfter" /\ MoveAfter(A1, A2)
        \/ Ev.op = "MoveToFront" /\ MoveToFront(A1)
        \/ Ev.op = "MoveToBack" /\ MoveToBack(A1)
        \/ Ev.op = "Clear" /\ Clear
TNext == /\ l <= Len(Trace) /\ l' = l + 1
         /\ \/ TReset
            \/ Call /\ LObs' = Ev.obs
TSpec == TInit /\ [][TNext]_tvars
HWM == TLCSet(1, IF TLCGet(1) < l THEN l ELSE TLCGet(1))
Accepted == PrintT(<<"HWM", TLCGet(1)>>) /\ TLCGet(1) = Len(Trace) + 1
=============================================================================
