----------------------------- MODULE JitterTicker -----------------------------
(* I-layer of xtime.JitterTicker (C20) over a discrete clock: the mutex-protected fields d, jitter, gen,
   the timer (armed with a deadline drawn from [d - jitter, d + jitter)), the callbacks time.AfterFunc
   starts when a timer fires (each remembers the gen it was scheduled under and must take the mutex),
   the channel of capacity 1, Stop (timer.Stop, gen++) and Reset.
   StopBumpsGen = FALSE models Stop relying on timer.Stop alone (a seeded defect): a callback that has
   already been started then still ticks and re-arms the ticker. *)
EXTENDS Integers, FiniteSets, Sequences, TLC
CONSTANTS D, J, MaxT, StopBumpsGen, Resets      \* Resets: set of <<d, j>> pairs Reset may install
VARIABLES now, d, j, gen, armed, deadline, tgen, cbs, chan, ticks, stopped, stoppedAt, nreset
\* cbs: set of gens of callbacks that have been started by a fired timer and have not run yet
vars == <<now, d, j, gen, armed, deadline, tgen, cbs, chan, ticks, stopped, stoppedAt, nreset>>
Un(vs) == UNCHANGED vs
Delays(dd, jj) == IF jj = 0 THEN {dd} ELSE (dd - jj)..(dd + jj - 1)
Init == /\ now = 0 /\ d = D /\ j = J /\ gen = 1 /\ armed = TRUE /\ deadline \in {x : x \in Delays(D, J)} /\ tgen = 1
        /\ cbs = {} /\ chan = <<>> /\ ticks = <<>> /\ stopped = FALSE /\ stoppedAt = -1 /\ nreset = 0
\* time passes only while no armed timer is due (timers fire on time) - callbacks may still be pending
Tick == /\ now < MaxT /\ ~(armed /\ deadline <= now) /\ now' = now + 1
        /\ Un(<<d, j, gen, armed, deadline, tgen, cbs, chan, ticks, stopped, stoppedAt, nreset>>)
Fire == /\ armed /\ deadline <= now /\ armed' = FALSE /\ cbs' = cbs \cup {tgen}
        /\ Un(<<now, d, j, gen, deadline, tgen, chan, ticks, stopped, stoppedAt, nreset>>)
\* the callback: lock; if gen matches: non-blocking send of time.Now(), schedule(); unlock
CbRun(g) == /\ g \in cbs /\ cbs' = cbs \ {g}
            /\ IF g = gen
               THEN /\ (IF Len(chan) < 1 THEN chan' = Append(chan, now) /\ ticks' = Append(ticks, [ts |-> now, d |-> d, j |-> j, afterStop |-> stopped])
                        ELSE Un(<<chan, ticks>>))
                    /\ gen' = gen + 1 /\ tgen' = gen + 1 /\ armed' = TRUE /\ \E dl \in Delays(d, j) : deadline' = now + dl
               ELSE Un(<<chan, ticks, gen, tgen, armed, deadline>>)
            /\ Un(<<now, d, j, stopped, stoppedAt, nreset>>)
Recv == /\ chan # <<>> /\ chan' = Tail(chan)
        /\ Un(<<now, d, j, gen, armed, deadline, tgen, cbs, ticks, stopped, stoppedAt, nreset>>)
Stop == /\ ~stopped /\ stopped' = TRUE /\ stoppedAt' = now /\ armed' = FALSE
        /\ gen' = (IF StopBumpsGen THEN gen + 1 ELSE gen)
        /\ Un(<<now, d, j, deadline, tgen, cbs, chan, ticks, nreset>>)
Reset(dd, jj) == /\ ~stopped /\ nreset < 1 /\ nreset' = nreset + 1 /\ d' = dd /\ j' = jj
                 /\ gen' = gen + 1 /\ tgen' = gen + 1 /\ armed' = TRUE /\ \E dl \in Delays(dd, jj) : deadline' = now + dl
                 /\ Un(<<now, cbs, chan, ticks, stopped, stoppedAt>>)
Next == Tick \/ Fire \/ Recv \/ Stop \/ (\E g \in cbs : CbRun(g)) \/ (\E r \in Resets : Reset(r[1], r[2]))
Spec == Init /\ [][Next]_vars
\* consecutive ticks are at least d - jitter apart (with the parameters in force at the later tick)
Spacing == \A i \in 2..Len(ticks) : ticks[i].ts - ticks[i - 1].ts >= ticks[i].d - ticks[i].j
\* no tick is sent after Stop returned
NoTickAfterStop == \A i \in 1..Len(ticks) : ~ticks[i].afterStop
R0 == {}
R1 == {<<2, 0>>, <<3, 1>>}
View == <<now, d, j, gen - tgen, armed, deadline - now, cbs, chan, stopped, nreset, IF ticks = <<>> THEN <<>> ELSE <<ticks[Len(ticks)]>>>>
==============================================================================
