----------------------------- MODULE Trace_XTime -----------------------------
(* C20: monitors for xtime.SleepContext and xtime.JitterTicker histories recorded in fake-clock
   bubbles (times in ms of fake time, exact).
   sleep(t0, d, dl, t1, res): one SleepContext call: started at t0 with duration d; dl = the context's
     deadline (-1: none); cancelAt = when the harness cancelled the context (-1: never; may equal t0 =
     already cancelled); returned at t1 with res "nil" | "toosoon" | "ctx".
   jt: new(d, j, panic), reset(d, j, panic, t), tick(ts, t) = a tick carrying timestamp ts was received
     at t, stop(t) = Stop returned at t. *)
EXTENDS Integers, Sequences, FiniteSets, TLC, Json
Trace == ndJsonDeserialize("trace.ndjson")
VARIABLES d, j, pd, pj, rat, lastTick, stoppedAt, l
vars == <<d, j, pd, pj, rat, lastTick, stoppedAt, l>>
\* pd, pj: the settings before the last Reset, rat: when that Reset was recorded. A tick whose timestamp is not later than
\* the Reset may still have been sent under the old settings (the Reset and the timer's callback race).
Ev == Trace[l]
Init == d = 0 /\ j = 0 /\ pd = 0 /\ pj = 0 /\ rat = -1 /\ lastTick = -1 /\ stoppedAt = -1 /\ l = 1 /\ TLCSet(1, 0)
Un(vs) == UNCHANGED vs
\* when does the context end (deadline or cancellation), -1 = never
CtxEnd(e) == IF e.dl >= 0 /\ e.cancelAt >= 0 THEN (IF e.dl < e.cancelAt THEN e.dl ELSE e.cancelAt)
             ELSE IF e.dl >= 0 THEN e.dl ELSE e.cancelAt
SleepOK(e) ==
  LET end == CtxEnd(e) IN
  IF e.d <= 0 THEN e.res = "nil" /\ e.t1 = e.t0                                   \* at once when d <= 0
  ELSE IF e.dl >= 0 /\ e.dl - e.t0 < e.d                                          \* deadline closer than d
       THEN e.res = "toosoon" /\ e.t1 = e.t0                                      \* ... DeadlineTooSoonError immediately (also when the context is already over)
       ELSE /\ e.res # "toosoon"                                                  \* ... and only then
            /\ \/ e.res = "nil" /\ e.t1 - e.t0 >= e.d /\ ~(end >= 0 /\ end < e.t0 + e.d)   \* nil only after at least d
               \/ e.res = "ctx" /\ end >= 0 /\ end <= e.t0 + e.d /\ e.t1 = (IF end > e.t0 THEN end ELSE e.t0)   \* the context ended first
            /\ e.t1 <= e.t0 + e.d                                                 \* it does not oversleep in fake time
\* a call measured on the real clock (vh rt, pre-1.23 timer semantics): t0 is read before the call and t1 after it, so
\* only the lower bound and the classification of the result can be judged
RSleepOK(e) == /\ (e.res = "nil" => (e.d <= 0 \/ e.t1 - e.t0 >= e.d))
               /\ (e.res = "ctx" => (e.dl >= 0 \/ e.cancelAt >= 0))
               /\ (e.res = "toosoon" => e.dl >= 0)
               /\ e.res \in {"nil", "ctx", "toosoon"}
Next ==
  /\ l <= Len(Trace) /\ l' = l + 1
  /\ CASE Ev.ev = "reset" -> d' = 0 /\ j' = 0 /\ pd' = 0 /\ pj' = 0 /\ rat' = -1 /\ lastTick' = -1 /\ stoppedAt' = -1
       [] Ev.ev = "sleep" -> (SleepOK(Ev) = TRUE) /\ Un(<<d, j, pd, pj, rat, lastTick, stoppedAt>>)
       [] Ev.ev = "rsleep" -> (RSleepOK(Ev) = TRUE) /\ Un(<<d, j, pd, pj, rat, lastTick, stoppedAt>>)
       \* any d > 0 and 0 <= jitter < d is accepted without a panic
       [] Ev.ev = "new" -> Ev.panic = 0 /\ d' = Ev.d /\ j' = Ev.j /\ pd' = Ev.d /\ pj' = Ev.j /\ rat' = -1 /\ Un(<<lastTick, stoppedAt>>)
       [] Ev.ev = "jreset" -> Ev.panic = 0 /\ d' = Ev.d /\ j' = Ev.j /\ pd' = d /\ pj' = j /\ rat' = Ev.t /\ stoppedAt' = -1 /\ Un(<<lastTick>>)
       [] Ev.ev = "tick" ->
            /\ (lastTick >= 0 => Ev.ts - lastTick >= (IF Ev.ts <= rat /\ pd - pj < d - j THEN pd - pj ELSE d - j))   \* consecutive ticks at least d - jitter apart
            /\ (stoppedAt >= 0 => Ev.ts <= stoppedAt)               \* no tick is sent after Stop returned
            /\ lastTick' = Ev.ts /\ Un(<<d, j, pd, pj, rat, stoppedAt>>)
       [] Ev.ev = "stop" -> stoppedAt' = Ev.t /\ Un(<<d, j, pd, pj, rat, lastTick>>)
       [] Ev.ev \in {"adv", "q", "leak"} -> Un(<<d, j, pd, pj, rat, lastTick, stoppedAt>>)
Spec == Init /\ [][Next]_vars
HWM == TLCSet(1, IF TLCGet(1) < l THEN l ELSE TLCGet(1))
Accepted == PrintT(<<"HWM", TLCGet(1)>>) /\ TLCGet(1) = Len(Trace) + 1
==============================================================================
