SPECIFICATION Spec
CONSTANTS
  D = 3
  J = 2
  MaxT = 8
  StopBumpsGen = TRUE
  Resets <- R1
INVARIANTS Spacing NoTickAfterStop
CHECK_DEADLOCK FALSE
