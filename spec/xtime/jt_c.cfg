SPECIFICATION Spec
CONSTANTS
  D = 2
  J = 1
  MaxT = 7
  StopBumpsGen = TRUE
  Resets <- R0
INVARIANTS Spacing NoTickAfterStop
CHECK_DEADLOCK FALSE
