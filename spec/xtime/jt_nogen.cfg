SPECIFICATION Spec
CONSTANTS
  D = 2
  J = 0
  MaxT = 7
  StopBumpsGen = FALSE
  Resets <- R0
INVARIANTS Spacing NoTickAfterStop
CHECK_DEADLOCK FALSE
