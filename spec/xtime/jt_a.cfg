SPECIFICATION Spec
CONSTANTS
  D = 2
  J = 0
  MaxT = 7
  StopBumpsGen = TRUE
  Resets <- R1
INVARIANTS Spacing NoTickAfterStop
CHECK_DEADLOCK FALSE
