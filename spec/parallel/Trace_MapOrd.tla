---------------------------- MODULE Trace_MapOrd ----------------------------
(* C14: monitor for parallel.MapIterator / MapStream histories recorded in bubbles.
   reset(kind, p, buf, gmp, mctx). taken(v) = the instrumented source handed item number v (1, 2, ...) to the
   library; srcend / srcerr / srcclose; fbegin(v) / fend(v, err) logged by f itself (f(v) = 1000 + v,
   err = 0 or the call's error id 100 + v); call/ret of the consumer's Next (res.k = "val" with res.v,
   "end", "err" with res.e = "src" | "f" (res.v = error id) | "ctx" | "other") and Close; cancel(ctx); q. *)
EXTENDS Integers, Sequences, FiniteSets, TLC, Json
Trace == ndJsonDeserialize("trace.ndjson")
VARIABLES kind, p, buf, gmp, mctx, taken, yielded, srcSt, srcClosed, fin, ferr, inF, pend, closed, cancelled, l
vars == <<kind, p, buf, gmp, mctx, taken, yielded, srcSt, srcClosed, fin, ferr, inF, pend, closed, cancelled, l>>
Ev == Trace[l]
EffP == IF p <= 0 THEN gmp ELSE p
Bound == (IF buf > 0 THEN buf ELSE 0) + EffP + 1
Init == /\ kind = "" /\ p = 1 /\ buf = 0 /\ gmp = 1 /\ mctx = 0 /\ taken = 0 /\ yielded = 0 /\ srcSt = 0 /\ srcClosed = 0 /\ fin = {} /\ ferr = {}
        /\ inF = {} /\ pend = <<>> /\ closed = 0 /\ cancelled = {} /\ l = 1 /\ TLCSet(1, 0)
Un(vs) == UNCHANGED vs
Ids == DOMAIN pend
Failed == ferr # {} \/ srcSt >= 2       \* srcSt 3: the source failed with context.Canceled as its own error
\* the context given to MapStream itself (0 = never cancelled): once it is cancelled the stream may fail with its error
StreamCancelled == mctx # 0 /\ mctx \in cancelled
Next ==
  /\ l <= Len(Trace) /\ l' = l + 1
  /\ CASE kind = "done" /\ Ev.ev # "reset" -> Un(<<kind, p, buf, gmp, mctx, taken, yielded, srcSt, srcClosed, fin, ferr, inF, pend, closed, cancelled>>)      \* the harness's epilogue is not judged
       [] Ev.ev = "reset" ->
            /\ kind' = Ev.kind /\ p' = Ev.p /\ buf' = Ev.buf /\ gmp' = Ev.gmp /\ mctx' = Ev.mctx /\ taken' = 0 /\ yielded' = 0 /\ srcSt' = 0 /\ srcClosed' = 0
            /\ fin' = {} /\ ferr' = {} /\ inF' = {} /\ pend' = <<>> /\ closed' = 0 /\ cancelled' = {}
       [] Ev.ev = "taken" -> /\ taken' = taken + 1 /\ Ev.v = taken + 1
                             \* bounded look-ahead. A Next whose return has not been logged yet may already have
                             \* yielded its result (the ret record is written after the real return), so it counts.
                             /\ (closed = 0 => taken' - (yielded + Cardinality({i \in Ids : pend[i].op = "Next"})) <= Bound)
                             /\ Un(<<kind, p, buf, gmp, mctx, yielded, srcSt, srcClosed, fin, ferr, inF, pend, closed, cancelled>>)
       [] Ev.ev = "srcend" -> srcSt' = 1 /\ Un(<<kind, p, buf, gmp, mctx, taken, yielded, srcClosed, fin, ferr, inF, pend, closed, cancelled>>)
       [] Ev.ev = "srcerr" -> srcSt' = (IF Ev.c = 1 THEN 3 ELSE 2) /\ Un(<<kind, p, buf, gmp, mctx, taken, yielded, srcClosed, fin, ferr, inF, pend, closed, cancelled>>)
       [] Ev.ev = "srcclose" -> srcClosed' = srcClosed + 1 /\ srcClosed' <= 1 /\ Un(<<kind, p, buf, gmp, mctx, taken, yielded, srcSt, fin, ferr, inF, pend, closed, cancelled>>)
       [] Ev.ev = "fbegin" -> /\ Ev.v \in 1..taken /\ Ev.v \notin fin /\ Ev.v \notin inF      \* f once per item
                              /\ inF' = inF \cup {Ev.v} /\ Cardinality(inF') <= EffP           \* at most parallelism calls at a time
                              /\ Un(<<kind, p, buf, gmp, mctx, taken, yielded, srcSt, srcClosed, fin, ferr, pend, closed, cancelled>>)
       [] Ev.ev = "fend" -> /\ Ev.v \in inF /\ inF' = inF \ {Ev.v} /\ fin' = fin \cup {Ev.v}
                            /\ ferr' = (IF Ev.err # 0 THEN ferr \cup {Ev.v} ELSE ferr)
                            /\ Un(<<kind, p, buf, gmp, mctx, taken, yielded, srcSt, srcClosed, pend, closed, cancelled>>)
       [] Ev.ev = "srcviol" -> FALSE        \* the instrumented source saw Next after Close / a second Close / overlapping calls (C09)
       [] Ev.ev = "cancel" -> cancelled' = cancelled \cup {Ev.ctx} /\ Un(<<kind, p, buf, gmp, mctx, taken, yielded, srcSt, srcClosed, fin, ferr, inF, pend, closed>>)
       [] Ev.ev \in {"rel", "item", "leak"} -> Un(<<kind, p, buf, gmp, mctx, taken, yielded, srcSt, srcClosed, fin, ferr, inF, pend, closed, cancelled>>)
       [] Ev.ev = "call" -> /\ pend' = [i \in Ids \cup {Ev.id} |-> IF i = Ev.id THEN [op |-> Ev.op, ctx |-> Ev.ctx] ELSE pend[i]]
                            /\ closed' = (IF Ev.op = "Close" THEN 1 ELSE closed)
                            /\ Un(<<kind, p, buf, gmp, mctx, taken, yielded, srcSt, srcClosed, fin, ferr, inF, cancelled>>)
       [] Ev.ev = "ret" ->
            /\ Ev.id \in Ids /\ pend' = [i \in Ids \ {Ev.id} |-> pend[i]]
            /\ IF Ev.op = "Next" THEN
                 /\ Un(closed)
                 /\ \/ /\ Ev.res.k = "val"                       \* f(x) for the next item in source order, exactly once
                       /\ yielded + 1 \in fin /\ yielded + 1 \notin ferr /\ Ev.res.v = 1000 + yielded + 1
                       /\ yielded' = yielded + 1
                    \/ /\ Ev.res.k = "end" /\ Un(yielded)
                       /\ (closed >= 1 \/ (srcSt = 1 /\ yielded = taken /\ ~Failed))
                    \/ /\ Ev.res.k = "err" /\ Un(yielded)        \* an error the source or a call of f actually returned
                       /\ \/ closed >= 1
                          \/ Ev.res.e = "src" /\ srcSt = 2
                          \/ Ev.res.e = "ctx" /\ srcSt = 3
                          \/ Ev.res.e = "f" /\ (Ev.res.v - 100) \in ferr
                          \/ Ev.res.e = "ctx" /\ (pend[Ev.id].ctx \in cancelled \/ StreamCancelled)
               ELSE /\ closed' = 2 /\ Un(yielded)
                    /\ srcClosed = 1          \* by the time Close returns the source has been closed (C09)
            /\ Un(<<kind, p, buf, gmp, mctx, taken, srcSt, srcClosed, fin, ferr, inF, cancelled>>)
       [] Ev.ev = "q" ->
            /\ Un(<<kind, p, buf, gmp, mctx, taken, yielded, srcSt, srcClosed, fin, ferr, inF, pend, closed, cancelled>>)
            /\ \A i \in Ids :
                 \/ inF # {}                                      \* some call of f is still held by the harness
                 \/ /\ pend[i].op = "Next" /\ closed = 0
                    /\ pend[i].ctx \notin cancelled /\ ~StreamCancelled
                    /\ ~Failed                                    \* a failure surfaces
                    /\ ~(yielded + 1 \in fin)                     \* a finished next result is handed out
                    /\ ~(srcSt = 1 /\ yielded = taken)            \* everything done => End
                    /\ taken <= yielded                           \* an item taken is being worked on (else: deadlock)
            \* after Close returned: workers stopped, source closed exactly once
            /\ (closed = 2 => (inF = {} /\ srcClosed = 1 /\ Ev.srcbusy = 0))
Spec == Init /\ [][Next]_vars
HWM == TLCSet(1, IF TLCGet(1) < l THEN l ELSE TLCGet(1))
Accepted == PrintT(<<"HWM", TLCGet(1)>>) /\ TLCGet(1) = Len(Trace) + 1
=============================================================================
