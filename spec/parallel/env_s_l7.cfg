SPECIFICATION LSpec
CONSTANTS
  MaxLen = 7
  MaxItems = 3
  Stream = TRUE
VIEW View
ACTION_CONSTRAINT Dump
CHECK_DEADLOCK FALSE
