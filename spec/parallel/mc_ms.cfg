SPECIFICATION Spec
CONSTANTS
  N = 4
  P = 2
  Buf = 2
  SrcErrAt = 0
  FErr = {3}
  AllowClose = TRUE
INVARIANTS TokensOK GapOK NoBeyond Provenance EndComplete EndOnlyIfNoFault NotStuck CloseNotStuck SrcClosedOnce
CHECK_DEADLOCK FALSE
