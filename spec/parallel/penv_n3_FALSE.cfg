SPECIFICATION LSpec
CONSTANTS
  N = 3
  WithCancel = FALSE
VIEW View
ACTION_CONSTRAINT Dump
CHECK_DEADLOCK FALSE
