SPECIFICATION Spec
CONSTANTS
  NItems = 5
  P = 2
  Buf = 0
  SigDelta = 1
INVARIANTS BoundOK EndComplete InFlightOK
