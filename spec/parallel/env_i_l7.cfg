SPECIFICATION LSpec
CONSTANTS
  MaxLen = 7
  MaxItems = 3
  Stream = FALSE
VIEW View
ACTION_CONSTRAINT Dump
CHECK_DEADLOCK FALSE
