SPECIFICATION Spec
CONSTANTS
  NItems = 6
  P = 3
  Buf = 4
  SigDelta = 1
INVARIANTS BoundOK EndComplete InFlightOK
