SPECIFICATION LSpec
CONSTANTS
  MaxLen = 9
  MaxItems = 4
  Stream = TRUE
VIEW View
ACTION_CONSTRAINT Dump
CHECK_DEADLOCK FALSE
