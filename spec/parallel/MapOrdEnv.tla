----------------------------- MODULE MapOrdEnv -----------------------------
(* The environment of parallel.MapStream / MapIterator as the bubble harness drives it (C08, C09, C14): the source
   hands over item 1, 2, ...; the harness releases a pending call of f (late items may finish first); the consumer
   calls Next with a live context (0) or with context 1; context 1 (a call's own) or context 2 (the one given to
   MapStream itself, when the run uses it) is cancelled; the source ends or fails; Close ends the run. Parallelism,
   buffer size, iterator-vs-stream, failing calls of f and MapStream's own context are headers of the run. *)
EXTENDS Integers, Sequences, FiniteSets, TLC, Json
CONSTANTS MaxLen, MaxItems, Stream
VARIABLES items, rel, fin, canc, closed, len, op
vars == <<items, rel, fin, canc, closed, len, op>>
R(a, v, c) == op' = [a |-> a, v |-> v, ctx |-> c] /\ len' = len + 1
Init == items = 0 /\ rel = {} /\ fin = FALSE /\ canc = {} /\ closed = FALSE /\ len = 0 /\ op = [a |-> "init", v |-> 0, ctx |-> 0]
Item == ~fin /\ items < MaxItems /\ items' = items + 1 /\ UNCHANGED <<rel, fin, canc, closed>> /\ R("item", items + 1, 0)
Rel(v) == v \in 1..items /\ v \notin rel /\ rel' = rel \cup {v} /\ UNCHANGED <<items, fin, canc, closed>> /\ R("rel", v, 0)
Finish == ~fin /\ fin' = TRUE /\ UNCHANGED <<items, rel, canc, closed>>
          /\ \E a \in (IF Stream THEN {"end", "srcerr", "srccanc"} ELSE {"end"}) : R(a, 0, 0)
NextC(c) == UNCHANGED <<items, rel, fin, canc, closed>> /\ R("next", 0, c)
Cancel(c) == Stream /\ c \notin canc /\ canc' = canc \cup {c} /\ UNCHANGED <<items, rel, fin, closed>> /\ R("cancel", 0, c)
Close == Stream /\ closed' = TRUE /\ UNCHANGED <<items, rel, fin, canc>> /\ R("close", 0, 0)
Next == /\ len < MaxLen /\ ~closed
        /\ \/ Item \/ Finish \/ Close
           \/ \E v \in 1..MaxItems : Rel(v)
           \/ \E c \in (IF Stream THEN {0, 1} ELSE {0}) : NextC(c)
           \/ \E c \in {1, 2} : Cancel(c)
Spec == Init /\ [][Next]_vars
View == <<items, rel, fin, canc, closed, len>>
LState == [n |-> items, r |-> rel, f |-> fin, c |-> canc, cl |-> closed, l |-> len]
Dump == PrintT(<<"LTS", ToJson([from |-> LState, op |-> op', to |-> LState'])>>)
LInit == Init /\ PrintT(<<"LTSINIT", ToJson([from |-> LState])>>)
LSpec == LInit /\ [][Next]_vars
=============================================================================
