SPECIFICATION Spec
CONSTANTS
  NIdx = 4
  Par = 2
  FailSet = {}
  AllowCancel = TRUE
INVARIANTS AtMostOnce Bounded Barrier ExactlyOnce ErrProvenance FailSurfaces FewCancelledStarts
CHECK_DEADLOCK FALSE
