SPECIFICATION LSpec
CONSTANTS
  N = 4
  WithCancel = FALSE
VIEW View
ACTION_CONSTRAINT Dump
CHECK_DEADLOCK FALSE
