---- MODULE MapStream ----
\* I-layer of parallel.MapStream (C14): dispatcher (source, ready tokens, rendez-vous in), P workers (f, buffered c),
\* errgroup + derived context, consumer (re-order heap, per-call context), Close. Every interleaving by TLC.
EXTENDS Integers, Sequences, FiniteSets, TLC
CONSTANTS N, P, Buf, SrcErrAt, FErr, AllowClose
W == 1..P
VARIABLES dpc, di, tokens, inClosed, wpc, witem, c, cClosed, nDone, egErr, ctxDone,
          cpc, heap, ci, cres, closePc, srcClosed, cctx, maxGap
vars == <<dpc, di, tokens, inClosed, wpc, witem, c, cClosed, nDone, egErr, ctxDone, cpc, heap, ci, cres, closePc, srcClosed, cctx, maxGap>>
Init == /\ dpc = "next" /\ di = 1 /\ tokens = Buf /\ inClosed = FALSE
        /\ wpc = [w \in W |-> "recv"] /\ witem = [w \in W |-> 0] /\ c = <<>> /\ cClosed = FALSE /\ nDone = 0
        /\ egErr = "none" /\ ctxDone = FALSE /\ cpc = "idle" /\ heap = {} /\ ci = 1 /\ cres = "none"
        /\ closePc = "no" /\ srcClosed = 0 /\ cctx = TRUE /\ maxGap = 0
\* errgroup: record first error and cancel
EG(r) == IF r # "nil" /\ egErr = "none" THEN egErr' = r /\ ctxDone' = TRUE
         ELSE UNCHANGED egErr /\ (IF r # "nil" THEN ctxDone' = TRUE ELSE UNCHANGED ctxDone)
DRet(r) == /\ dpc' = "done" /\ inClosed' = TRUE /\ srcClosed' = srcClosed + 1 /\ EG(r)
Taken == (di - 1) + (IF dpc \in {"ready", "send"} THEN 1 ELSE 0)
DNextItem == /\ dpc = "next" /\ di <= N /\ (SrcErrAt = 0 \/ di < SrcErrAt) /\ dpc' = "ready"
             /\ maxGap' = IF Taken + 1 - (ci - 1) > maxGap THEN Taken + 1 - (ci - 1) ELSE maxGap
             /\ UNCHANGED <<di, tokens, inClosed, wpc, witem, c, cClosed, nDone, egErr, ctxDone, cpc, heap, ci, cres, closePc, srcClosed, cctx>>
DNextErr == /\ dpc = "next" /\ SrcErrAt # 0 /\ di = SrcErrAt /\ DRet("src")
            /\ UNCHANGED <<di, tokens, wpc, witem, c, cClosed, nDone, cpc, heap, ci, cres, closePc, cctx, maxGap>>
DNextEnd == /\ dpc = "next" /\ SrcErrAt = 0 /\ di = N + 1 /\ DRet("nil")
            /\ UNCHANGED <<di, tokens, wpc, witem, c, cClosed, nDone, cpc, heap, ci, cres, closePc, cctx, maxGap>>
DCtx == /\ dpc \in {"next", "ready", "send"} /\ ctxDone /\ DRet("ctx")
        /\ UNCHANGED <<di, tokens, wpc, witem, c, cClosed, nDone, cpc, heap, ci, cres, closePc, cctx, maxGap>>
DReady == /\ dpc = "ready" /\ tokens > 0 /\ tokens' = tokens - 1 /\ dpc' = "send"
          /\ UNCHANGED <<di, inClosed, wpc, witem, c, cClosed, nDone, egErr, ctxDone, cpc, heap, ci, cres, closePc, srcClosed, cctx, maxGap>>
DSend(w) == /\ dpc = "send" /\ wpc[w] = "recv" /\ wpc' = [wpc EXCEPT ![w] = "f"] /\ witem' = [witem EXCEPT ![w] = di]
            /\ di' = di + 1 /\ dpc' = "next"
            /\ UNCHANGED <<tokens, inClosed, c, cClosed, nDone, egErr, ctxDone, cpc, heap, ci, cres, closePc, srcClosed, cctx, maxGap>>
WRet(w, r) == /\ wpc' = [wpc EXCEPT ![w] = "done"] /\ nDone' = nDone + 1
              /\ cClosed' = (nDone + 1 = P) /\ EG(r)
WRecvClosed(w) == /\ wpc[w] = "recv" /\ inClosed /\ WRet(w, "nil")
                  /\ UNCHANGED <<dpc, di, tokens, inClosed, witem, c, cpc, heap, ci, cres, closePc, srcClosed, cctx, maxGap>>
WFok(w) == /\ wpc[w] = "f" /\ witem[w] \notin FErr /\ wpc' = [wpc EXCEPT ![w] = "sendc"]
           /\ UNCHANGED <<dpc, di, tokens, inClosed, witem, c, cClosed, nDone, egErr, ctxDone, cpc, heap, ci, cres, closePc, srcClosed, cctx, maxGap>>
WFerr(w) == /\ wpc[w] = "f" /\ witem[w] \in FErr /\ WRet(w, "f")
            /\ UNCHANGED <<dpc, di, tokens, inClosed, witem, c, cpc, heap, ci, cres, closePc, srcClosed, cctx, maxGap>>
WSendC(w) == /\ wpc[w] = "sendc" /\ Len(c) < Buf /\ c' = Append(c, witem[w]) /\ wpc' = [wpc EXCEPT ![w] = "recv"]
             /\ UNCHANGED <<dpc, di, tokens, inClosed, witem, cClosed, nDone, egErr, ctxDone, cpc, heap, ci, cres, closePc, srcClosed, cctx, maxGap>>
WSendCtx(w) == /\ wpc[w] = "sendc" /\ ctxDone /\ WRet(w, "ctx")
               /\ UNCHANGED <<dpc, di, tokens, inClosed, witem, c, cpc, heap, ci, cres, closePc, srcClosed, cctx, maxGap>>
AllDone == dpc = "done" /\ \A w \in W : wpc[w] = "done"
CStart == /\ cpc = "idle" /\ cres \in {"none", "item", "cctx"} /\ closePc = "no" /\ cpc' = "loop" /\ cctx' = TRUE
          /\ UNCHANGED <<dpc, di, tokens, inClosed, wpc, witem, c, cClosed, nDone, egErr, ctxDone, heap, ci, cres, closePc, srcClosed, maxGap>>
CPop == /\ cpc = "loop" /\ ci \in heap /\ heap' = heap \ {ci} /\ ci' = ci + 1 /\ tokens' = tokens + 1
        /\ cpc' = "idle" /\ cres' = "item"
        /\ UNCHANGED <<dpc, di, inClosed, wpc, witem, c, cClosed, nDone, egErr, ctxDone, closePc, srcClosed, cctx, maxGap>>
CRecv == /\ cpc = "loop" /\ ci \notin heap /\ Len(c) > 0 /\ heap' = heap \cup {Head(c)} /\ c' = Tail(c)
         /\ UNCHANGED <<dpc, di, tokens, inClosed, wpc, witem, cClosed, nDone, egErr, ctxDone, cpc, ci, cres, closePc, srcClosed, cctx, maxGap>>
CClosed == /\ cpc = "loop" /\ ci \notin heap /\ Len(c) = 0 /\ cClosed /\ AllDone
           /\ cpc' = "idle" /\ cres' = (IF egErr = "none" THEN "End" ELSE egErr)
           /\ UNCHANGED <<dpc, di, tokens, inClosed, wpc, witem, c, cClosed, nDone, egErr, ctxDone, heap, ci, closePc, srcClosed, cctx, maxGap>>
CCtxExpire == /\ cpc = "loop" /\ cctx /\ cctx' = FALSE
           /\ UNCHANGED <<dpc, di, tokens, inClosed, wpc, witem, c, cClosed, nDone, egErr, ctxDone, cpc, heap, ci, cres, closePc, srcClosed, maxGap>>
CCtxRet == /\ cpc = "loop" /\ ci \notin heap /\ ~cctx /\ cpc' = "idle" /\ cres' = "cctx"
           /\ UNCHANGED <<dpc, di, tokens, inClosed, wpc, witem, c, cClosed, nDone, egErr, ctxDone, heap, ci, closePc, srcClosed, cctx, maxGap>>
CloseCall == /\ AllowClose /\ closePc = "no" /\ cpc = "idle" /\ closePc' = "waiting" /\ ctxDone' = TRUE
           /\ UNCHANGED <<dpc, di, tokens, inClosed, wpc, witem, c, cClosed, nDone, egErr, cpc, heap, ci, cres, srcClosed, cctx, maxGap>>
CloseRet == /\ closePc = "waiting" /\ AllDone /\ closePc' = "returned"
           /\ UNCHANGED <<dpc, di, tokens, inClosed, wpc, witem, c, cClosed, nDone, egErr, ctxDone, cpc, heap, ci, cres, srcClosed, cctx, maxGap>>
Prog == DNextItem \/ DNextErr \/ DNextEnd \/ DCtx \/ DReady \/ CPop \/ CRecv \/ CClosed \/ CCtxRet \/ CloseRet
        \/ \E w \in W : DSend(w) \/ WRecvClosed(w) \/ WFok(w) \/ WFerr(w) \/ WSendC(w) \/ WSendCtx(w)
Env == CStart \/ CCtxExpire \/ CloseCall
Next == Prog \/ Env
Spec == Init /\ [][Next]_vars /\ WF_vars(Prog)
TokensOK == tokens <= Buf
GapOK == maxGap <= Buf + 1
MinFail == IF FErr = {} THEN (IF SrcErrAt = 0 THEN N + 1 ELSE SrcErrAt) ELSE
           LET m == CHOOSE x \in FErr : \A y \in FErr : x <= y IN IF SrcErrAt # 0 /\ SrcErrAt < m THEN SrcErrAt ELSE m
NoBeyond == ci - 1 < MinFail \/ (MinFail = N + 1 /\ ci - 1 <= N)
Provenance == (closePc = "no") => cres # "ctx"
EndComplete == cres = "End" => ci = N + 1
EndOnlyIfNoFault == cres = "End" => (FErr = {} /\ SrcErrAt = 0)
NotStuck == ~(cpc = "loop" /\ cctx /\ ~ENABLED Prog)
CloseNotStuck == ~(closePc = "waiting" /\ ~ENABLED Prog)
SrcClosedOnce == srcClosed <= 1 /\ (closePc = "returned" => srcClosed = 1) /\ (cres \in {"End", "src", "f"} => srcClosed = 1)
====
