SPECIFICATION LSpec
CONSTANTS
  N = 1
  WithCancel = TRUE
VIEW View
ACTION_CONSTRAINT Dump
CHECK_DEADLOCK FALSE
