SPECIFICATION Spec
CONSTANTS
  N = 5
  P = 3
  Buf = 4
  SrcErrAt = 0
  FErr = {2,4}
  AllowClose = FALSE
INVARIANTS TokensOK GapOK NoBeyond Provenance EndComplete EndOnlyIfNoFault NotStuck CloseNotStuck SrcClosedOnce
CHECK_DEADLOCK FALSE
