SPECIFICATION LSpec
CONSTANTS
  N = 1
  WithCancel = FALSE
VIEW View
ACTION_CONSTRAINT Dump
CHECK_DEADLOCK FALSE
