SPECIFICATION Spec
CONSTANTS
  NIdx = 4
  Par = 3
  FailSet = {1,3}
  AllowCancel = TRUE
INVARIANTS AtMostOnce Bounded Barrier ExactlyOnce ErrProvenance FailSurfaces FewCancelledStarts
CHECK_DEADLOCK FALSE
