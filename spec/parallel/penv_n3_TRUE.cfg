SPECIFICATION LSpec
CONSTANTS
  N = 3
  WithCancel = TRUE
VIEW View
ACTION_CONSTRAINT Dump
CHECK_DEADLOCK FALSE
