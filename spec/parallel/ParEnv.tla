------------------------------- MODULE ParEnv -------------------------------
(* The environment of parallel.Do / DoContext / Map / MapContext as the bubble harness drives it (C13): every call of f
   blocks until the harness releases it; the harness releases the calls in some order (index i may be released before
   its call has even begun: then it does not block) and may cancel the caller's context at any point of that order.
   Variant, n, parallelism, the set of failing calls and "context already cancelled" are headers of the run. *)
EXTENDS Integers, Sequences, FiniteSets, TLC, Json
CONSTANTS N, WithCancel
VARIABLES rel, canc, len, op
vars == <<rel, canc, len, op>>
R(i) == op' = [i |-> i] /\ len' = len + 1
Init == rel = {} /\ canc = FALSE /\ len = 0 /\ op = [i |-> -2]
Rel(i) == i \notin rel /\ rel' = rel \cup {i} /\ UNCHANGED canc /\ R(i)
Cancel == WithCancel /\ ~canc /\ canc' = TRUE /\ UNCHANGED rel /\ R(-1)
Next == (\E i \in 0..(N - 1) : Rel(i)) \/ Cancel
Spec == Init /\ [][Next]_vars
View == <<rel, canc, len>>
LState == [r |-> rel, c |-> canc, l |-> len]
Dump == PrintT(<<"LTS", ToJson([from |-> LState, op |-> op', to |-> LState'])>>)
LInit == Init /\ PrintT(<<"LTSINIT", ToJson([from |-> LState])>>)
LSpec == LInit /\ [][Next]_vars
=============================================================================
