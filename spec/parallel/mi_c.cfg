SPECIFICATION Spec
CONSTANTS
  NItems = 4
  P = 1
  Buf = 0
  SigDelta = 1
INVARIANTS BoundOK EndComplete InFlightOK
