SPECIFICATION LSpec
CONSTANTS
  N = 5
  WithCancel = TRUE
VIEW View
ACTION_CONSTRAINT Dump
CHECK_DEADLOCK FALSE
