----------------------------- MODULE MapIterator -----------------------------
(* I-layer of parallel.MapIterator (C14): the dispatcher (pulls the source, waits on the condition
   variable while inFlight >= bufferSize, inFlight++, hands the item to a worker over the rendez-vous
   channel in), P workers (f, then a rendez-vous send on ch; the last one closes ch), the consumer's
   Next (re-order heap; inFlight-- and Signal exactly when inFlight becomes bufferSize-1).
   SigAt is the threshold at which the consumer signals: BufEff - 1 in the code; another value models a
   seeded defect. TLC checks order, exactly-once, the look-ahead bound and - with deadlock checking on -
   that no interleaving of finishing calls of f and consumer pace can block the pipeline. *)
EXTENDS Integers, FiniteSets, TLC
CONSTANTS NItems, P, Buf, SigDelta     \* SigDelta = 1 in the code: Signal when inFlight = bufferSize - 1
BufEff == IF Buf < P THEN P ELSE Buf
W == 1..P
VARIABLES di, dpc, inFlight, inClosed, wpc, witem, heap, ci, nDone, chClosed, cpc, ended, taken, maxGap
vars == <<di, dpc, inFlight, inClosed, wpc, witem, heap, ci, nDone, chClosed, cpc, ended, taken, maxGap>>
Init == /\ di = 1 /\ dpc = "next" /\ inFlight = 0 /\ inClosed = FALSE /\ wpc = [w \in W |-> "recv"] /\ witem = [w \in W |-> 0]
        /\ heap = {} /\ ci = 1 /\ nDone = 0 /\ chClosed = FALSE /\ cpc = "idle" /\ ended = FALSE /\ taken = 0 /\ maxGap = 0
Un(vs) == UNCHANGED vs
Gap(t) == IF t - (ci - 1) > maxGap THEN t - (ci - 1) ELSE maxGap
\* ---- dispatcher
DNext == /\ dpc = "next"
         /\ IF di <= NItems THEN dpc' = "lock" /\ taken' = taken + 1 /\ maxGap' = Gap(taken + 1) /\ Un(inClosed)
            ELSE dpc' = "done" /\ inClosed' = TRUE /\ Un(<<taken, maxGap>>)
         /\ Un(<<di, inFlight, wpc, witem, heap, ci, nDone, chClosed, cpc, ended>>)
DLock == /\ dpc = "lock"
         /\ IF inFlight >= BufEff THEN dpc' = "wait" /\ Un(inFlight) ELSE dpc' = "send" /\ inFlight' = inFlight + 1
         /\ Un(<<di, inClosed, wpc, witem, heap, ci, nDone, chClosed, cpc, ended, taken, maxGap>>)
DSend(w) == /\ dpc = "send" /\ wpc[w] = "recv" /\ wpc' = [wpc EXCEPT ![w] = "f"] /\ witem' = [witem EXCEPT ![w] = di]
            /\ di' = di + 1 /\ dpc' = "next"
            /\ Un(<<inFlight, inClosed, heap, ci, nDone, chClosed, cpc, ended, taken, maxGap>>)
\* ---- workers
WDone(w) == /\ wpc[w] = "recv" /\ inClosed /\ dpc = "done" /\ wpc' = [wpc EXCEPT ![w] = "exit"]
            /\ nDone' = nDone + 1 /\ chClosed' = (nDone + 1 = P)
            /\ Un(<<di, dpc, inFlight, inClosed, witem, heap, ci, cpc, ended, taken, maxGap>>)
WF(w) == /\ wpc[w] = "f" /\ wpc' = [wpc EXCEPT ![w] = "send"]          \* f returns (any order: late items may finish first)
         /\ Un(<<di, dpc, inFlight, inClosed, witem, heap, ci, nDone, chClosed, cpc, ended, taken, maxGap>>)
\* ---- consumer: Next = loop { heap has the next index -> yield ; else receive from ch }
CStart == /\ cpc = "idle" /\ ~ended /\ cpc' = "loop"
          /\ Un(<<di, dpc, inFlight, inClosed, wpc, witem, heap, ci, nDone, chClosed, ended, taken, maxGap>>)
CYield == /\ cpc = "loop" /\ ci \in heap /\ heap' = heap \ {ci} /\ ci' = ci + 1 /\ inFlight' = inFlight - 1
          \* Signal wakes the dispatcher if it is waiting on the condition variable
          /\ dpc' = (IF inFlight - 1 = BufEff - SigDelta /\ dpc = "wait" THEN "lock" ELSE dpc)
          /\ cpc' = "idle"
          /\ Un(<<di, inClosed, wpc, witem, nDone, chClosed, ended, taken, maxGap>>)
CRecv(w) == /\ cpc = "loop" /\ ci \notin heap /\ wpc[w] = "send"          \* rendez-vous with a worker
            /\ heap' = heap \cup {witem[w]} /\ wpc' = [wpc EXCEPT ![w] = "recv"]
            /\ Un(<<di, dpc, inFlight, inClosed, witem, ci, nDone, chClosed, cpc, ended, taken, maxGap>>)
CEnd == /\ cpc = "loop" /\ ci \notin heap /\ chClosed /\ ended' = TRUE /\ cpc' = "idle"
        /\ Un(<<di, dpc, inFlight, inClosed, wpc, witem, heap, ci, nDone, chClosed, taken, maxGap>>)
Finished == ended /\ UNCHANGED vars           \* the only state that may be terminal
Next == DNext \/ DLock \/ CStart \/ CYield \/ CEnd \/ Finished \/ (\E w \in W : DSend(w) \/ WDone(w) \/ WF(w) \/ CRecv(w))
Spec == Init /\ [][Next]_vars
\* ---- C14
BoundOK == maxGap <= (IF Buf > 0 THEN Buf ELSE 0) + P + 1
EndComplete == ended => (ci = NItems + 1 /\ heap = {})
InFlightOK == inFlight >= 0 /\ inFlight <= BufEff
==============================================================================
