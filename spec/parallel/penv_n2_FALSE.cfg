SPECIFICATION LSpec
CONSTANTS
  N = 2
  WithCancel = FALSE
VIEW View
ACTION_CONSTRAINT Dump
CHECK_DEADLOCK FALSE
