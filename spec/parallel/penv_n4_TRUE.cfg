SPECIFICATION LSpec
CONSTANTS
  N = 4
  WithCancel = TRUE
VIEW View
ACTION_CONSTRAINT Dump
CHECK_DEADLOCK FALSE
