-------------------------------- MODULE ParDo --------------------------------
(* I-layer of parallel.DoContext (C13): effective parallelism P' = min(P, n) workers (or the sequential
   fast path for P' = 1) looping over x := AddInt32(&counter, 1); each re-checks the errgroup context,
   calls f(ctx, i) (two steps: begin / end, so calls overlap), the errgroup records the first error and
   cancels; Wait; the caller's context may be cancelled at any step. TLC explores every interleaving,
   every set of failing indices and every cancellation moment. *)
EXTENDS Integers, FiniteSets, TLC
CONSTANTS NIdx, Par, FailSet, AllowCancel
Idx == 0..(NIdx - 1)
PEff == IF Par > NIdx THEN NIdx ELSE Par
W == 1..PEff
VARIABLES counter, wpc, wi, egErr, egDone, callerDone, count, running, returned, retErr, begunCancelled, seqi
vars == <<counter, wpc, wi, egErr, egDone, callerDone, count, running, returned, retErr, begunCancelled, seqi>>
CtxDone == egDone \/ callerDone
Init == /\ counter = -1 /\ wpc = [w \in W |-> "fetch"] /\ wi = [w \in W |-> -1] /\ egErr = "nil" /\ egDone = FALSE /\ callerDone = FALSE
        /\ count = [i \in Idx |-> 0] /\ running = {} /\ returned = FALSE /\ retErr = "nil" /\ begunCancelled = 0 /\ seqi = 0
Un(vs) == UNCHANGED vs
Fail(i) == i \in FailSet
\* ---- sequential fast path (P' = 1): the caller's own context is handed to f
SeqBegin == /\ PEff = 1 /\ ~returned /\ running = {} /\ seqi < NIdx
            /\ running' = {seqi} /\ count' = [count EXCEPT ![seqi] = @ + 1]
            /\ Un(<<counter, wpc, wi, egErr, egDone, callerDone, returned, retErr, begunCancelled, seqi>>)
SeqEnd == /\ PEff = 1 /\ running # {} /\ running' = {}
          /\ IF Fail(seqi) THEN returned' = TRUE /\ retErr' = "f" /\ Un(seqi) ELSE seqi' = seqi + 1 /\ Un(<<returned, retErr>>)
          /\ Un(<<counter, wpc, wi, egErr, egDone, callerDone, count, begunCancelled>>)
SeqRet == /\ PEff <= 1 /\ ~returned /\ running = {} /\ seqi >= NIdx /\ returned' = TRUE /\ retErr' = "nil"
          /\ Un(<<counter, wpc, wi, egErr, egDone, callerDone, count, running, begunCancelled, seqi>>)
\* ---- workers
Fetch(w) == /\ PEff > 1 /\ wpc[w] = "fetch" /\ counter' = counter + 1 /\ wi' = [wi EXCEPT ![w] = counter + 1]
            /\ wpc' = [wpc EXCEPT ![w] = IF counter + 1 >= NIdx THEN "done" ELSE "check"]
            /\ Un(<<egErr, egDone, callerDone, count, running, returned, retErr, begunCancelled, seqi>>)
EgReturn(w, e) == /\ wpc' = [wpc EXCEPT ![w] = "done"]
                  /\ IF e # "nil" /\ egErr = "nil" THEN egErr' = e /\ egDone' = TRUE ELSE Un(<<egErr, egDone>>)
Check(w) == /\ wpc[w] = "check"
            /\ IF CtxDone THEN EgReturn(w, "ctx") /\ Un(<<count, running, begunCancelled>>)
               ELSE wpc' = [wpc EXCEPT ![w] = "begin"] /\ Un(<<egErr, egDone, count, running, begunCancelled>>)
            /\ Un(<<counter, wi, callerDone, returned, retErr, seqi>>)
Begin(w) == /\ wpc[w] = "begin" /\ wpc' = [wpc EXCEPT ![w] = "in"]
            /\ running' = running \cup {wi[w]} /\ count' = [count EXCEPT ![wi[w]] = @ + 1]
            /\ begunCancelled' = (IF CtxDone /\ ~callerDone THEN begunCancelled + 1 ELSE begunCancelled)
            /\ Un(<<counter, wi, egErr, egDone, callerDone, returned, retErr, seqi>>)
End(w) == /\ wpc[w] = "in" /\ running' = running \ {wi[w]}
          /\ IF Fail(wi[w]) THEN EgReturn(w, "f") ELSE wpc' = [wpc EXCEPT ![w] = "fetch"] /\ Un(<<egErr, egDone>>)
          /\ Un(<<counter, wi, callerDone, count, returned, retErr, begunCancelled, seqi>>)
Wait == /\ PEff > 1 /\ ~returned /\ \A w \in W : wpc[w] = "done" /\ returned' = TRUE /\ retErr' = egErr
        /\ Un(<<counter, wpc, wi, egErr, egDone, callerDone, count, running, begunCancelled, seqi>>)
Cancel == /\ AllowCancel /\ ~callerDone /\ callerDone' = TRUE
          /\ Un(<<counter, wpc, wi, egErr, egDone, count, running, returned, retErr, begunCancelled, seqi>>)
Next == SeqBegin \/ SeqEnd \/ SeqRet \/ Wait \/ Cancel \/ (\E w \in W : Fetch(w) \/ Check(w) \/ Begin(w) \/ End(w))
Spec == Init /\ [][Next]_vars
\* ---- C13
AtMostOnce == \A i \in Idx : count[i] <= 1
Bounded == Cardinality(running) <= (IF Par >= 1 THEN Par ELSE 1)
Barrier == returned => running = {}
ExactlyOnce == (returned /\ retErr = "nil" /\ ~callerDone) => \A i \in Idx : count[i] = 1
ErrProvenance == returned => (retErr = "f" => \E i \in FailSet : count[i] = 1) /\ (retErr = "ctx" => callerDone \/ egDone)
FailSurfaces == (returned /\ \E i \in FailSet : count[i] = 1) => retErr # "nil"
FewCancelledStarts == begunCancelled <= (IF PEff > 1 THEN PEff - 1 ELSE 0)
==============================================================================
