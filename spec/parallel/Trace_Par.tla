----------------------------- MODULE Trace_Par -----------------------------
(* C13: monitor for parallel.Do / DoContext / Map / MapContext histories recorded in bubbles.
   reset(variant, n, p, gmp): variant in {"Do","DoContext","Map","MapContext"}, p = requested
   parallelism, gmp = GOMAXPROCS. begin(i, cancelled) / end(i, err, cend) are logged by f itself
   (cancelled / cend: the context handed to the call was already done at entry / at exit; err = 0 or
   the call's own error id 100+i). cancel = the caller's context is cancelled. ret(err, out) = the
   library call returned (err: 0 nil, -1 the caller's context error, else an error id; out = results).
   q = quiescence. *)
EXTENDS Integers, Sequences, FiniteSets, TLC, Json
Trace == ndJsonDeserialize("trace.ndjson")
VARIABLES variant, n, p, gmp, count, running, failed, callerDone, returned, begunCancelled, settled, cerr, l
vars == <<variant, n, p, gmp, count, running, failed, callerDone, returned, begunCancelled, settled, cerr, l>>
\* cerr: the error of the caller's own context once it has ended: -1 cancelled, -2 its deadline passed
Ev == Trace[l]
Idx == 0..(n - 1)
EffP == IF p <= 0 THEN gmp ELSE p
WithCtx == variant \in {"DoContext", "MapContext"}
Init == /\ variant = "" /\ n = 0 /\ p = 1 /\ gmp = 1 /\ count = <<>> /\ running = {} /\ failed = {} /\ callerDone = FALSE /\ cerr = -1
        /\ returned = FALSE /\ begunCancelled = 0 /\ settled = FALSE /\ l = 1 /\ TLCSet(1, 0)
Un(vs) == UNCHANGED vs
Next ==
  /\ l <= Len(Trace) /\ l' = l + 1
  /\ CASE Ev.ev = "reset" ->
            /\ variant' = Ev.variant /\ n' = Ev.n /\ p' = Ev.p /\ gmp' = Ev.gmp /\ count' = [i \in 1..Ev.n |-> 0]
            /\ cerr' = (IF Ev.deadline = 1 THEN -2 ELSE -1) /\ running' = {} /\ failed' = {} /\ callerDone' = FALSE /\ returned' = FALSE /\ begunCancelled' = 0 /\ settled' = FALSE
       [] Ev.ev = "begin" ->
            /\ ~returned                                            \* no call starts after the library call returned
            /\ Ev.i \in Idx /\ count[Ev.i + 1] = 0                  \* each index at most once
            /\ count' = [count EXCEPT ![Ev.i + 1] = 1]
            /\ running' = running \cup {Ev.i} /\ Cardinality(running') <= EffP       \* bounded parallelism
            \* while the caller's context is live at most parallelism-1 calls begin with a cancelled context
            /\ begunCancelled' = (IF Ev.cancelled = 1 /\ ~callerDone THEN begunCancelled + 1 ELSE begunCancelled)
            /\ begunCancelled' <= (IF EffP > 1 THEN EffP - 1 ELSE 0)
            \* once a failure has settled (quiescence passed), nothing new is started
            /\ ~(settled /\ WithCtx)
            /\ Un(<<cerr, variant, n, p, gmp, failed, callerDone, returned, settled>>)
       [] Ev.ev = "end" ->
            /\ Ev.i \in running /\ running' = running \ {Ev.i}
            \* failed: the error ids the calls returned (100 + i, or -1 when a call's own error is context.Canceled)
            /\ failed' = (IF Ev.err # 0 THEN failed \cup {Ev.err} ELSE failed)
            \* after the first failure the context handed to the other calls is cancelled
            /\ ((settled /\ WithCtx) => Ev.cend = 1)
            /\ Un(<<cerr, variant, n, p, gmp, count, callerDone, returned, begunCancelled, settled>>)
       [] Ev.ev = "cancel" -> callerDone' = TRUE /\ Un(<<cerr, variant, n, p, gmp, count, running, failed, returned, begunCancelled, settled>>)
       [] Ev.ev = "ret" ->
            /\ returned' = TRUE /\ Ev.panic = 0
            /\ running = {}                                         \* barrier: every started call has finished
            /\ IF failed = {} /\ ~callerDone
               THEN /\ Ev.err = 0 /\ \A i \in 1..n : count[i] = 1   \* exactly once each
                    /\ (variant \in {"Map", "MapContext"} => Ev.out = [i \in 1..n |-> 1000 + (i - 1)])   \* result i at position i
               ELSE IF failed # {}
               THEN Ev.err \in failed \cup (IF callerDone THEN {cerr} ELSE {})   \* an error one of the calls returned
               ELSE \/ Ev.err = cerr                                 \* the caller's own context error
                    \/ (Ev.err = 0 /\ \A i \in 1..n : count[i] = 1)
            /\ Un(<<cerr, variant, n, p, gmp, count, running, failed, callerDone, begunCancelled, settled>>)
       [] Ev.ev = "q" -> settled' = (settled \/ failed # {}) /\ Un(<<cerr, variant, n, p, gmp, count, running, failed, callerDone, returned, begunCancelled>>)
       [] Ev.ev \in {"rel", "leak"} -> Un(<<cerr, variant, n, p, gmp, count, running, failed, callerDone, returned, begunCancelled, settled>>)
Spec == Init /\ [][Next]_vars
HWM == TLCSet(1, IF TLCGet(1) < l THEN l ELSE TLCGet(1))
Accepted == PrintT(<<"HWM", TLCGet(1)>>) /\ TLCGet(1) = Len(Trace) + 1
=============================================================================
