SPECIFICATION Spec
CONSTANTS
  NIdx = 3
  Par = 1
  FailSet = {1}
  AllowCancel = TRUE
INVARIANTS AtMostOnce Bounded Barrier ExactlyOnce ErrProvenance FailSurfaces FewCancelledStarts
CHECK_DEADLOCK FALSE
