SPECIFICATION Spec
CONSTANTS
  NIdx = 2
  Par = 5
  FailSet = {0}
  AllowCancel = FALSE
INVARIANTS AtMostOnce Bounded Barrier ExactlyOnce ErrProvenance FailSurfaces FewCancelledStarts
CHECK_DEADLOCK FALSE
