SPECIFICATION LSpec
CONSTANTS
  N = 5
  WithCancel = FALSE
VIEW View
ACTION_CONSTRAINT Dump
CHECK_DEADLOCK FALSE
