SPECIFICATION Spec
CONSTANTS
  N = 4
  P = 2
  Buf = 1
  SrcErrAt = 0
  FErr = {}
  AllowClose = TRUE
INVARIANTS TokensOK GapOK NoBeyond Provenance EndComplete EndOnlyIfNoFault NotStuck CloseNotStuck SrcClosedOnce
CHECK_DEADLOCK FALSE
