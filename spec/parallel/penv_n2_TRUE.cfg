SPECIFICATION LSpec
CONSTANTS
  N = 2
  WithCancel = TRUE
VIEW View
ACTION_CONSTRAINT Dump
CHECK_DEADLOCK FALSE
