SPECIFICATION TSpec
CONSTRAINT HWM
POSTCONDITION Accepted
CHECK_DEADLOCK FALSE
