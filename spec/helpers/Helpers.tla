------------------------------ MODULE Helpers ------------------------------
(* C19: the contract of every pure helper in xslices, xsort, xmaps, xmath, xerrors and xrand as a
   function (deterministic helpers) or a relation (under-determined ones) over one recorded call:
   r.fn, inputs r.a r.b r.ss r.x r.y r.z r.t, outputs r.out r.outs r.r r.orig, r.panic.
   Items of the xsort vectors are 10*key + id and the order compares keys only (ties). *)
EXTENDS SeqFuns, TLC, Json
Range(s) == {s[i] : i \in 1..Len(s)}
BagEq(s, t) == Len(s) = Len(t) /\ \A x \in Range(s) \cup Range(t) :
                 Cardinality({i \in 1..Len(s) : s[i] = x}) = Cardinality({i \in 1..Len(t) : t[i] = x})
Cat(ss) == Flat(ss)
Pred(r) == [v \in 1..3 |-> r.t[v]]
KeyT(r) == [v \in 1..3 |-> r.t[v]]
Sel(s, P(_)) == SelectSeq(s, P)
K(x) == x \div 10
SortedByKey(s) == \A i \in 1..(Len(s) - 1) : K(s[i]) <= K(s[i + 1])
Rev(s) == [i \in 1..Len(s) |-> s[Len(s) + 1 - i]]
AllZero(s, from) == \A i \in from..Len(s) : s[i] = 0
FirstIdx(s, P(_)) == IF \E i \in 1..Len(s) : P(s[i]) THEN (CHOOSE i \in 1..Len(s) : P(s[i]) /\ \A j \in 1..(i - 1) : ~P(s[j])) - 1 ELSE -1
LastIdx(s, P(_)) == IF \E i \in 1..Len(s) : P(s[i]) THEN (CHOOSE i \in 1..Len(s) : P(s[i]) /\ \A j \in (i + 1)..Len(s) : ~P(s[j])) - 1 ELSE -1
UniqueF(s) == Pick(s, {i \in 1..Len(s) : \A j \in 1..(i - 1) : s[j] # s[i]})
IdT == [v \in 1..3 |-> v]
SetOfSeq(s) == Range(s)
RECURSIVE InterAll(_)
InterAll(ss) == IF Len(ss) = 1 THEN Range(ss[1]) ELSE Range(Head(ss)) \cap InterAll(Tail(ss))
UnionAll(ss) == UNION {Range(ss[i]) : i \in 1..Len(ss)}
NoPanic(r) == r.panic = 0

HelperOK(r) ==
  LET a == r.a  n == Len(r.a)  fn == r.fn  out == r.out IN
  CASE fn = "Partition" ->
         /\ NoPanic(r) /\ BagEq(out, a) /\ r.r \in 0..n
         /\ \A i \in 1..r.r : Pred(r)[out[i]] = 0
         /\ \A i \in (r.r + 1)..n : Pred(r)[out[i]] = 1
    [] fn = "Filter" -> NoPanic(r) /\ out = Pick(a, FilterIdx(a, Pred(r)))
    [] fn = "FilterInPlace" -> NoPanic(r) /\ out = Pick(a, FilterIdx(a, Pred(r))) /\ SubSeq(r.orig, 1, Len(out)) = out /\ AllZero(r.orig, Len(out) + 1)
    [] fn = "All" -> NoPanic(r) /\ r.r = (IF \A i \in 1..n : Pred(r)[a[i]] = 1 THEN 1 ELSE 0)
    [] fn = "Any" -> NoPanic(r) /\ r.r = (IF \E i \in 1..n : Pred(r)[a[i]] = 1 THEN 1 ELSE 0)
    [] fn = "CountFunc" -> NoPanic(r) /\ r.r = Cardinality(FilterIdx(a, Pred(r)))
    [] fn = "IndexFunc" -> NoPanic(r) /\ r.r = FirstIdx(a, LAMBDA x : Pred(r)[x] = 1)
    [] fn = "LastIndexFunc" -> NoPanic(r) /\ r.r = LastIdx(a, LAMBDA x : Pred(r)[x] = 1)
    [] fn = "Runs" -> NoPanic(r) /\ r.outs = RunsF(a, KeyT(r))
    [] fn = "CompactFunc" -> NoPanic(r) /\ out = Pick(a, CompactIdx(a, KeyT(r)))
    [] fn = "CompactInPlaceFunc" -> NoPanic(r) /\ out = Pick(a, CompactIdx(a, KeyT(r))) /\ SubSeq(r.orig, 1, Len(out)) = out /\ AllZero(r.orig, Len(out) + 1)
    [] fn = "Compact" -> NoPanic(r) /\ out = Pick(a, CompactIdx(a, IdT))
    [] fn = "CompactInPlace" -> NoPanic(r) /\ out = Pick(a, CompactIdx(a, IdT)) /\ SubSeq(r.orig, 1, Len(out)) = out /\ AllZero(r.orig, Len(out) + 1)
    [] fn = "RemoveUnordered" ->      \* bag of the kept elements, length, vacated tail of the original zeroed
         /\ NoPanic(r) /\ Len(out) = n - r.y
         /\ BagEq(out, SubSeq(a, 1, r.x) \o SubSeq(a, r.x + r.y + 1, n))
         /\ SubSeq(out, 1, r.x) = SubSeq(a, 1, r.x)
         /\ SubSeq(r.orig, 1, Len(out)) = out /\ AllZero(r.orig, Len(out) + 1)
    [] fn = "Remove" -> NoPanic(r) /\ out = SubSeq(a, 1, r.x) \o SubSeq(a, r.x + r.y + 1, n)
    [] fn = "Insert" -> NoPanic(r) /\ out = SubSeq(a, 1, r.x) \o r.b \o SubSeq(a, r.x + 1, n)
    [] fn = "Chunk" -> IF r.x <= 0 THEN r.panic = 1 ELSE NoPanic(r) /\ r.outs = ChunkF(a, r.x)
    [] fn = "Shrink" -> NoPanic(r) /\ out = a /\ r.r <= n + r.x /\ r.r >= n
    [] fn = "Count" -> NoPanic(r) /\ r.r = Cardinality({i \in 1..n : a[i] = r.x})
    [] fn = "Index" -> NoPanic(r) /\ r.r = FirstIdx(a, LAMBDA x : x = r.x)
    [] fn = "LastIndex" -> NoPanic(r) /\ r.r = LastIdx(a, LAMBDA x : x = r.x)
    [] fn = "Fill" -> NoPanic(r) /\ out = [i \in 1..n |-> r.x]
    [] fn = "Unique" -> NoPanic(r) /\ out = UniqueF(a)
    [] fn = "UniqueInPlace" -> NoPanic(r) /\ out = UniqueF(a) /\ SubSeq(r.orig, 1, Len(out)) = out /\ AllZero(r.orig, Len(out) + 1)
    [] fn = "Reverse" /\ r.ss = <<>> /\ r.outs = <<>> -> NoPanic(r) /\ out = Rev(a)
    [] fn = "Clone" -> NoPanic(r) /\ out = a
    [] fn = "Clear" -> NoPanic(r) /\ out = [i \in 1..n |-> 0]
    [] fn = "Map" -> NoPanic(r) /\ out = MapF(a)
    [] fn = "Reduce" -> NoPanic(r) /\ r.r = 100 + Sum(a)
    [] fn = "Group" -> NoPanic(r) /\ r.outs[1] = Sel(a, LAMBDA x : x % 2 = 0) /\ r.outs[2] = Sel(a, LAMBDA x : x % 2 = 1)
                       /\ r.r = Cardinality({x % 2 : x \in Range(a)})
    [] fn = "Repeat" -> IF r.y < 0 THEN r.panic = 1 ELSE NoPanic(r) /\ out = [i \in 1..r.y |-> r.x]
    [] fn = "Equal" -> NoPanic(r) /\ r.r = (IF a = r.b THEN 1 ELSE 0)
    [] fn = "Join" -> NoPanic(r) /\ out = Cat(r.ss)
    \* ---- xsort
    [] fn = "Search" -> NoPanic(r) /\ r.r = Cardinality({i \in 1..n : K(a[i]) < K(r.x)})
    [] fn \in {"Merge", "MergeSlices"} -> NoPanic(r) /\ BagEq(out, Cat(r.ss)) /\ SortedByKey(out)
    [] fn = "MinK" ->
         /\ NoPanic(r) /\ Len(out) = Min(Max(r.x, 0), n) /\ SortedByKey(out)
         /\ \A x \in Range(out) : Cardinality({i \in 1..Len(out) : out[i] = x}) <= Cardinality({i \in 1..n : a[i] = x})
         /\ \A i \in 1..n : a[i] \notin Range(out) => \A j \in 1..Len(out) : K(out[j]) <= K(a[i])
    [] fn = "SliceSort" -> NoPanic(r) /\ BagEq(out, a) /\ SortedByKey(out) /\ r.r = 1
    [] fn = "SliceStable" ->
         /\ NoPanic(r) /\ BagEq(out, a) /\ SortedByKey(out)
         /\ \A i, j \in 1..n : (i < j /\ K(out[i]) = K(out[j])) => out[i] % 10 < out[j] % 10    \* ids are input positions
    [] fn = "SliceStableLong" ->      \* items are 100 * key + input position
         /\ NoPanic(r) /\ BagEq(out, a) /\ (\A i \in 1..(n - 1) : out[i] \div 100 <= out[i + 1] \div 100)
         /\ \A i \in 1..(n - 1) : (out[i] \div 100 = out[i + 1] \div 100) => out[i] % 100 < out[i + 1] % 100
    [] fn = "SliceSortLong" -> NoPanic(r) /\ BagEq(out, a) /\ (\A i \in 1..(n - 1) : out[i] \div 100 <= out[i + 1] \div 100) /\ r.r = 1
    [] fn = "SliceIsSorted" -> NoPanic(r) /\ r.r = (IF SortedByKey(a) THEN 1 ELSE 0)
    [] fn = "OrderOps" ->
         LET x == K(r.x)  y == K(r.y) IN
         NoPanic(r) /\ out = << IF x > y THEN 1 ELSE 0, IF x <= y THEN 1 ELSE 0, IF x >= y THEN 1 ELSE 0, IF x = y THEN 1 ELSE 0,
                                 IF y < x THEN 1 ELSE 0, IF x < y THEN -1 ELSE IF x > y THEN 1 ELSE 0 >>
    \* ---- xmaps (sets are logged as sorted sequences)
    [] fn = "Union" -> NoPanic(r) /\ Range(out) = UnionAll(r.ss) /\ Len(out) = Cardinality(UnionAll(r.ss))
    [] fn = "Intersection" -> NoPanic(r) /\ Range(out) = (IF r.ss = <<>> THEN {} ELSE InterAll(r.ss)) /\ Len(out) = Cardinality(Range(out))
    [] fn = "Intersects" -> NoPanic(r) /\ r.r = (IF r.ss # <<>> /\ InterAll(r.ss) # {} THEN 1 ELSE 0)
    [] fn = "Difference" -> NoPanic(r) /\ Range(out) = Range(r.ss[1]) \ Range(r.ss[2]) /\ Len(out) = Cardinality(Range(out))
    [] fn = "SetFromSlice" -> NoPanic(r) /\ Range(out) = Range(a) /\ Len(out) = Cardinality(Range(a)) /\ r.r = 1
    [] fn = "ToIndex" ->
         /\ NoPanic(r) /\ {p[1] : p \in Range(r.outs)} = Range(a) /\ Len(r.outs) = Cardinality(Range(a))
         /\ \A p \in Range(r.outs) : p[2] \in 0..(n - 1) /\ a[p[2] + 1] = p[1]
    [] fn = "Reverse" ->        \* a = the values of a map with keys 1..n; outs = <<value, keys...>>
         /\ NoPanic(r) /\ {p[1] : p \in Range(r.outs)} = Range(a) /\ Len(r.outs) = Cardinality(Range(a))
         /\ \A p \in Range(r.outs) : Range(Tail(p)) = {i \in 1..n : a[i] = p[1]} /\ Len(p) - 1 = Cardinality({i \in 1..n : a[i] = p[1]})
    [] fn = "ReverseSingle" ->
         /\ NoPanic(r) /\ {p[1] : p \in Range(r.outs)} = Range(a) /\ Len(r.outs) = Cardinality(Range(a))
         /\ \A p \in Range(r.outs) : p[2] \in 1..n /\ a[p[2]] = p[1]
         /\ r.r = (IF Cardinality(Range(a)) = n THEN 1 ELSE 0)
    [] fn = "FromKeysAndValues" ->
         IF n # Len(r.b) THEN r.panic = 1
         ELSE /\ NoPanic(r) /\ {p[1] : p \in Range(r.outs)} = Range(a) /\ Len(r.outs) = Cardinality(Range(a))
              /\ \A p \in Range(r.outs) : \E i \in 1..n : a[i] = p[1] /\ r.b[i] = p[2]
              /\ r.r = (IF Cardinality(Range(a)) = n THEN 1 ELSE 0)
    \* ---- xmath
    [] fn = "Abs8" -> IF r.x = -128 THEN r.panic = 1 ELSE NoPanic(r) /\ r.r = (IF r.x < 0 THEN -r.x ELSE r.x)
    [] fn = "Abs16" -> IF r.x = -32768 THEN r.panic = 1 ELSE NoPanic(r) /\ r.r = (IF r.x < 0 THEN -r.x ELSE r.x)
    [] fn = "Abs32" -> IF r.x < -2147483647 THEN r.panic = 1 ELSE NoPanic(r) /\ r.r = (IF r.x < 0 THEN -r.x ELSE r.x)
    [] fn = "Abs64min" -> IF r.x = 0 THEN r.panic = 1 ELSE NoPanic(r) /\ r.r = r.x - 1    \* |min + x| = max - (x - 1)
    [] fn = "Abs64max" -> NoPanic(r) /\ r.r = r.x
    [] fn = "Clamp" -> NoPanic(r) /\ r.r = (IF r.x < r.y THEN r.y ELSE IF r.x > r.z THEN r.z ELSE r.x)
    [] fn = "MinMax" -> NoPanic(r) /\ out = <<Min(r.x, r.y), Max(r.x, r.y)>>
    \* ---- xerrors: out = <<depth before, after one WithStack, after two, Is-all, As, Unwrap-ok, message non-empty>>
    [] fn = "WithStackNil" -> NoPanic(r) /\ r.r = 1
    [] fn = "WithStackDeep" -> NoPanic(r) /\ r.r = 1      \* the added stack names WithStack's caller and the frames above it, at any depth
    [] fn = "WithStack" ->
         /\ NoPanic(r)
         /\ out[2] = (IF r.y = 1 THEN out[1] ELSE out[1] + 1)     \* adds one layer unless a stack is already attached
         /\ out[3] = out[2]                                       \* idempotent
         /\ out[4] = 1 /\ out[5] = 1 /\ out[6] = 1 /\ out[7] = 1  \* transparent to Is / As / Unwrap
    \* ---- xrand: min(k, n) items from pairwise distinct positions; Shuffle is a permutation
    [] fn \in {"Sample", "SampleSlice", "SampleIterator", "SampleStream"} -> NoPanic(r) /\ Len(out) = Min(Max(r.y, 0), r.x) /\ r.r = 1
    [] fn = "Shuffle" -> NoPanic(r) /\ Len(out) = r.x /\ r.r = 1 /\ Range(out) = 0..(r.x - 1)

VARIABLE l
Trace == ndJsonDeserialize("trace.ndjson")
TInit == l = 1 /\ TLCSet(1, 0)
TNext == l <= Len(Trace) /\ (HelperOK(Trace[l]) = TRUE) /\ l' = l + 1
TSpec == TInit /\ [][TNext]_l
HWM == TLCSet(1, IF TLCGet(1) < l THEN l ELSE TLCGet(1))
Accepted == PrintT(<<"HWM", TLCGet(1)>>) /\ TLCGet(1) = Len(Trace) + 1
=============================================================================
