"""Shared machinery of /verif/bin/check (python3, stdlib only).

build harness from /repo's working tree -> run TLC (exhaustive / LTS dump / simulate / trace
validation) -> run the Go harness -> classify violations against KNOWN_FINDINGS.json ->
write evidence/<id>.json.  Exit codes: 0 held, 1 violation (VIOLATION line), 2 machinery trouble.
"""
import hashlib
import json
import os
import re
import shutil
import signal
import subprocess
import sys
import tempfile
import time

VERIF = os.path.dirname(os.path.dirname(os.path.abspath(__file__)))
REPO = os.environ.get("VERIF_REPO", "/repo")
GO = os.environ.get("VERIF_GO", "go1.26.8")
TLA_CP = "/opt/veriftools/tla/tla2tools.jar:/opt/veriftools/tla/CommunityModules-deps.jar"
NCPU = os.cpu_count() or 4


class Trouble(Exception):
    """machinery problem (exit 2) - never a verdict about the code"""


class TLCResult:
    def __init__(self):
        self.rc = None
        self.out = ""
        self.generated = 0
        self.distinct = 0
        self.depth = 0
        self.violated = None      # name of violated invariant / property / "deadlock" / "postcondition"
        self.error = None         # other error text (parse error, runtime error)
        self.coverage = {}        # action -> (distinct, total) when -coverage was on
        self.wall = 0.0

    @property
    def ok(self):
        return self.violated is None and self.error is None and self.rc == 0


class Ctx:
    def __init__(self, pid, tier, seed, replay=None):
        self.pid = pid
        self.tier = tier
        self.seed = seed
        self.replay = replay
        self.t0 = time.time()
        self.scratch = tempfile.mkdtemp(prefix="verif-%s-" % pid.lower())
        self.states = 0
        self.transitions = 0
        self.traces = 0
        self.samples = []
        self.extra = {}
        self.assumptions = []
        self.violations = []      # (what, signature, replay_path)
        self.known_hits = []
        self.notes = []
        self.mc_runs = []
        self._vh = None
        self._vhb = None
        self._children = []
        self.known = json.load(open(os.path.join(VERIF, "KNOWN_FINDINGS.json")))["findings"] \
            if os.path.exists(os.path.join(VERIF, "KNOWN_FINDINGS.json")) else []

    # ---------------------------------------------------------------- utilities
    def quick(self):
        return self.tier == "quick"

    def pick(self, q, t):
        return q if self.tier == "quick" else t

    def log(self, *a):
        print("[%s %6.1fs]" % (self.pid, time.time() - self.t0), *a, flush=True)

    def path(self, *a):
        return os.path.join(self.scratch, *a)

    def goenv(self):
        e = dict(os.environ)
        e.update(GOFLAGS="-mod=mod", GOPROXY="off", GOSUMDB="off", GOTOOLCHAIN="local",
                 CGO_ENABLED=e.get("CGO_ENABLED", "0"))
        return e

    def run(self, cmd, cwd=None, env=None, timeout=None, stdin=None, check=False, capture=True):
        p = subprocess.Popen(cmd, cwd=cwd, env=env, stdin=subprocess.PIPE if stdin is not None else None,
                             stdout=subprocess.PIPE if capture else None,
                             stderr=subprocess.STDOUT if capture else None,
                             text=True, start_new_session=True)
        self._children.append(p)
        try:
            out, _ = p.communicate(stdin, timeout=timeout)
        except subprocess.TimeoutExpired:
            try:
                os.killpg(p.pid, signal.SIGKILL)
            except Exception:
                pass
            out, _ = p.communicate()
            raise Trouble("timeout after %ss: %s\n%s" % (timeout, " ".join(cmd)[:200], (out or "")[-2000:]))
        finally:
            self._children.remove(p)
        if check and p.returncode != 0:
            raise Trouble("command failed rc=%d: %s\n%s" % (p.returncode, " ".join(cmd)[:300], (out or "")[-4000:]))
        return p.returncode, out or ""

    # ---------------------------------------------------------------- harness build
    def harness_dir(self):
        """copy of /verif/harness in scratch with go.mod pointing at REPO (so that VERIF_REPO works)"""
        d = self.path("harness")
        if not os.path.isdir(d):
            shutil.copytree(os.path.join(VERIF, "harness"), d)
            gm = open(os.path.join(d, "go.mod")).read()
            gm = re.sub(r"=> /repo\b", "=> " + REPO, gm)
            open(os.path.join(d, "go.mod"), "w").write(gm)
            shutil.copy(os.path.join(REPO, "go.sum"), os.path.join(d, "go.sum"))
        return d

    def vh(self):
        if self._vh is None:
            out = self.path("vh")
            t = time.time()
            rc, o = self.run([GO, "build", "-tags", "verif", "-o", out, "./cmd/vh"],
                             cwd=self.harness_dir(), env=self.goenv(), timeout=900)
            if rc != 0:
                raise Trouble("harness does not build against %s:\n%s" % (REPO, o[-6000:]))
            self.log("built vh in %.1fs" % (time.time() - t))
            self._vh = out
        return self._vh

    def vhb(self, race=False):
        """test binary with the synctest bubble runner"""
        key = "_vhb_race" if race else "_vhb"
        if getattr(self, key, None) is None:
            out = self.path("vhb-race" if race else "vhb")
            t = time.time()
            cmd = [GO, "test", "-c", "-tags", "verif", "-o", out]
            env = self.goenv()
            if race:
                cmd.append("-race")
                env["CGO_ENABLED"] = "1"
            cmd.append("./bubble")
            rc, o = self.run(cmd, cwd=self.harness_dir(), env=env, timeout=900)
            if rc != 0:
                raise Trouble("bubble harness does not build against %s:\n%s" % (REPO, o[-6000:]))
            self.log("built %s in %.1fs" % (os.path.basename(out), time.time() - t))
            setattr(self, key, out)
        return getattr(self, key)

    def vhb_perturbed(self):
        """bubble test binary built against a copy of REPO in which every statement of the concurrent packages is a
        yield point (harness/cmd/vinstr); the copy is made from the current working tree on every run"""
        if getattr(self, "_vhb_p", None) is None:
            t = time.time()
            tool = self.path("vinstr")
            self.run([GO, "build", "-o", tool, "./cmd/vinstr"], cwd=self.harness_dir(), env=self.goenv(), timeout=900, check=True)
            dst = self.path("repo_instr")
            rc, o = self.run([tool, "-src", REPO, "-dst", dst, "-pkgs", "stream,parallel,chans,xsync,xtime"], timeout=300)
            if rc != 0:
                raise Trouble("vinstr failed:\n" + o[-3000:])
            m = re.search(r"INSTR (\{.*\})", o)
            self.extra["schedule_perturbation"] = json.loads(m.group(1)) if m else {}
            hd = self.path("harness_p")
            shutil.copytree(os.path.join(VERIF, "harness"), hd)
            gm = open(os.path.join(hd, "go.mod")).read()
            gm = re.sub(r"=> /repo\b", "=> " + dst, gm)
            open(os.path.join(hd, "go.mod"), "w").write(gm)
            shutil.copy(os.path.join(REPO, "go.sum"), os.path.join(hd, "go.sum"))
            out = self.path("vhb-p")
            rc, o = self.run([GO, "test", "-c", "-tags", "verif verifsched", "-o", out, "./bubble"], cwd=hd, env=self.goenv(), timeout=900)
            if rc != 0:
                raise Trouble("perturbed bubble harness does not build against the instrumented copy of %s:\n%s" % (REPO, o[-6000:]))
            self.log("built vhb-p (instrumented copy, %s) in %.1fs" % (self.extra["schedule_perturbation"], time.time() - t))
            self._vhb_p = out
        return self._vhb_p

    def run_vh(self, args, timeout=1800, env_extra=None):
        env = self.goenv()
        env["VERIF_SEED"] = str(self.seed)
        env["VERIF_TIER"] = self.tier
        if env_extra:
            env.update(env_extra)
        rc, out = self.run([self.vh()] + args, env=env, timeout=timeout)
        return rc, out

    def run_vhb(self, test, args, timeout=1800, race=False, env_extra=None, perturb=False):
        env = self.goenv()
        if perturb:
            env["VH_PERTURB"] = "1"
            env["GOMAXPROCS"] = "1"
        env["VERIF_SEED"] = str(self.seed)
        env["VERIF_TIER"] = self.tier
        for k, v in args.items():
            env["VH_" + k.upper()] = str(v)
        if env_extra:
            env.update(env_extra)
        rc, out = self.run([self.vhb_perturbed() if perturb else self.vhb(race), "-test.run", "^%s$" % test, "-test.timeout", "%ds" % timeout, "-test.count=1"],
                           env=env, timeout=timeout + 30)
        return rc, out

    # ---------------------------------------------------------------- TLC
    def specdir(self, sub):
        """scratch copy of spec/<sub> + spec/common (TLC litters the directory)"""
        d = self.path("spec-" + sub)
        if not os.path.isdir(d):
            shutil.copytree(os.path.join(VERIF, "spec", sub), d)
            com = os.path.join(VERIF, "spec", "common")
            if os.path.isdir(com):
                for f in os.listdir(com):
                    if not os.path.exists(os.path.join(d, f)):
                        shutil.copy(os.path.join(com, f), os.path.join(d, f))
        return d

    def write_cfg(self, sub, name, text):
        p = os.path.join(self.specdir(sub), name)
        open(p, "w").write(text)
        return name

    def tlc(self, sub, module, cfg, workers=None, timeout=600, simulate=None, depth=None, coverage=False,
            dfs=False, extra=None, heap=None, outfile=None, count=True, defines=None):
        d = self.specdir(sub)
        meta = tempfile.mkdtemp(prefix="meta-", dir=self.scratch)
        jtmp = os.path.join(self.scratch, "jtmp")      # TLC leaves an empty directory per run in java.io.tmpdir
        os.makedirs(jtmp, exist_ok=True)
        jopts = ["-XX:+UseParallelGC", "-Xss64m", "-Djava.io.tmpdir=" + jtmp]
        if heap:
            jopts.append("-Xmx" + heap)
        if dfs:
            jopts.append("-Dtlc2.tool.queue.IStateQueue=StateDeque")
        for k, v in (defines or {}).items():
            jopts.append("-D%s=%s" % (k, v))
        cmd = ["java"] + jopts + ["-cp", TLA_CP, "tlc2.TLC", "-metadir", meta, "-config", cfg,
                                  "-workers", str(workers or min(NCPU, 8)), "-seed", str(self.seed), "-noGenerateSpecTE"]
        if simulate:
            cmd += ["-simulate", simulate]
        if depth:
            cmd += ["-depth", str(depth)]
        if coverage:
            cmd += ["-coverage", "1"]
        if extra:
            cmd += extra
        cmd.append(module)
        t = time.time()
        r = TLCResult()
        if outfile:
            with open(outfile, "w") as f:
                p = subprocess.Popen(cmd, cwd=d, stdout=f, stderr=subprocess.STDOUT, start_new_session=True)
                self._children.append(p)
                try:
                    p.wait(timeout=timeout)
                except subprocess.TimeoutExpired:
                    os.killpg(p.pid, signal.SIGKILL)
                    p.wait()
                    raise Trouble("TLC timeout %ss on %s/%s" % (timeout, module, cfg))
                finally:
                    self._children.remove(p)
            r.rc = p.returncode
            # keep only the non-payload lines in memory
            keep = []
            with open(outfile) as f:
                for line in f:
                    if not line.startswith('<<"'):
                        keep.append(line)
            r.out = "".join(keep)
        else:
            r.rc, r.out = self.run(cmd, cwd=d, timeout=timeout)
        r.wall = time.time() - t
        shutil.rmtree(meta, ignore_errors=True)
        self._parse_tlc(r)
        if count and r.error is None:
            self.states += r.distinct
            self.transitions += r.generated
        self.mc_runs.append({"module": module, "cfg": cfg, "generated": r.generated, "distinct": r.distinct,
                             "depth": r.depth, "wall_s": round(r.wall, 2), "violated": r.violated,
                             "mode": "simulate" if simulate else "bfs"})
        return r

    def _parse_tlc(self, r):
        o = r.out
        m = None
        for m in re.finditer(r"(\d+) states generated, (\d+) distinct states found", o):
            pass
        if m:
            r.generated, r.distinct = int(m.group(1)), int(m.group(2))
        m = re.search(r"The depth of the complete state graph search is (\d+)", o)
        if m:
            r.depth = int(m.group(1))
        m = re.search(r"Error: Invariant (\S+) is violated", o)
        if m:
            r.violated = m.group(1)
        elif re.search(r"Error: Action property (\S+) is violated", o):
            r.violated = re.search(r"Error: Action property (\S+) is violated", o).group(1)
        elif "Temporal properties were violated" in o:
            r.violated = "temporal"
        elif "Deadlock reached" in o:
            r.violated = "deadlock"
        elif re.search(r"Error: Postcondition \S+ .*is false", o):
            r.violated = "postcondition"
        elif "Error:" in o or (r.rc not in (0, None)):
            # anything else: parse errors, evaluation errors, assumption failures
            m = re.search(r"Error:.*(?:\n.*){0,12}", o)
            r.error = m.group(0) if m else "TLC exit code %s\n%s" % (r.rc, o[-1500:])
        for m in re.finditer(r"^<(\w+) line \d+, col \d+ to line \d+, col \d+ of module (\w+)>: (\d+):(\d+)", o, re.M):
            r.coverage[m.group(1)] = (int(m.group(3)), int(m.group(4)))

    def need_ok(self, r, what):
        """exhaustive design-level run must pass; a failure there is machinery/model trouble unless handled by the caller"""
        if r.error:
            raise Trouble("TLC error in %s:\n%s" % (what, r.error))
        if r.violated:
            raise Trouble("MODEL-DRIFT or spec bug: TLC reports %s violated in %s (design-level run on the model, "
                          "not a verdict about the code)\n%s" % (r.violated, what, r.out[-3000:]))
        return r

    def check_coverage(self, r, must=None, ignore=()):
        zero = [a for a, (d, t) in r.coverage.items() if t == 0 and a not in ignore]
        if must:
            for a in must:
                if a not in r.coverage or r.coverage[a][1] == 0:
                    zero.append(a)
        if zero:
            raise Trouble("vacuous model run: actions never taken: %s" % sorted(set(zero)))
        self.extra.setdefault("action_coverage", {}).update({a: t for a, (d, t) in r.coverage.items()})

    def lts(self, sub, module, cfg, out, timeout=900, workers=None):
        """run TLC with the Dump action-constraint; collect the LTS as JSON lines in `out`"""
        raw = out + ".raw"
        r = self.tlc(sub, module, cfg, timeout=timeout, outfile=raw, workers=workers)
        if not r.ok:
            raise Trouble("LTS dump %s/%s failed: %s %s\n%s" % (module, cfg, r.violated, r.error, r.out[-3000:]))
        n = 0
        with open(raw) as f, open(out, "w") as g:
            for line in f:
                if line.startswith('<<"LTS", "') or line.startswith('<<"LTSINIT", "'):
                    kind = "init" if line.startswith('<<"LTSINIT"') else "edge"
                    body = line[line.index(', "') + 3:].rstrip("\n")
                    if body.endswith('">>'):
                        body = body[:-3]
                    body = body.replace('\\"', '"').replace("\\\\", "\\")
                    g.write('{"kind":"%s","d":%s}\n' % (kind, body))
                    n += 1
        os.unlink(raw)
        self.log("lts %s/%s: %d distinct states, %d lines, %.1fs" % (module, cfg, r.distinct, n, r.wall))
        return r, n

    def tv(self, sub, module, cfg, trace_file, timeout=900, silent_steps=False, trace_name="trace.ndjson", count_traces=0):
        """trace validation: copy the ndjson next to the trace spec and run TLC; returns (accepted, TLCResult, hwm)"""
        d = self.specdir(sub)
        dst = os.path.join(d, trace_name)
        if os.path.abspath(trace_file) != os.path.abspath(dst):
            shutil.copy(trace_file, dst)
        r = self.tlc(sub, module, cfg, workers=1 if silent_steps else 1, timeout=timeout, dfs=silent_steps)
        hwm = None
        m = None
        for m in re.finditer(r'"HWM", (\d+)', r.out):
            pass
        if m:
            hwm = int(m.group(1))
        if r.error:
            raise Trouble("TLC error validating %s with %s:\n%s" % (trace_file, module, r.error))
        acc = r.violated is None
        return acc, r, hwm

    # ---------------------------------------------------------------- verdicts
    def sample(self, s, limit=6):
        if len(self.samples) < limit:
            self.samples.append(s)

    def violation(self, what, signature=None, replay=None):
        """a real-code observation outside what the spec allows"""
        signature = signature or {}
        for k in self.known:
            if k.get("status") == "open" and k.get("property") == self.pid and _sig_match(k.get("signature", {}), signature):
                if k["what"] not in self.known_hits:
                    self.known_hits.append(k["what"])
                    print("KNOWN-FINDING: property=%s %s" % (self.pid, k["what"]), flush=True)
                return False
        body = {"property": self.pid, "tier": self.tier, "seed": self.seed, "what": what, "signature": signature,
                "case": replay}
        h = hashlib.sha1(json.dumps(body, sort_keys=True, default=str).encode()).hexdigest()[:12]
        os.makedirs(os.path.join(VERIF, "replays"), exist_ok=True)
        p = os.path.join(VERIF, "replays", "%s-%s.json" % (self.pid, h))
        json.dump(body, open(p, "w"), indent=1, default=str)
        self.violations.append((what, signature, p))
        print("VIOLATION property=%s replay=%s" % (self.pid, p), flush=True)
        print("  what: %s" % what[:1500], flush=True)
        return True

    def harness_report(self, out, what):
        """parse the Go harness's report lines: REPORT {json}; VIOL {json}; returns list of reports"""
        reps = []
        for line in out.splitlines():
            if line.startswith("REPORT "):
                reps.append(json.loads(line[7:]))
            elif line.startswith("VIOL "):
                v = json.loads(line[5:])
                self.violation(v.get("what", what), v.get("sig"), v.get("case"))
            elif line.startswith("NOTE "):
                if len(self.notes) < 20:
                    self.notes.append(line[5:])
            elif line.startswith("SAMPLE "):
                try:
                    self.sample(json.loads(line[7:]))
                except Exception:
                    self.sample(line[7:])
        return reps

    def finish(self):
        wall = time.time() - self.t0
        cov = {
            "states": self.states, "transitions": self.transitions,
            "traces_validated_against_impl": self.traces,
            "samples": self.samples or ["(no sample recorded)"],
            "tlc_runs": self.mc_runs,
            "known_findings_hit": self.known_hits,
            "notes": self.notes,
        }
        cov.update(self.extra)
        ev = {"property_id": self.pid, "tier": self.tier, "seed": self.seed, "level": "model_checking",
              "coverage": cov, "assumptions": self.assumptions, "wall_s": round(wall, 2),
              "violations": len(self.violations)}
        # evidence describes runs against /repo itself; a run against a scratch tree (VERIF_REPO, used by
        # bin/seedtest and bin/selftest) must not overwrite it
        if REPO == "/repo":
            evdir = os.path.join(VERIF, "evidence")
            os.makedirs(evdir, exist_ok=True)
            json.dump(ev, open(os.path.join(evdir, "%s.json" % self.pid), "w"), indent=1, default=str)
        self.cleanup()
        if self.violations:
            self.log("FAILED: %d violation(s)" % len(self.violations))
            return 1
        self.log("OK states=%d transitions=%d traces=%d known=%d wall=%.1fs" %
                 (self.states, self.transitions, self.traces, len(self.known_hits), wall))
        return 0

    def cleanup(self):
        for p in list(self._children):
            try:
                os.killpg(p.pid, signal.SIGKILL)
            except Exception:
                pass
        if os.environ.get("VERIF_KEEP"):
            self.log("scratch kept: " + self.scratch)
        else:
            shutil.rmtree(self.scratch, ignore_errors=True)


def _sig_match(pattern, sig):
    """every key of the known-finding pattern must be present in the signature with an equal value"""
    if not pattern:
        return False
    for k, v in pattern.items():
        if sig.get(k) != v:
            return False
    return True


def library_crash(text):
    """a Go process that died with a panic / fatal error whose innermost non-runtime frame is library code (not the
    harness): returns a one-line description, else None. The library crashing the process it runs in is a verdict
    ("does not panic" is part of every listed property's meaning of a call returning what the spec allows); a crash
    inside the harness is machinery trouble."""
    m = re.search(r"^(panic: .*|fatal error: .*)$", text, re.M)
    if not m:
        return None
    rest = text[m.end():]
    g = re.search(r"^goroutine \d+ .*\[running.*?\]:\n(.*?)(?:\n\n|\Z)", rest, re.M | re.S)
    if not g:
        return None
    lines = g.group(1).split("\n")
    frames = []
    for a, b in zip(lines, lines[1:]):
        if a and not a.startswith("\t") and b.startswith("\t"):
            frames.append((a[:a.rfind("(")] if "(" in a else a, b.strip().split(":")[0]))
    for fn, path in frames:
        if path.startswith("/opt/") or "/src/runtime/" in path or "/src/sync/" in path or "/src/internal/" in path or fn.startswith(("runtime.", "sync.", "panic", "internal/")):
            continue
        if "github.com/bradenaw/juniper/" in fn and "/verifsched" not in fn:
            return "%s in %s" % (m.group(1)[:200], fn)
        return None
    return None


def library_stuck(text):
    """BUBBLE-STUCK dump (harness/bubble watchdog): a goroutine that waits for a sync.Mutex / RWMutex / WaitGroup / Cond from
    inside library code while the bubble cannot make progress: returns a description, else None"""
    if "BUBBLE-STUCK" not in text:
        return None
    dump = text[text.index("BUBBLE-STUCK"):]
    for g in re.split(r"\n\n(?=goroutine \d+ )", dump):
        if not re.search(r"\[(sync\.\w+\.\w+|semacquire|sync\.Mutex\.Lock|sync\.RWMutex\.\w+|sync\.WaitGroup\.Wait|sync\.Cond\.Wait)", g) and "sync.(*Mutex).Lock" not in g and "sync.(*RWMutex)" not in g and "sync.(*WaitGroup).Wait" not in g:
            continue
        lines = g.split("\n")
        for a, b in zip(lines, lines[1:]):
            if a and not a.startswith("\t") and b.startswith("\t"):
                fn = a[:a.rfind("(")] if "(" in a else a
                path = b.strip()
                if path.startswith("/opt/") or fn.startswith(("runtime.", "sync.", "internal/", "golang.org/x/sync")):
                    continue
                if "github.com/bradenaw/juniper/" in fn and "/verifsched" not in fn:
                    return "a goroutine is blocked on a lock / wait group inside %s and nothing else can run" % fn
                break
    return None


def main(argv):
    import importlib.util
    if len(argv) < 2:
        print("usage: check <ID> [quick|thorough] [--replay FILE]")
        return 2
    pid = argv[1].upper()
    tier = os.environ.get("VERIF_TIER", "quick")
    replay = None
    i = 2
    while i < len(argv):
        if argv[i] in ("quick", "thorough"):
            tier = argv[i]
        elif argv[i] == "--replay":
            replay = argv[i + 1]
            i += 1
        i += 1
    seed = int(os.environ.get("VERIF_SEED", "1") or 1)
    if replay:
        # a replay file records the tier, the seed and the rejected case; the check is run again with that tier and seed
        # (every seeded driver and sample then produces the same runs) and the recorded case is shown first
        try:
            rd = json.load(open(replay))
            tier, seed = rd.get("tier", tier), int(rd.get("seed", seed))
            print("replaying %s: tier=%s seed=%s\n  recorded: %s" % (replay, tier, seed, str(rd.get("what"))[:600]), flush=True)
        except Exception as e:
            print("cannot read replay file %s: %s" % (replay, e))
            return 2
    modp = os.path.join(VERIF, "checks", pid.lower() + ".py")
    if not os.path.exists(modp):
        print("no check for", pid)
        return 2
    spec = importlib.util.spec_from_file_location("check_" + pid.lower(), modp)
    mod = importlib.util.module_from_spec(spec)
    sys.path.insert(0, os.path.join(VERIF, "lib"))
    sys.path.insert(0, os.path.join(VERIF, "checks"))
    spec.loader.exec_module(mod)
    ctx = Ctx(pid, tier, seed, replay)

    def on_term(signum, frame):   # killed from outside (e.g. `timeout`): take the child processes along
        for p in list(ctx._children):
            try:
                os.killpg(os.getpgid(p.pid), signal.SIGKILL)
            except Exception:
                try:
                    p.kill()
                except Exception:
                    pass
        ctx.cleanup()
        os._exit(2)
    import signal
    signal.signal(signal.SIGTERM, on_term)
    try:
        mod.run(ctx)
        return ctx.finish()
    except Trouble as e:
        crash = library_crash(str(e))
        stuck = library_stuck(str(e))
        if stuck and not crash:
            ctx.violation("a library call never returns: " + stuck, {"kind": "library-stuck", "where": stuck.split(" inside ")[-1].split(" ")[0]}, None)
            return ctx.finish()
        if crash:
            ctx.violation("the library crashed the process it was running in: " + crash, {"kind": "library-crash", "where": crash.split(" in ")[-1]}, None)
            return ctx.finish()
        if ctx.violations:
            # violations of the property were already established by an earlier part of this check; that a later part of
            # the machinery could not finish (typically because the broken code crashed or hung it) does not undo them
            ctx.notes.append("a later part of the check could not finish: " + str(e)[:500])
            print("NOTE: a later part of the check could not finish (%s); the violations above stand" % str(e)[:200], flush=True)
            return ctx.finish()
        print("TROUBLE (exit 2, not a verdict): %s" % e, flush=True)
        ctx.cleanup()
        return 2
    except KeyboardInterrupt:
        ctx.cleanup()
        return 2
    except Exception:
        import traceback
        traceback.print_exc()
        ctx.cleanup()
        return 2
