// Package helpers records input/output vectors of the pure helpers (xslices, xsort, xmaps, xmath,
// xerrors, xrand) for validation by spec/helpers/Helpers.tla (C19).
package helpers

import (
	"bufio"
	"context"
	"encoding/json"
	"errors"
	"fmt"
	"github.com/bradenaw/juniper/stream"
	"math"
	"math/rand"
	"os"
	"sort"
	"strings"
	"time"

	"github.com/bradenaw/juniper/iterator"
	"github.com/bradenaw/juniper/xerrors"
	"github.com/bradenaw/juniper/xmaps"
	"github.com/bradenaw/juniper/xmath"
	"github.com/bradenaw/juniper/xmath/xrand"
	"github.com/bradenaw/juniper/xslices"
	"github.com/bradenaw/juniper/xsort"
)

// Vec is one recorded call. Every field is always present (TLC cannot test for missing fields cheaply).
type Vec struct {
	Op    string  `json:"op"` // "H"
	Fn    string  `json:"fn"`
	A     []int   `json:"a"`  // first input slice (as given)
	B     []int   `json:"b"`  // second input slice
	SS    [][]int `json:"ss"` // several input slices / sets
	X     int     `json:"x"`  // scalar arguments
	Y     int     `json:"y"`
	Z     int     `json:"z"`
	T     []int   `json:"t"`    // predicate / key table over values 1..3 (index v-1)
	Out   []int   `json:"out"`  // returned slice
	Outs  [][]int `json:"outs"` // returned slice of slices / map as sorted pairs
	R     int     `json:"r"`    // returned scalar (bools as 0/1)
	Orig  []int   `json:"orig"` // the input's backing array after the call (in-place effects)
	Panic int     `json:"panic"`
}

type W struct {
	f    *os.File
	w    *bufio.Writer
	N    int
	ByFn map[string]int
	hung bool
}

func NewW(path string) (*W, error) {
	f, err := os.Create(path)
	if err != nil {
		return nil, err
	}
	return &W{f: f, w: bufio.NewWriterSize(f, 1<<20), ByFn: map[string]int{}}, nil
}
func (w *W) Close() error { w.w.Flush(); return w.f.Close() }

func (w *W) put(v Vec) {
	v.Op = "H"
	if v.A == nil {
		v.A = []int{}
	}
	if v.B == nil {
		v.B = []int{}
	}
	if v.SS == nil {
		v.SS = [][]int{}
	}
	if v.T == nil {
		v.T = []int{1, 1, 1}
	}
	if v.Out == nil {
		v.Out = []int{}
	}
	if v.Outs == nil {
		v.Outs = [][]int{}
	}
	for i := range v.Outs {
		if v.Outs[i] == nil {
			v.Outs[i] = []int{}
		}
	}
	if v.Orig == nil {
		v.Orig = []int{}
	}
	b, _ := json.Marshal(v)
	w.w.Write(b)
	w.w.WriteByte('\n')
	w.N++
	w.ByFn[v.Fn]++
}

// call runs f, recording a panic instead of propagating it.
// call records one vector. A helper that does not return within 20 s is recorded with panic = 2 (no rule accepts it) and
// the remaining vectors are skipped: the goroutine that is stuck inside the library cannot be stopped.
func (w *W) call(v Vec, f func(v *Vec)) {
	if w.hung {
		return
	}
	done := make(chan struct{})
	go func() {
		defer close(done)
		defer func() {
			if recover() != nil {
				v.Panic = 1
			}
		}()
		f(&v)
	}()
	select {
	case <-done:
		w.put(v)
	case <-time.After(20 * time.Second):
		w.hung = true
		w.put(Vec{Op: v.Op, Fn: v.Fn, A: v.A, B: v.B, SS: v.SS, X: v.X, Y: v.Y, Z: v.Z, T: v.T, Panic: 2})
	}
}

//go:noinline
func deepCaller(n int) error {
	if n <= 1 {
		return stackLeafCaller()
	}
	return deepCaller(n - 1)
}

//go:noinline
func stackLeafCaller() error { return xerrors.WithStack(errors.New("leaf")) }

func cp(a []int) []int { return append([]int{}, a...) }
func b2i(b bool) int {
	if b {
		return 1
	}
	return 0
}

func seqs(vals, maxLen int) [][]int {
	out := [][]int{{}}
	level := [][]int{{}}
	for l := 1; l <= maxLen; l++ {
		var next [][]int
		for _, s := range level {
			for v := 1; v <= vals; v++ {
				next = append(next, append(cp(s), v))
			}
		}
		out = append(out, next...)
		level = next
	}
	return out
}

var tables = [][]int{{0, 0, 0}, {0, 0, 1}, {0, 1, 0}, {0, 1, 1}, {1, 0, 0}, {1, 0, 1}, {1, 1, 0}, {1, 1, 1}}
var keyTables = [][]int{{1, 1, 1}, {1, 1, 2}, {1, 2, 1}, {1, 2, 2}, {1, 2, 3}}

func sortedSets(m map[int]struct{}) []int {
	out := []int{}
	for k := range m {
		out = append(out, k)
	}
	sort.Ints(out)
	return out
}

// Slices: xslices over every slice over {1,2,3} up to maxLen (random longer ones when rng != nil).
func Slices(w *W, inputs [][]int) {
	for _, a := range inputs {
		n := len(a)
		for _, t := range tables {
			pred := func(x int) bool { return t[x-1] == 1 }
			w.call(Vec{Fn: "Partition", A: cp(a), T: t}, func(v *Vec) { s := cp(a); v.R = xslices.Partition(s, pred); v.Out = s })
			w.call(Vec{Fn: "Filter", A: cp(a), T: t}, func(v *Vec) { v.Out = xslices.Filter(cp(a), pred) })
			w.call(Vec{Fn: "FilterInPlace", A: cp(a), T: t}, func(v *Vec) { s := cp(a); v.Out = xslices.FilterInPlace(s, pred); v.Orig = s })
			w.call(Vec{Fn: "All", A: cp(a), T: t}, func(v *Vec) { v.R = b2i(xslices.All(a, pred)) })
			w.call(Vec{Fn: "Any", A: cp(a), T: t}, func(v *Vec) { v.R = b2i(xslices.Any(a, pred)) })
			w.call(Vec{Fn: "CountFunc", A: cp(a), T: t}, func(v *Vec) { v.R = xslices.CountFunc(a, pred) })
			w.call(Vec{Fn: "IndexFunc", A: cp(a), T: t}, func(v *Vec) { v.R = xslices.IndexFunc(a, pred) })
			w.call(Vec{Fn: "LastIndexFunc", A: cp(a), T: t}, func(v *Vec) { v.R = xslices.LastIndexFunc(a, pred) })
		}
		for _, t := range keyTables {
			same := func(x, y int) bool { return t[x-1] == t[y-1] }
			w.call(Vec{Fn: "Runs", A: cp(a), T: t}, func(v *Vec) { v.Outs = xslices.Runs(cp(a), same) })
			w.call(Vec{Fn: "CompactFunc", A: cp(a), T: t}, func(v *Vec) { v.Out = xslices.CompactFunc(cp(a), same) })
			w.call(Vec{Fn: "CompactInPlaceFunc", A: cp(a), T: t}, func(v *Vec) { s := cp(a); v.Out = xslices.CompactInPlaceFunc(s, same); v.Orig = s })
		}
		for idx := 0; idx <= n; idx++ {
			if n > 5 && idx%7 != n%7 && idx != 0 && idx != n {
				continue // long random slices: a few positions only
			}
			for cnt := 0; idx+cnt <= n; cnt++ {
				if n > 5 && cnt > 2 && idx+cnt != n {
					continue
				}
				w.call(Vec{Fn: "RemoveUnordered", A: cp(a), X: idx, Y: cnt}, func(v *Vec) { s := cp(a); v.Out = xslices.RemoveUnordered(s, idx, cnt); v.Orig = s })
				w.call(Vec{Fn: "Remove", A: cp(a), X: idx, Y: cnt}, func(v *Vec) { s := cp(a); v.Out = xslices.Remove(s, idx, cnt) })
			}
			for _, vals := range [][]int{{}, {7}, {7, 8}} {
				w.call(Vec{Fn: "Insert", A: cp(a), X: idx, B: vals}, func(v *Vec) { v.Out = xslices.Insert(cp(a), idx, vals...) })
			}
		}
		for c := -2; c <= n+1; c++ {
			w.call(Vec{Fn: "Chunk", A: cp(a), X: c}, func(v *Vec) { v.Outs = xslices.Chunk(cp(a), c) })
		}
		for extra := 0; extra <= 3; extra++ {
			for k := 0; k <= 3; k++ {
				w.call(Vec{Fn: "Shrink", A: cp(a), X: k, Y: extra}, func(v *Vec) {
					s := make([]int, n, n+extra)
					copy(s, a)
					out := xslices.Shrink(s, k)
					v.Out, v.R = out, cap(out)
				})
			}
		}
		for x := 1; x <= 4; x++ {
			w.call(Vec{Fn: "Count", A: cp(a), X: x}, func(v *Vec) { v.R = xslices.Count(a, x) })
			w.call(Vec{Fn: "Index", A: cp(a), X: x}, func(v *Vec) { v.R = xslices.Index(a, x) })
			w.call(Vec{Fn: "LastIndex", A: cp(a), X: x}, func(v *Vec) { v.R = xslices.LastIndex(a, x) })
			w.call(Vec{Fn: "Fill", A: cp(a), X: x}, func(v *Vec) { s := cp(a); xslices.Fill(s, x); v.Out = s })
		}
		w.call(Vec{Fn: "Unique", A: cp(a)}, func(v *Vec) { v.Out = xslices.Unique(cp(a)) })
		w.call(Vec{Fn: "UniqueInPlace", A: cp(a)}, func(v *Vec) { s := cp(a); v.Out = xslices.UniqueInPlace(s); v.Orig = s })
		w.call(Vec{Fn: "Compact", A: cp(a)}, func(v *Vec) { v.Out = xslices.Compact(cp(a)) })
		w.call(Vec{Fn: "CompactInPlace", A: cp(a)}, func(v *Vec) { s := cp(a); v.Out = xslices.CompactInPlace(s); v.Orig = s })
		w.call(Vec{Fn: "Reverse", A: cp(a)}, func(v *Vec) { s := cp(a); xslices.Reverse(s); v.Out = s })
		w.call(Vec{Fn: "Clone", A: cp(a)}, func(v *Vec) { v.Out = xslices.Clone(a) })
		w.call(Vec{Fn: "Clear", A: cp(a)}, func(v *Vec) { s := cp(a); xslices.Clear(s); v.Out = s })
		w.call(Vec{Fn: "Map", A: cp(a)}, func(v *Vec) { v.Out = xslices.Map(a, func(x int) int { return x + 10 }) })
		w.call(Vec{Fn: "Reduce", A: cp(a)}, func(v *Vec) { v.R = xslices.Reduce(a, 100, func(acc, x int) int { return acc + x }) })
		w.call(Vec{Fn: "Group", A: cp(a)}, func(v *Vec) {
			g := xslices.Group(a, func(x int) int { return x % 2 })
			v.Outs = [][]int{g[0], g[1]}
			v.R = len(g)
		})
	}
	for n := -1; n <= 5; n++ {
		w.call(Vec{Fn: "Repeat", X: 2, Y: n}, func(v *Vec) { v.Out = xslices.Repeat(2, n) })
	}
	// pairs and triples of slices
	small := seqs(2, 2)
	for _, a := range small {
		for _, b := range small {
			w.call(Vec{Fn: "Equal", A: cp(a), B: cp(b)}, func(v *Vec) { v.R = b2i(xslices.Equal(a, b)) })
			w.call(Vec{Fn: "Join", SS: [][]int{cp(a), cp(b)}}, func(v *Vec) { v.Out = xslices.Join(a, b) })
			for _, c := range small {
				w.call(Vec{Fn: "Join", SS: [][]int{cp(a), cp(b), cp(c)}}, func(v *Vec) { v.Out = xslices.Join(a, b, c) })
			}
		}
		w.call(Vec{Fn: "Join", SS: [][]int{cp(a)}}, func(v *Vec) { v.Out = xslices.Join(a) })
	}
	w.call(Vec{Fn: "Join"}, func(v *Vec) { v.Out = xslices.Join[int]() })
}

// item = 10*key + id: orders compare keys only (ties between items with the same key)
func lessKey(a, b int) bool { return a/10 < b/10 }

func sortedInputs(maxLen int) [][]int {
	var out [][]int
	for _, s := range seqs(3, maxLen) {
		ok := true
		for i := 1; i < len(s); i++ {
			if s[i-1] > s[i] {
				ok = false
			}
		}
		if ok {
			t := make([]int, len(s))
			for i, k := range s {
				t[i] = 10*k + i + 1 // distinguishable items, equal keys are ties
			}
			out = append(out, t)
		}
	}
	return out
}

func Sorts(w *W, maxLen int, lrng *rand.Rand) {
	sorted := sortedInputs(maxLen)
	for _, a := range sorted {
		for k := 0; k <= 4; k++ {
			item := 10*k + 9
			w.call(Vec{Fn: "Search", A: cp(a), X: item}, func(v *Vec) { v.R = xsort.Search(a, lessKey, item) })
		}
	}
	short := sortedInputs(2)
	lists := [][][]int{{}}
	for _, a := range short {
		lists = append(lists, [][]int{a})
		for _, b := range short {
			lists = append(lists, [][]int{a, b})
			for _, c := range short {
				lists = append(lists, [][]int{a, b, c})
			}
		}
	}
	for _, in := range lists {
		ss := make([][]int, len(in))
		for i := range in {
			ss[i] = cp(in[i])
		}
		w.call(Vec{Fn: "Merge", SS: ss}, func(v *Vec) {
			its := make([]iterator.Iterator[int], len(in))
			for i := range in {
				its[i] = iterator.Slice(in[i])
			}
			v.Out = iterator.Collect(xsort.Merge(lessKey, its...))
		})
		w.call(Vec{Fn: "MergeSlices", SS: ss}, func(v *Vec) { v.Out = xsort.MergeSlices(lessKey, nil, in...) })
		// the documented "pre-allocated out": a buffer that still holds old contents, with and without enough capacity
		w.call(Vec{Fn: "MergeSlices", SS: ss}, func(v *Vec) {
			buf := make([]int, 2, 64)
			buf[0], buf[1] = 991, 992
			v.Out = xsort.MergeSlices(lessKey, buf, in...)
		})
		w.call(Vec{Fn: "MergeSlices", SS: ss}, func(v *Vec) { v.Out = xsort.MergeSlices(lessKey, []int{993}, in...) })
	}
	for _, s := range seqs(3, maxLen) {
		a := make([]int, len(s))
		for i, k := range s {
			a[i] = 10*k + i + 1
		}
		for k := 0; k <= len(a)+1; k++ {
			w.call(Vec{Fn: "MinK", A: cp(a), X: k}, func(v *Vec) { v.Out = xsort.MinK(lessKey, iterator.Slice(cp(a)), k) })
		}
		// extreme counts: "fewer than k items: all of them" holds for any k, a negative k yields nothing (the count is
		// logged clipped to 32 bits, TLC's integer range)
		for _, k := range []int{-3, -1, math.MaxInt, math.MaxInt - 1, math.MaxInt / 2} {
			lk := k
			if lk > math.MaxInt32 {
				lk = math.MaxInt32
			}
			w.call(Vec{Fn: "MinK", A: cp(a), X: lk}, func(v *Vec) { v.Out = xsort.MinK(lessKey, iterator.Slice(cp(a)), k) })
		}
		w.call(Vec{Fn: "SliceSort", A: cp(a)}, func(v *Vec) {
			t := cp(a)
			xsort.Slice(t, lessKey)
			v.Out = t
			v.R = b2i(xsort.SliceIsSorted(t, lessKey))
		})
		w.call(Vec{Fn: "SliceStable", A: cp(a)}, func(v *Vec) { t := cp(a); xsort.SliceStable(t, lessKey); v.Out = t })
		w.call(Vec{Fn: "SliceIsSorted", A: cp(a)}, func(v *Vec) { v.R = b2i(xsort.SliceIsSorted(a, lessKey)) })
	}
	// long inputs (13..60 items over 3 keys: sort implementations switch algorithm with the length); an item is
	// 100*key + input position
	less100 := func(a, b int) bool { return a/100 < b/100 }
	for n := 0; n < 150; n++ {
		l := 13 + lrng.Intn(48)
		a := make([]int, l)
		for i := range a {
			a[i] = 100*(1+lrng.Intn(3)) + i + 1
		}
		w.call(Vec{Fn: "SliceStableLong", A: cp(a)}, func(v *Vec) { t := cp(a); xsort.SliceStable(t, less100); v.Out = t })
		w.call(Vec{Fn: "SliceSortLong", A: cp(a)}, func(v *Vec) {
			t := cp(a)
			xsort.Slice(t, less100)
			v.Out = t
			v.R = b2i(xsort.SliceIsSorted(t, less100))
		})
	}
	for a := 0; a <= 2; a++ {
		for b := 0; b <= 2; b++ {
			x, y := 10*a+1, 10*b+2
			w.call(Vec{Fn: "OrderOps", X: x, Y: y}, func(v *Vec) {
				v.Out = []int{b2i(xsort.Greater(lessKey, x, y)), b2i(xsort.LessOrEqual(lessKey, x, y)), b2i(xsort.GreaterOrEqual(lessKey, x, y)),
					b2i(xsort.Equal(lessKey, x, y)), b2i(xsort.Reverse(lessKey)(x, y)), xsort.LessCompare(lessKey)(x, y)}
			})
		}
	}
}

func setOf(a []int) xmaps.Set[int] { return xmaps.SetFromSlice(a) }

func Maps(w *W) {
	subsets := [][]int{{}, {1}, {2}, {3}, {1, 2}, {1, 3}, {2, 3}, {1, 2, 3}}
	var lists [][][]int
	lists = append(lists, [][]int{})
	for _, a := range subsets {
		lists = append(lists, [][]int{a})
		for _, b := range subsets {
			lists = append(lists, [][]int{a, b})
			for _, c := range subsets {
				lists = append(lists, [][]int{a, b, c})
			}
		}
	}
	for _, in := range lists {
		sets := make([]xmaps.Set[int], len(in))
		for i := range in {
			sets[i] = setOf(in[i])
		}
		w.call(Vec{Fn: "Union", SS: in}, func(v *Vec) { v.Out = sortedSets(xmaps.Union(sets...)) })
		w.call(Vec{Fn: "Intersection", SS: in}, func(v *Vec) { v.Out = sortedSets(xmaps.Intersection(sets...)) })
		w.call(Vec{Fn: "Intersects", SS: in}, func(v *Vec) { v.R = b2i(xmaps.Intersects(sets...)) })
		if len(in) == 2 {
			w.call(Vec{Fn: "Difference", SS: in}, func(v *Vec) { v.Out = sortedSets(xmaps.Difference(sets[0], sets[1])) })
		}
	}
	for _, a := range seqs(3, 4) {
		w.call(Vec{Fn: "SetFromSlice", A: cp(a)}, func(v *Vec) {
			s := setOf(a)
			v.Out = sortedSets(s)
			s.Add(9)
			s.Remove(1)
			v.R = b2i(s.Contains(9)) + 2*b2i(s.Contains(1))
		})
		w.call(Vec{Fn: "ToIndex", A: cp(a)}, func(v *Vec) {
			m := xmaps.ToIndex(a)
			for k := 1; k <= 3; k++ {
				if i, ok := m[k]; ok {
					v.Outs = append(v.Outs, []int{k, i})
				}
			}
		})
		// a as the values of a map with keys 1..len(a)
		m := map[int]int{}
		for i, x := range a {
			m[i+1] = x
		}
		w.call(Vec{Fn: "Reverse", A: cp(a)}, func(v *Vec) {
			r := xmaps.Reverse(m)
			for val := 1; val <= 3; val++ {
				if ks, ok := r[val]; ok {
					sort.Ints(ks)
					v.Outs = append(v.Outs, append([]int{val}, ks...))
				}
			}
		})
		w.call(Vec{Fn: "ReverseSingle", A: cp(a)}, func(v *Vec) {
			r, ok := xmaps.ReverseSingle(m)
			v.R = b2i(ok)
			for val := 1; val <= 3; val++ {
				if k, has := r[val]; has {
					v.Outs = append(v.Outs, []int{val, k})
				}
			}
		})
		for _, b := range seqs(2, 3) {
			if len(b) < len(a)-1 || len(b) > len(a)+1 {
				continue
			}
			w.call(Vec{Fn: "FromKeysAndValues", A: cp(a), B: cp(b)}, func(v *Vec) {
				m, ok := xmaps.FromKeysAndValues(a, b)
				v.R = b2i(ok)
				for k := 1; k <= 3; k++ {
					if val, has := m[k]; has {
						v.Outs = append(v.Outs, []int{k, val})
					}
				}
			})
		}
	}
}

func Maths(w *W) {
	// int8: every value; the result is recorded widened
	for x := math.MinInt8; x <= math.MaxInt8; x++ {
		w.call(Vec{Fn: "Abs8", X: x}, func(v *Vec) { v.R = int(xmath.Abs(int8(x))) })
	}
	for _, x := range []int{math.MinInt16, math.MinInt16 + 1, -1, 0, 1, math.MaxInt16} {
		w.call(Vec{Fn: "Abs16", X: x}, func(v *Vec) { v.R = int(xmath.Abs(int16(x))) })
	}
	for _, x := range []int{math.MinInt32, math.MinInt32 + 1, -7, 0, 7, math.MaxInt32} {
		w.call(Vec{Fn: "Abs32", X: x}, func(v *Vec) { v.R = int(xmath.Abs(int32(x))) })
	}
	// int64 extremes are recorded relative to the extremes (TLC integers are 32 bit)
	for off := 0; off <= 2; off++ {
		w.call(Vec{Fn: "Abs64min", X: off}, func(v *Vec) { r := xmath.Abs(int64(math.MinInt64) + int64(off)); v.R = int(int64(math.MaxInt64) - r) })
		w.call(Vec{Fn: "Abs64max", X: off}, func(v *Vec) { r := xmath.Abs(int64(math.MaxInt64) - int64(off)); v.R = int(int64(math.MaxInt64) - r) })
	}
	for x := -3; x <= 3; x++ {
		for lo := -2; lo <= 2; lo++ {
			for hi := lo; hi <= 2; hi++ {
				w.call(Vec{Fn: "Clamp", X: x, Y: lo, Z: hi}, func(v *Vec) { v.R = xmath.Clamp(x, lo, hi) })
			}
		}
		for y := -3; y <= 3; y++ {
			w.call(Vec{Fn: "MinMax", X: x, Y: y}, func(v *Vec) { v.Out = []int{xmath.Min(x, y), xmath.Max(x, y)} })
		}
	}
}

type errLeaf struct{ id int }

func (e *errLeaf) Error() string { return fmt.Sprintf("leaf %d", e.id) }

func chainDepth(err error) int {
	d := 0
	for err != nil {
		d++
		err = errors.Unwrap(err)
	}
	return d
}

func Errors(w *W) {
	w.call(Vec{Fn: "WithStackNil"}, func(v *Vec) { v.R = b2i(xerrors.WithStack(nil) == nil) })
	// the stack that WithStack adds to Error() names its caller, however deep the call stack is (here 1, 40, 70, 200 frames
	// of recursion below this point)
	for _, depth := range []int{1, 40, 70, 200} {
		w.call(Vec{Fn: "WithStackDeep", X: depth}, func(v *Vec) {
			e := deepCaller(depth)
			txt := e.Error()
			v.R = b2i(strings.Contains(txt, "helpers.stackLeafCaller") && strings.Contains(txt, "helpers.deepCaller"))
		})
	}
	for depth := 1; depth <= 3; depth++ {
		for pre := 0; pre <= 1; pre++ { // pre = 1: a stack is already attached somewhere inside the chain
			w.call(Vec{Fn: "WithStack", X: depth, Y: pre}, func(v *Vec) {
				leaf := &errLeaf{depth}
				chain := []error{leaf}
				var e error = leaf
				if pre == 1 {
					e = xerrors.WithStack(e)
				}
				for i := 1; i < depth; i++ {
					e = fmt.Errorf("wrap %d: %w", i, e)
					chain = append(chain, e)
				}
				d0 := chainDepth(e)
				w1 := xerrors.WithStack(e)
				w2 := xerrors.WithStack(w1)
				isAll := 1
				for _, m := range chain {
					if !errors.Is(w1, m) || !errors.Is(w2, m) {
						isAll = 0
					}
				}
				var target *errLeaf
				as := errors.As(w2, &target) && target == leaf
				// out: [depth before, depth after one WithStack, after two, Is-all, As, Unwrap(w1) gives e (when a stack was added)]
				unwrapOK := 1
				if chainDepth(w1) == d0+1 && errors.Unwrap(w1) != e {
					unwrapOK = 0
				}
				v.Out = []int{d0, chainDepth(w1), chainDepth(w2), isAll, b2i(as), unwrapOK, b2i(len(w1.Error()) > 0)}
			})
		}
	}
}

func distinctPositions(out []int, n int) int {
	seen := map[int]bool{}
	for _, x := range out {
		if x < 0 || x >= n || seen[x] {
			return 0
		}
		seen[x] = true
	}
	return 1
}

// Rands: structural contract of the sampling functions (distinct positions, count) and Shuffle.
// Items are the positions themselves, so that "distinct positions" is observable.
func Rands(w *W, rng *rand.Rand, seeds int) {
	for n := 0; n <= 6; n++ {
		for k := 0; k <= 7; k++ {
			for s := 0; s < seeds; s++ {
				r := rand.New(rand.NewSource(rng.Int63()))
				a := make([]int, n)
				for i := range a {
					a[i] = i
				}
				w.call(Vec{Fn: "Sample", X: n, Y: k}, func(v *Vec) { v.Out = xrand.RSample(r, n, k); v.R = distinctPositions(v.Out, n) })
				w.call(Vec{Fn: "SampleSlice", X: n, Y: k}, func(v *Vec) { v.Out = xrand.RSampleSlice(r, cp(a), k); v.R = distinctPositions(v.Out, n) })
				w.call(Vec{Fn: "SampleIterator", X: n, Y: k}, func(v *Vec) {
					v.Out = xrand.RSampleIterator(r, iterator.Slice(cp(a)), k)
					v.R = distinctPositions(v.Out, n)
				})
				w.call(Vec{Fn: "SampleStream", X: n, Y: k}, func(v *Vec) {
					out, err := xrand.RSampleStream(context.Background(), r, stream.FromIterator(iterator.Slice(cp(a))), k)
					v.Out = out
					v.R = distinctPositions(v.Out, n)
					if err != nil {
						v.R = 0
					}
				})
			}
		}
		for s := 0; s < seeds; s++ {
			r := rand.New(rand.NewSource(rng.Int63()))
			a := make([]int, n)
			for i := range a {
				a[i] = i
			}
			w.call(Vec{Fn: "Shuffle", X: n}, func(v *Vec) { t := cp(a); xrand.RShuffle(r, t); v.Out = t; v.R = distinctPositions(t, n) })
		}
	}
	// the package-level (global source) variants: structure only
	for n := 0; n <= 4; n++ {
		w.call(Vec{Fn: "Sample", X: n, Y: 2}, func(v *Vec) { v.Out = xrand.Sample(n, 2); v.R = distinctPositions(v.Out, n) })
	}
}

// ChiSquare is the auxiliary (not model-decided) uniformity test: frequency of every k-subset of
// n positions over many seeded samples. Returns the statistic and the degrees of freedom.
func ChiSquare(rng *rand.Rand, n, k, trials int, f func(r *rand.Rand, n, k int) []int) (float64, int) {
	counts := map[string]int{}
	for t := 0; t < trials; t++ {
		out := f(rand.New(rand.NewSource(rng.Int63())), n, k)
		s := cp(out)
		sort.Ints(s)
		counts[fmt.Sprint(s)]++
	}
	nsub := 1
	for i := 0; i < k; i++ {
		nsub = nsub * (n - i) / (i + 1)
	}
	exp := float64(trials) / float64(nsub)
	chi := 0.0
	for _, c := range counts {
		chi += (float64(c) - exp) * (float64(c) - exp) / exp
	}
	chi += float64(nsub-len(counts)) * exp
	return chi, nsub - 1
}

// Inputs: every slice over {1,2,3} up to maxLen plus nrand random longer ones (length <= 30).
func Inputs(maxLen, nrand int, rng *rand.Rand) [][]int {
	out := seqs(3, maxLen)
	for i := 0; i < nrand; i++ {
		l := 5 + rng.Intn(26)
		s := make([]int, l)
		for j := range s {
			s[j] = 1 + rng.Intn(3)
		}
		out = append(out, s)
	}
	return out
}

// ChiAll runs the auxiliary uniformity test for a few (n, k) and the three samplers.
func ChiAll(rng *rand.Rand, trials int) []map[string]any {
	var out []map[string]any
	fns := map[string]func(r *rand.Rand, n, k int) []int{
		"Sample": func(r *rand.Rand, n, k int) []int { return xrand.RSample(r, n, k) },
		"SampleSlice": func(r *rand.Rand, n, k int) []int {
			a := make([]int, n)
			for i := range a {
				a[i] = i
			}
			return xrand.RSampleSlice(r, a, k)
		},
		"SampleIterator": func(r *rand.Rand, n, k int) []int {
			a := make([]int, n)
			for i := range a {
				a[i] = i
			}
			return xrand.RSampleIterator(r, iterator.Slice(a), k)
		},
	}
	for _, name := range []string{"Sample", "SampleIterator", "SampleSlice"} {
		for _, nk := range [][2]int{{4, 2}, {5, 2}, {6, 3}, {5, 1}, {5, 4}} {
			chi, df := ChiSquare(rng, nk[0], nk[1], trials, fns[name])
			out = append(out, map[string]any{"fn": name, "n": nk[0], "k": nk[1], "chi2": chi, "df": df})
		}
	}
	return out
}
