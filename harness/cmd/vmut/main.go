// vmut - generator of single-site syntactic mutants of one Go source file (relational / arithmetic / boolean
// operator replacement, negated conditions, deleted statements). Used by bin/mutscan to probe the checks with
// many small changes: a mutant that still compiles and passes the repository's own tests but is not flagged by
// any check of the properties its file belongs to is either equivalent or a gap worth looking at.
//
// usage: vmut -file path.go -n 20 -seed 1 -out dir   (writes dir/m<k>.go and dir/m<k>.txt)
package main

import (
	"bytes"
	"flag"
	"fmt"
	"go/ast"
	"go/parser"
	"go/printer"
	"go/token"
	"math/rand"
	"os"
	"path/filepath"
)

type site struct {
	desc  string
	apply func()
	undo  func()
}

func main() {
	file := flag.String("file", "", "source file")
	n := flag.Int("n", 10, "number of mutants")
	seed := flag.Int64("seed", 1, "seed")
	out := flag.String("out", "", "output directory")
	flag.Parse()
	src, err := os.ReadFile(*file)
	if err != nil {
		fmt.Println(err)
		os.Exit(2)
	}
	fset := token.NewFileSet()
	f, err := parser.ParseFile(fset, *file, src, parser.ParseComments)
	if err != nil {
		fmt.Println(err)
		os.Exit(2)
	}
	var sites []site
	pos := func(p token.Pos) string { return fmt.Sprintf("line %d", fset.Position(p).Line) }
	swap := map[token.Token][]token.Token{
		token.LSS: {token.LEQ, token.GEQ}, token.LEQ: {token.LSS}, token.GTR: {token.GEQ, token.LEQ}, token.GEQ: {token.GTR},
		token.EQL: {token.NEQ}, token.NEQ: {token.EQL}, token.ADD: {token.SUB}, token.SUB: {token.ADD},
		token.LAND: {token.LOR}, token.LOR: {token.LAND}, token.MUL: {token.QUO}, token.REM: {token.QUO},
	}
	ast.Inspect(f, func(x ast.Node) bool {
		switch x := x.(type) {
		case *ast.FuncDecl:
			if x.Body == nil {
				return false
			}
		case *ast.BinaryExpr:
			old := x.Op
			for _, nw := range swap[old] {
				nw := nw
				if old == token.ADD { // string concatenation cannot become a subtraction
					if lit, ok := x.Y.(*ast.BasicLit); ok && lit.Kind == token.STRING {
						continue
					}
				}
				sites = append(sites, site{fmt.Sprintf("%s: %s -> %s", pos(x.OpPos), old, nw), func() { x.Op = nw }, func() { x.Op = old }})
			}
		case *ast.IfStmt:
			c := x.Cond
			sites = append(sites, site{fmt.Sprintf("%s: negate if condition", pos(x.If)),
				func() { x.Cond = &ast.UnaryExpr{Op: token.NOT, X: &ast.ParenExpr{X: c}} }, func() { x.Cond = c }})
		case *ast.BlockStmt:
			for i, s := range x.List {
				i, s := i, s
				del := false
				switch t := s.(type) {
				case *ast.ExprStmt:
					del = true
				case *ast.IncDecStmt:
					del = true
				case *ast.AssignStmt:
					del = t.Tok != token.DEFINE
				case *ast.DeferStmt, *ast.GoStmt:
					del = true
				}
				if del {
					sites = append(sites, site{fmt.Sprintf("%s: delete statement", pos(s.Pos())),
						func() { x.List[i] = &ast.EmptyStmt{Semicolon: s.Pos(), Implicit: true} }, func() { x.List[i] = s }})
				}
			}
		case *ast.BasicLit:
			if x.Kind == token.INT && (x.Value == "0" || x.Value == "1") {
				old := x.Value
				nw := "1"
				if old == "1" {
					nw = "0"
				}
				sites = append(sites, site{fmt.Sprintf("%s: literal %s -> %s", pos(x.ValuePos), old, nw), func() { x.Value = nw }, func() { x.Value = old }})
			}
		}
		return true
	})
	rng := rand.New(rand.NewSource(*seed))
	rng.Shuffle(len(sites), func(i, j int) { sites[i], sites[j] = sites[j], sites[i] })
	if *n > len(sites) {
		*n = len(sites)
	}
	if err := os.MkdirAll(*out, 0o755); err != nil {
		fmt.Println(err)
		os.Exit(2)
	}
	for k := 0; k < *n; k++ {
		s := sites[k]
		s.apply()
		var buf bytes.Buffer
		if err := (&printer.Config{Mode: printer.UseSpaces | printer.TabIndent, Tabwidth: 8}).Fprint(&buf, fset, f); err != nil {
			fmt.Println(err)
			os.Exit(2)
		}
		s.undo()
		os.WriteFile(filepath.Join(*out, fmt.Sprintf("m%03d.go", k)), buf.Bytes(), 0o644)
		os.WriteFile(filepath.Join(*out, fmt.Sprintf("m%03d.txt", k)), []byte(s.desc+"\n"), 0o644)
	}
	fmt.Printf("VMUT {\"sites\": %d, \"written\": %d}\n", len(sites), *n)
}
