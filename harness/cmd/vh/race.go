package main

import (
	"fmt"

	"github.com/bradenaw/juniper/chans"
	"os"
	"reflect"
	"sync"

	"verifharness/subj"
)

// cmdRace (built with -race): several goroutines Put distinct keys that are already present while
// others Get/Contains other keys. The race detector must stay silent, every Put must have taken
// effect, and the tree structure (and gen) must be untouched by those Puts.
func cmdRace(args []string) {
	const n, writers, readers, rounds = 3000, 6, 6, 40
	for _, variant := range []string{"int", "cmp", "str", "rev", "set"} {
		m := subj.NewSMap(variant, n, nil)
		for k := 1; k <= n; k += 2 { // odd keys present, even keys absent
			m.Put(k, 1)
		}
		before := m.(interface{ ShapeInt() subj.ShapeInt }).ShapeInt()
		var wg sync.WaitGroup
		// writer w owns the present keys with (k/2)%(writers+readers) == w; readers read the rest
		owner := func(k int) int { return (k / 2) % (writers + readers) }
		for w := 0; w < writers; w++ {
			wg.Add(1)
			go func(w int) {
				defer wg.Done()
				for r := 1; r <= rounds; r++ {
					for k := 1; k <= n; k += 2 {
						if owner(k) == w {
							m.Put(k, 1+(r+w)%5)
						}
					}
				}
			}(w)
		}
		bad := make([]string, readers)
		for rd := 0; rd < readers; rd++ {
			wg.Add(1)
			go func(rd int) {
				defer wg.Done()
				for r := 1; r <= rounds; r++ {
					for k := 1; k <= n; k++ {
						if k%2 == 1 && owner(k) < writers {
							continue // being written
						}
						want := k%2 == 1
						if m.Contains(k) != want || (m.Get(k) != 0) != want {
							bad[rd] = fmt.Sprintf("reader saw key %d present=%v", k, !want)
						}
					}
				}
			}(rd)
		}
		wg.Wait()
		for _, b := range bad {
			if b != "" {
				emit("VIOL", map[string]any{"what": "concurrent Put of present keys: " + b + " [" + variant + "]", "sig": map[string]any{"subject": "tree-race"}})
			}
		}
		for k := 1; k <= n; k += 2 {
			if w := owner(k); w < writers && variant != "set" {
				if got, want := m.Get(k), 1+(rounds+w)%5; got != want {
					emit("VIOL", map[string]any{"what": fmt.Sprintf("concurrent Put of present key %d did not take effect: Get=%d want %d [%s]", k, got, want, variant),
						"sig": map[string]any{"subject": "tree-race"}})
					break
				}
			}
		}
		after := m.(interface{ ShapeInt() subj.ShapeInt }).ShapeInt()
		if !reflect.DeepEqual(before, after) {
			emit("VIOL", map[string]any{"what": "Put of present keys changed the tree structure or gen [" + variant + "]", "sig": map[string]any{"subject": "tree-race"}})
		}
	}
	emit("REPORT", map[string]any{"engine": "race", "subject": "tree", "variants": 5, "goroutines": 12, "keys": 3000})
	os.Exit(0)
}

// cmdMergeNil: chans.Merge must deliver a nil value of an interface element type through each of
// its code paths (1, 2, 3 and >= 4 inputs).
func cmdMergeNil(args []string) {
	for n := 1; n <= 5; n++ {
		func() {
			defer func() {
				if p := recover(); p != nil {
					emit("VIOL", map[string]any{"what": fmt.Sprintf("chans.Merge with %d inputs of an interface element type panics on a nil value: %v", n, p),
						"sig": map[string]any{"subject": "chans.Merge-nil", "arity": n}})
				}
			}()
			in := make([]chan error, n)
			ro := make([]<-chan error, n)
			for i := range in {
				in[i] = make(chan error, 2)
				in[i] <- nil
				in[i] <- fmt.Errorf("e%d", i)
				close(in[i])
				ro[i] = in[i]
			}
			out := make(chan error, 2*n)
			chans.Merge(out, ro...)
			close(out)
			nils, total := 0, 0
			for v := range out {
				total++
				if v == nil {
					nils++
				}
			}
			if nils != n || total != 2*n {
				emit("VIOL", map[string]any{"what": fmt.Sprintf("chans.Merge with %d inputs delivered %d values (%d nil), want %d (%d nil)", n, total, nils, 2*n, n),
					"sig": map[string]any{"subject": "chans.Merge-nil", "arity": n}})
			}
		}()
	}
	emit("REPORT", map[string]any{"engine": "vector", "subject": "chans.Merge nil values", "arities": 5})
}
