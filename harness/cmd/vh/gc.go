package main

import (
	"bufio"
	"encoding/json"
	"flag"
	"math/rand"
	"os"
	"runtime"
	"sync/atomic"
	"time"

	"github.com/bradenaw/juniper/container/deque"
	"github.com/bradenaw/juniper/container/tree"
	"github.com/bradenaw/juniper/xsort"
)

// cmdGC observes "no retained garbage" directly: the containers hold pointers to payloads with finalizers; whatever
// was deleted, overwritten or popped is referenced by the harness no longer, so after a collection its finalizer must
// have run. Every checkpoint is logged as {"op":"gccheck","released":R,"finalized":F} and judged by Trace_GC.tla.
type payload struct {
	id  int
	pad [8]int
}

var finalized atomic.Int64

func newPayload(id int) *payload {
	p := &payload{id: id}
	runtime.SetFinalizer(p, func(*payload) { finalized.Add(1) })
	return p
}

// collect runs collections until the finalizer count has caught up with want or stops moving
func collect(want int64) int64 {
	deadline := time.Now().Add(3 * time.Second)
	for {
		runtime.GC()
		time.Sleep(2 * time.Millisecond)
		f := finalized.Load()
		if f >= want || time.Now().After(deadline) {
			return f
		}
	}
}

// the mutating steps live in their own functions so that no payload pointer survives in a frame of the driver
func treePut(m tree.Map[int, *payload], k, id int) bool {
	had := m.Contains(k)
	m.Put(k, newPayload(id))
	return had
}
func treeDel(m tree.Map[int, *payload], k int) bool {
	had := m.Contains(k)
	m.Delete(k)
	return had
}
func dqPop(d *deque.Deque[*payload], front bool) {
	if front {
		d.PopFront()
	} else {
		d.PopBack()
	}
}

func cmdGC(args []string) {
	fs := flag.NewFlagSet("gc", flag.ExitOnError)
	kind := fs.String("kind", "tree", "tree | deque")
	out := fs.String("out", "/tmp/gc.ndjson", "trace file")
	runs := fs.Int("runs", 10, "runs")
	ops := fs.Int("ops", 400, "operations per run")
	fs.Parse(args)
	f, err := os.Create(*out)
	if err != nil {
		panic(err)
	}
	w := bufio.NewWriter(f)
	n := 0
	emit := func(e map[string]any) {
		b, _ := json.Marshal(e)
		w.Write(b)
		w.WriteByte('\n')
		n++
	}
	rng := rand.New(rand.NewSource(seed()))
	for run := 0; run < *runs; run++ {
		emit(map[string]any{"op": "Reset", "run": run})
		base := finalized.Load()
		released := int64(0)
		id := 0
		check := func(what string) {
			fin := collect(base+released) - base
			emit(map[string]any{"op": "gccheck", "after": what, "released": released, "finalized": fin, "run": run})
		}
		switch *kind {
		case "tree":
			m := tree.NewMap[int, *payload](xsort.OrderedLess[int])
			U := []int{18, 40, 300}[run%3]
			for i := 0; i < *ops; i++ {
				k := 1 + rng.Intn(U)
				grow := m.Len() < U/3 || (m.Len() < U*4/5 && rng.Intn(2) == 0)
				if (i/(*ops/4+1))%2 == 1 { // alternate growing and draining phases: merges, root shrinks, refills
					grow = rng.Intn(6) == 0
				}
				if grow {
					id++
					if treePut(m, k, id) {
						released++
					}
				} else if treeDel(m, k) {
					released++
				}
				if i%37 == 36 {
					check("ops")
				}
			}
			for tries := 0; m.Len() > 0 && tries < 100000; tries++ { // drain completely
				k, _ := m.First()
				if treeDel(m, k) {
					released++
				}
			}
			check("drain")
			runtime.KeepAlive(m)
		case "deque":
			var d deque.Deque[*payload]
			for i := 0; i < *ops; i++ {
				c := rng.Intn(100)
				switch {
				case c < 45 || d.Len() == 0:
					id++
					if rng.Intn(2) == 0 {
						d.PushBack(newPayload(id))
					} else {
						d.PushFront(newPayload(id))
					}
				case c < 90:
					dqPop(&d, rng.Intn(2) == 0)
					released++
				case c < 95:
					d.Shrink(rng.Intn(3))
				default:
					d.Grow(rng.Intn(20))
				}
				if i%37 == 36 {
					check("ops")
				}
			}
			for tries := 0; d.Len() > 0 && tries < 100000; tries++ {
				dqPop(&d, true)
				released++
			}
			check("drain")
			runtime.KeepAlive(&d)
		}
	}
	w.Flush()
	f.Close()
	report(map[string]any{"engine": "gc", "subject": *kind, "runs": *runs, "events": n})
}

func report(v map[string]any) {
	b, _ := json.Marshal(v)
	os.Stdout.WriteString("REPORT " + string(b) + "\n")
}
