package main

import (
	"bufio"
	"encoding/json"
	"flag"
	"fmt"
	"math/rand"
	"os"

	"verifharness/comb"
	"verifharness/helpers"
	"verifharness/rec"
	"verifharness/subj"
)

func cmdDrive(args []string) {
	fs := flag.NewFlagSet("drive", flag.ExitOnError)
	out := fs.String("out", "trace.ndjson", "output trace")
	runs := fs.Int("runs", 10, "number of runs")
	ops := fs.Int("ops", 200, "operations per run")
	variant := fs.String("variant", "", "driver variant")
	fs.Parse(args[1:])
	name := args[0]
	d, ok := subj.Drivers()[name]
	if !ok {
		fmt.Println("unknown driver", name)
		os.Exit(2)
	}
	r, err := rec.New(*out)
	if err != nil {
		fmt.Println(err)
		os.Exit(2)
	}
	rng := rand.New(rand.NewSource(seed()))
	for i := 0; i < *runs; i++ {
		r.Reset(i)
		d(r, rand.New(rand.NewSource(rng.Int63())), i, *ops, *variant)
	}
	if err := r.Close(); err != nil {
		fmt.Println(err)
		os.Exit(2)
	}
	emit("REPORT", map[string]any{"engine": "drive", "subject": name, "runs": *runs, "events": r.N})
}

// cmdScen records combinator sessions (C07-C09) for validation by spec/seq/Session.tla.
func cmdScen(args []string) {
	fs := flag.NewFlagSet("scen", flag.ExitOnError)
	out := fs.String("out", "sessions.ndjson", "output")
	mode := fs.String("mode", "faultfree", "faultfree | faults | random")
	maxLen := fs.Int("maxlen", 3, "maximal input length")
	keep := fs.Float64("keep", 1, "sampling probability of the fault product space")
	n := fs.Int("n", 1000, "number of random scenarios")
	fs.Parse(args)
	w, err := comb.NewWriter(*out)
	if err != nil {
		fmt.Println(err)
		os.Exit(2)
	}
	rng := rand.New(rand.NewSource(seed()))
	switch *mode {
	case "faultfree":
		comb.GenFaultFree(w, *maxLen)
	case "faults":
		comb.GenFaults(w, *maxLen, rng, *keep)
	case "random":
		comb.GenRandom(w, rng, *n)
	}
	if err := w.Close(); err != nil {
		fmt.Println(err)
		os.Exit(2)
	}
	emit("REPORT", map[string]any{"engine": "scen", "mode": *mode, "events": w.N, "by_comb": w.ByComb})
}

// cmdHelpers records vectors of the pure helpers (C19) for validation by spec/helpers/Helpers.tla.
func cmdHelpers(args []string) {
	fs := flag.NewFlagSet("helpers", flag.ExitOnError)
	out := fs.String("out", "helpers.ndjson", "output")
	maxLen := fs.Int("maxlen", 4, "maximal slice length (exhaustive over {1,2,3})")
	nrand := fs.Int("random", 200, "random longer slices")
	seeds := fs.Int("seeds", 3, "seeds per (n,k) for sampling")
	chi := fs.Int("chi", 20000, "trials of the auxiliary chi-square test (0 = off)")
	fs.Parse(args)
	w, err := helpers.NewW(*out)
	if err != nil {
		fmt.Println(err)
		os.Exit(2)
	}
	rng := rand.New(rand.NewSource(seed()))
	helpers.Slices(w, helpers.Inputs(*maxLen, *nrand, rng))
	helpers.Sorts(w, *maxLen, rng)
	helpers.Maps(w)
	helpers.Maths(w)
	helpers.Errors(w)
	helpers.Rands(w, rng, *seeds)
	if err := w.Close(); err != nil {
		fmt.Println(err)
		os.Exit(2)
	}
	rep := map[string]any{"engine": "helpers", "events": w.N, "by_fn": w.ByFn}
	if *chi > 0 {
		rep["chi_square"] = helpers.ChiAll(rng, *chi)
	}
	emit("REPORT", rep)
}

// cmdPullReplay replays the behaviours TLC exported from Pull.tla (the combinators as pull machines)
// on the real combinators: same script, same parameters, same context pattern, call by call. The
// model is deterministic, so the code must answer every call exactly like it (results and the number
// of source items taken). A difference is reported as model drift.
func cmdPullReplay(args []string) {
	f, err := os.Open(args[0])
	if err != nil {
		fmt.Println(err)
		os.Exit(2)
	}
	defer f.Close()
	combs := map[string]comb.Comb{}
	for _, c := range comb.Combs() {
		combs[c.Name] = c
	}
	sc := bufio.NewScanner(f)
	sc.Buffer(make([]byte, 1<<20), 1<<24)
	n, diffs := 0, 0
	var first string
	for sc.Scan() {
		var r struct {
			Comb   string      `json:"comb"`
			N      int         `json:"n"`
			Pred   []int       `json:"pred"`
			Key    []int       `json:"key"`
			Script [][][]int   `json:"script"`
			Calls  []comb.Call `json:"calls"`
		}
		if err := json.Unmarshal(sc.Bytes(), &r); err != nil {
			fmt.Println("bad record:", err)
			os.Exit(2)
		}
		c, ok := combs[r.Comb]
		if !ok {
			continue
		}
		script := make([][]comb.Step, len(r.Script))
		for i, s := range r.Script {
			for _, st := range s {
				script[i] = append(script[i], comb.Step{Kind: st[0], Val: st[1]})
			}
		}
		exp := make([]bool, len(r.Calls))
		for i, cl := range r.Calls {
			exp[i] = cl.Ctx == 1
		}
		got := comb.ReplayExact(c, comb.Params{N: r.N, Pred: r.Pred, Key: r.Key}, script, exp)
		n++
		a, _ := json.Marshal(r.Calls)
		b, _ := json.Marshal(got.Calls)
		if string(a) != string(b) || got.Panic != "" {
			diffs++
			if first == "" {
				first = fmt.Sprintf("%s n=%d script=%v: model %s, code %s %s", r.Comb, r.N, r.Script, a, b, got.Panic)
			}
		}
	}
	emit("REPORT", map[string]any{"engine": "pullreplay", "behaviours": n, "differences": diffs, "first_difference": first})
}
