package main

import (
	"flag"
	"fmt"
	"math/rand"
	"os"

	"verifharness/comb"
	"verifharness/rec"
	"verifharness/subj"
)

func cmdDrive(args []string) {
	fs := flag.NewFlagSet("drive", flag.ExitOnError)
	out := fs.String("out", "trace.ndjson", "output trace")
	runs := fs.Int("runs", 10, "number of runs")
	ops := fs.Int("ops", 200, "operations per run")
	variant := fs.String("variant", "", "driver variant")
	fs.Parse(args[1:])
	name := args[0]
	d, ok := subj.Drivers()[name]
	if !ok {
		fmt.Println("unknown driver", name)
		os.Exit(2)
	}
	r, err := rec.New(*out)
	if err != nil {
		fmt.Println(err)
		os.Exit(2)
	}
	rng := rand.New(rand.NewSource(seed()))
	for i := 0; i < *runs; i++ {
		r.Reset(i)
		d(r, rand.New(rand.NewSource(rng.Int63())), i, *ops, *variant)
	}
	if err := r.Close(); err != nil {
		fmt.Println(err)
		os.Exit(2)
	}
	emit("REPORT", map[string]any{"engine": "drive", "subject": name, "runs": *runs, "events": r.N})
}

// cmdScen records combinator sessions (C07-C09) for validation by spec/seq/Session.tla.
func cmdScen(args []string) {
	fs := flag.NewFlagSet("scen", flag.ExitOnError)
	out := fs.String("out", "sessions.ndjson", "output")
	mode := fs.String("mode", "faultfree", "faultfree | faults | random")
	maxLen := fs.Int("maxlen", 3, "maximal input length")
	keep := fs.Float64("keep", 1, "sampling probability of the fault product space")
	n := fs.Int("n", 1000, "number of random scenarios")
	fs.Parse(args)
	w, err := comb.NewWriter(*out)
	if err != nil {
		fmt.Println(err)
		os.Exit(2)
	}
	rng := rand.New(rand.NewSource(seed()))
	switch *mode {
	case "faultfree":
		comb.GenFaultFree(w, *maxLen)
	case "faults":
		comb.GenFaults(w, *maxLen, rng, *keep)
	case "random":
		comb.GenRandom(w, rng, *n)
	}
	if err := w.Close(); err != nil {
		fmt.Println(err)
		os.Exit(2)
	}
	emit("REPORT", map[string]any{"engine": "scen", "mode": *mode, "events": w.N, "by_comb": w.ByComb})
}
