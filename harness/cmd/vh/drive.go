package main

import (
	"flag"
	"fmt"
	"math/rand"
	"os"

	"verifharness/comb"
	"verifharness/helpers"
	"verifharness/rec"
	"verifharness/subj"
)

func cmdDrive(args []string) {
	fs := flag.NewFlagSet("drive", flag.ExitOnError)
	out := fs.String("out", "trace.ndjson", "output trace")
	runs := fs.Int("runs", 10, "number of runs")
	ops := fs.Int("ops", 200, "operations per run")
	variant := fs.String("variant", "", "driver variant")
	fs.Parse(args[1:])
	name := args[0]
	d, ok := subj.Drivers()[name]
	if !ok {
		fmt.Println("unknown driver", name)
		os.Exit(2)
	}
	r, err := rec.New(*out)
	if err != nil {
		fmt.Println(err)
		os.Exit(2)
	}
	rng := rand.New(rand.NewSource(seed()))
	for i := 0; i < *runs; i++ {
		r.Reset(i)
		d(r, rand.New(rand.NewSource(rng.Int63())), i, *ops, *variant)
	}
	if err := r.Close(); err != nil {
		fmt.Println(err)
		os.Exit(2)
	}
	emit("REPORT", map[string]any{"engine": "drive", "subject": name, "runs": *runs, "events": r.N})
}

// cmdScen records combinator sessions (C07-C09) for validation by spec/seq/Session.tla.
func cmdScen(args []string) {
	fs := flag.NewFlagSet("scen", flag.ExitOnError)
	out := fs.String("out", "sessions.ndjson", "output")
	mode := fs.String("mode", "faultfree", "faultfree | faults | random")
	maxLen := fs.Int("maxlen", 3, "maximal input length")
	keep := fs.Float64("keep", 1, "sampling probability of the fault product space")
	n := fs.Int("n", 1000, "number of random scenarios")
	fs.Parse(args)
	w, err := comb.NewWriter(*out)
	if err != nil {
		fmt.Println(err)
		os.Exit(2)
	}
	rng := rand.New(rand.NewSource(seed()))
	switch *mode {
	case "faultfree":
		comb.GenFaultFree(w, *maxLen)
	case "faults":
		comb.GenFaults(w, *maxLen, rng, *keep)
	case "random":
		comb.GenRandom(w, rng, *n)
	}
	if err := w.Close(); err != nil {
		fmt.Println(err)
		os.Exit(2)
	}
	emit("REPORT", map[string]any{"engine": "scen", "mode": *mode, "events": w.N, "by_comb": w.ByComb})
}

// cmdHelpers records vectors of the pure helpers (C19) for validation by spec/helpers/Helpers.tla.
func cmdHelpers(args []string) {
	fs := flag.NewFlagSet("helpers", flag.ExitOnError)
	out := fs.String("out", "helpers.ndjson", "output")
	maxLen := fs.Int("maxlen", 4, "maximal slice length (exhaustive over {1,2,3})")
	nrand := fs.Int("random", 200, "random longer slices")
	seeds := fs.Int("seeds", 3, "seeds per (n,k) for sampling")
	chi := fs.Int("chi", 20000, "trials of the auxiliary chi-square test (0 = off)")
	fs.Parse(args)
	w, err := helpers.NewW(*out)
	if err != nil {
		fmt.Println(err)
		os.Exit(2)
	}
	rng := rand.New(rand.NewSource(seed()))
	helpers.Slices(w, helpers.Inputs(*maxLen, *nrand, rng))
	helpers.Sorts(w, *maxLen)
	helpers.Maps(w)
	helpers.Maths(w)
	helpers.Errors(w)
	helpers.Rands(w, rng, *seeds)
	if err := w.Close(); err != nil {
		fmt.Println(err)
		os.Exit(2)
	}
	rep := map[string]any{"engine": "helpers", "events": w.N, "by_fn": w.ByFn}
	if *chi > 0 {
		rep["chi_square"] = helpers.ChiAll(rng, *chi)
	}
	emit("REPORT", rep)
}
