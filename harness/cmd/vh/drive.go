package main

import (
	"flag"
	"fmt"
	"math/rand"
	"os"

	"verifharness/rec"
	"verifharness/subj"
)

func cmdDrive(args []string) {
	fs := flag.NewFlagSet("drive", flag.ExitOnError)
	out := fs.String("out", "trace.ndjson", "output trace")
	runs := fs.Int("runs", 10, "number of runs")
	ops := fs.Int("ops", 200, "operations per run")
	variant := fs.String("variant", "", "driver variant")
	fs.Parse(args[1:])
	name := args[0]
	d, ok := subj.Drivers()[name]
	if !ok {
		fmt.Println("unknown driver", name)
		os.Exit(2)
	}
	r, err := rec.New(*out)
	if err != nil {
		fmt.Println(err)
		os.Exit(2)
	}
	rng := rand.New(rand.NewSource(seed()))
	for i := 0; i < *runs; i++ {
		r.Reset(i)
		d(r, rand.New(rand.NewSource(rng.Int63())), i, *ops, *variant)
	}
	if err := r.Close(); err != nil {
		fmt.Println(err)
		os.Exit(2)
	}
	emit("REPORT", map[string]any{"engine": "drive", "subject": name, "runs": *runs, "events": r.N})
}

func cmdScen(args []string) {
	fmt.Println("scen: not built yet")
	os.Exit(2)
}
