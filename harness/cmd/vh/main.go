// vh - harness binary: replays TLC-generated transition systems / scenarios against the code in
// /repo and records traces of seeded drivers for trace validation.
package main

import (
	"encoding/json"
	"flag"
	"fmt"
	"math/rand"
	"os"
	"strconv"

	"verifharness/lts"
	"verifharness/subj"
)

func seed() int64 {
	s, _ := strconv.ParseInt(os.Getenv("VERIF_SEED"), 10, 64)
	if s == 0 {
		s = 1
	}
	return s
}

func emit(tag string, v any) {
	b, _ := json.Marshal(v)
	fmt.Printf("%s %s\n", tag, b)
}

func main() {
	if len(os.Args) < 2 {
		fmt.Println("usage: vh lts|drive|scen ...")
		os.Exit(2)
	}
	switch os.Args[1] {
	case "lts":
		cmdLTS(os.Args[2:])
	case "drive":
		cmdDrive(os.Args[2:])
	case "pullreplay":
		cmdPullReplay(os.Args[2:])
	case "mergenil":
		cmdMergeNil(os.Args[2:])
	case "helpers":
		cmdHelpers(os.Args[2:])
	case "race":
		cmdRace(os.Args[2:])
	case "scen":
		cmdScen(os.Args[2:])
	case "rt":
		cmdRT(os.Args[2:])
	case "gc":
		cmdGC(os.Args[2:])
	default:
		fmt.Println("unknown command", os.Args[1])
		os.Exit(2)
	}
}

func cmdLTS(args []string) {
	fs := flag.NewFlagSet("lts", flag.ExitOnError)
	depth := fs.Int("depth", 4, "all paths up to this depth")
	budget := fs.Int("budget", 2000000, "max number of paths")
	walks := fs.Int("walks", 1000, "random walks")
	wlen := fs.Int("len", 30, "length of random walks")
	variant := fs.String("variant", "", "subject variant")
	nocover := fs.Bool("nocover", false, "skip the per-transition pass (graphs with outcomes the code never takes)")
	fs.Parse(args[2:])
	name, file := args[0], args[1]
	s, ok := subj.LTSSubjects(*variant)[name]
	if !ok {
		fmt.Println("unknown lts subject", name)
		os.Exit(2)
	}
	g, err := lts.Load(file)
	if err != nil {
		fmt.Println("cannot load LTS:", err)
		os.Exit(2)
	}
	r := lts.NewRunner(g, s)
	if !*nocover {
		r.CoverEdges()
	}
	r.AllPaths(*depth, *budget)
	r.RandomWalks(rand.New(rand.NewSource(seed())), *walks, *wlen)
	st := r.Finish()
	for _, v := range st.Violations {
		emit("VIOL", map[string]any{"what": fmt.Sprintf("%s [%s%s]: %s; call %s returned %s; allowed %v", name, *variant, "", v.What, v.Call, v.Got, v.Allowed),
			"sig": map[string]any{"subject": name, "call": v.Call}, "case": v})
	}
	if len(st.Violations) == 0 && len(g.Edges) > 0 {
		e := g.Edges[len(g.Edges)/2]
		emit("SAMPLE", map[string]any{"lts_edge": map[string]any{"from": json.RawMessage(g.States[e.From]), "call": e.Op.Key(), "res": json.RawMessage(e.Res), "obs": json.RawMessage(e.Obs)}})
	}
	st.Violations = nil
	emit("REPORT", map[string]any{"engine": "lts", "subject": name, "variant": *variant, "states": st.States, "edges": st.Edges, "edges_covered": st.EdgesCovered,
		"calls_total": st.OpKeysTotal, "calls_executed": st.OpKeysDone, "paths": st.Paths, "steps": st.Steps,
		"legal_deviations": st.Deviations, "model_drift": st.Drift, "drift_sample": st.DriftSample})
}
