package main

import (
	"bufio"
	"context"
	"encoding/json"
	"errors"
	"flag"
	"fmt"
	"os"
	"runtime"
	"sync"
	"time"

	"github.com/bradenaw/juniper/stream"
	"github.com/bradenaw/juniper/xsync"
	"github.com/bradenaw/juniper/xtime"
)

// cmdRT: real-clock lane. The library's go.mod says go 1.18: built into a main module of that age its
// timers have the pre-1.23 semantics (buffered timer channels; Stop / Reset leave a fired value in the
// channel). testing/synctest refuses that setting, so the few timer-channel users are also run against the
// real clock with GODEBUG=asynctimerchan=1 (set by the caller). Only rules that are sound under arbitrary
// scheduling delays are judged: lower bounds on elapsed time, and "still happens within a generous slack".
func cmdRT(args []string) {
	fs := flag.NewFlagSet("rt", flag.ExitOnError)
	kind := fs.String("kind", "sleep", "sleep | group")
	out := fs.String("out", "/tmp/rt.ndjson", "trace file")
	n := fs.Int("n", 200, "iterations / instances")
	fs.Parse(args)
	f, err := os.Create(*out)
	if err != nil {
		panic(err)
	}
	w := bufio.NewWriter(f)
	var mu sync.Mutex
	events := 0
	put := func(evs []map[string]any) {
		mu.Lock()
		defer mu.Unlock()
		for _, e := range evs {
			b, _ := json.Marshal(e)
			w.Write(b)
			w.WriteByte('\n')
			events++
		}
	}
	runs := 0
	switch *kind {
	case "sleep":
		runs = rtSleep(*n, put)
	case "group":
		runs = rtGroup(*n, put)
	case "batch":
		runs = rtBatch(*n, put)
	case "ticker":
		runs = rtTicker(*n, put)
	}
	w.Flush()
	f.Close()
	emit("REPORT", map[string]any{"engine": "rt", "subject": *kind, "runs": runs, "events": events, "godebug": os.Getenv("GODEBUG")})
}

// rtSleep: a sleep whose context is cancelled right when its timer fires, followed at once by a plain sleep from
// the same goroutine; every call is logged as an "rsleep" record (microseconds of the real monotonic clock; t0 is
// read before the call and t1 after it, so t1 - t0 is an upper bound of the time the call really took).
func rtSleep(n int, put func([]map[string]any)) int {
	start := time.Now()
	us := func() int64 { return int64(time.Since(start) / time.Microsecond) }
	one := func(ctx context.Context, d time.Duration, cancelAt int64) map[string]any {
		t0 := us()
		err := xtime.SleepContext(ctx, d)
		t1 := us()
		res := "nil"
		var ts xtime.DeadlineTooSoonError
		switch {
		case err == nil:
		case errors.As(err, &ts):
			res = "toosoon"
		case err == context.Canceled || err == context.DeadlineExceeded:
			res = "ctx"
		default:
			res = "other:" + err.Error()
		}
		return map[string]any{"ev": "rsleep", "t0": t0, "d": int64(d / time.Microsecond), "dl": -1, "cancelAt": cancelAt, "t1": t1, "res": res}
	}
	put([]map[string]any{{"ev": "reset", "run": 0}})
	for i := 0; i < n; i++ {
		d := time.Duration(200+50*(i%9)) * time.Microsecond
		ctx, cancel := context.WithCancel(context.Background())
		at := time.Now().Add(d + time.Duration(i%7-3)*10*time.Microsecond) // around the instant the timer fires
		go func() {
			for time.Now().Before(at) { // spin: the cancellation lands within microseconds of the timer
			}
			cancel()
		}()
		e1 := one(ctx, d, int64(at.Sub(start)/time.Microsecond))
		e2 := one(context.Background(), 1500*time.Microsecond, -1)
		cancel()
		put([]map[string]any{e1, e2})
	}
	return 1
}

// rtGroup: n PeriodicOrTrigger functions, each in its own group: a run that outlasts the interval while a trigger
// arrives, so that afterwards the tick and the trigger are both pending; then the function is left alone and must
// still be invoked periodically. One trace run per instance, in the vocabulary of Trace_Group; q records carry the
// slack (ms) that the time-bounded rules are given on the real clock.
func rtGroup(n int, put func([]map[string]any)) int {
	const iv = 20 // ms
	const slack = 1500
	var wg sync.WaitGroup
	for i := 0; i < n; i++ {
		wg.Add(1)
		go func(i int) {
			defer wg.Done()
			start := time.Now()
			var mu sync.Mutex
			evs := []map[string]any{{"ev": "reset", "run": i}}
			log := func(e map[string]any) {
				mu.Lock()
				e["t"] = int64(time.Since(start) / time.Millisecond)
				evs = append(evs, e)
				mu.Unlock()
			}
			tok := make(chan struct{}, 256)
			begun := make(chan struct{}, 256)
			g := xsync.NewGroup(context.Background())
			log(map[string]any{"ev": "reg", "k": 1, "kind": "ptrig", "iv": iv, "jit": 0})
			fire := g.PeriodicOrTrigger(iv*time.Millisecond, 0, func(ctx context.Context) {
				log(map[string]any{"ev": "fbegin", "k": 1})
				begun <- struct{}{}
				<-tok
				log(map[string]any{"ev": "fend", "k": 1})
			})
			<-begun // first run (the first tick), held
			log(map[string]any{"ev": "fire", "k": 1})
			fire()
			time.Sleep((iv + iv/2) * time.Millisecond) // the timer fires while f is still running
			for j := 0; j < 200; j++ {                 // from now on f returns at once
				tok <- struct{}{}
			}
			time.Sleep(slack * time.Millisecond)
			log(map[string]any{"ev": "q", "pend": []int{}, "slack": slack - 200})
			log(map[string]any{"ev": "call", "id": 1, "op": "StopAndWait", "res": map[string]any{"k": "nil"}})
			for j := 0; j < 50; j++ {
				select {
				case tok <- struct{}{}:
				default:
				}
			}
			g.StopAndWait()
			log(map[string]any{"ev": "ret", "id": 1, "op": "StopAndWait", "res": map[string]any{"k": "nil"}})
			mu.Lock()
			put(evs)
			mu.Unlock()
		}(i)
	}
	wg.Wait()
	return n
}

// rtSrc: a source fed through a channel; it logs the hand-over of every item.
type rtSrc struct {
	c   chan int
	log func(map[string]any)
}

func (s *rtSrc) Next(ctx context.Context) (int, error) {
	select {
	case v, ok := <-s.c:
		if !ok {
			s.log(map[string]any{"ev": "srcend", "i": 0})
			return 0, stream.End
		}
		s.log(map[string]any{"ev": "taken", "v": v, "i": 0})
		return v, nil
	case <-ctx.Done():
		return 0, ctx.Err()
	}
}
func (s *rtSrc) Close() { s.log(map[string]any{"ev": "srcclose", "i": 0}) }

// rtBatch: BatchFunc with a full() callback that is slow once, so that the maxWait timer expires while the batcher is
// outside its select and the batch then becomes full (the timer is stopped after it has fired). The next batch is
// under-full and must still wait maxWait. Records in the vocabulary of Trace_Batch (ms of the real clock; only the
// lower bound "under-full only after maxWait" and the partition rules are judged - there are no quiescence records).
func rtBatch(n int, put func([]map[string]any)) int {
	const maxWait = 100 // ms
	var wg sync.WaitGroup
	for i := 0; i < n; i++ {
		wg.Add(1)
		go func(i int) {
			defer wg.Done()
			start := time.Now()
			var mu sync.Mutex
			evs := []map[string]any{{"ev": "reset", "run": i, "size": 2, "maxwait": maxWait, "func": true}}
			log := func(e map[string]any) {
				mu.Lock()
				e["t"] = int64(time.Since(start) / time.Millisecond)
				evs = append(evs, e)
				mu.Unlock()
			}
			src := &rtSrc{c: make(chan int), log: log}
			slow := true
			st := stream.BatchFunc[int](src, maxWait*time.Millisecond, func(b []int) bool {
				if len(b) >= 2 {
					if slow {
						slow = false
						time.Sleep((maxWait/2 + 30 + time.Duration(i%5)*5) * time.Millisecond)
					}
					return true
				}
				return false
			})
			id := 0
			next := func() {
				id++
				my := id
				res := map[string]any{"k": "none", "items": []int{}, "e": ""}
				log(map[string]any{"ev": "call", "id": my, "op": "Next", "ctx": 0, "res": res})
				b, err := st.Next(context.Background())
				switch {
				case err == nil:
					res = map[string]any{"k": "batch", "items": b, "e": ""}
				case err == stream.End:
					res = map[string]any{"k": "end", "items": []int{}, "e": ""}
				default:
					res = map[string]any{"k": "err", "items": []int{}, "e": "other:" + err.Error()}
				}
				log(map[string]any{"ev": "ret", "id": my, "op": "Next", "res": res})
			}
			done := make(chan struct{})
			go func() { // the consumer: reads to the end
				defer close(done)
				for k := 0; k < 4; k++ {
					next()
				}
			}()
			time.Sleep(10 * time.Millisecond) // the consumer is waiting at an empty batch
			src.c <- 1                        // arms the timer
			time.Sleep(maxWait / 2 * time.Millisecond)
			src.c <- 2 // full() is slow: the timer fires meanwhile; then the batch is full and is handed out
			src.c <- 3 // the next batch: under-full, its timer is re-armed
			time.Sleep((2*maxWait + 50) * time.Millisecond)
			close(src.c)
			<-done
			id++
			log(map[string]any{"ev": "call", "id": id, "op": "Close", "ctx": 0, "res": map[string]any{"k": "nil", "items": []int{}, "e": ""}})
			st.Close()
			log(map[string]any{"ev": "ret", "id": id, "op": "Close", "res": map[string]any{"k": "nil", "items": []int{}, "e": ""}})
			mu.Lock()
			put(evs)
			mu.Unlock()
		}(i)
	}
	wg.Wait()
	return n
}

// rtTicker: JitterTickers on the real clock while the processors are kept busy, so that timer callbacks run late now and
// then. The spacing rule is about the timestamps the ticker itself sends, so it is exact on any clock: consecutive ticks
// are never less than d - jitter apart (microseconds; d and jitter are logged in microseconds as well).
func rtTicker(n int, put func([]map[string]any)) int {
	stop := make(chan struct{})
	for i := 0; i < 2*runtime.GOMAXPROCS(-1); i++ { // load: callbacks are delayed by scheduling
		go func() {
			x := 0
			for {
				select {
				case <-stop:
					return
				default:
					for k := 0; k < 20000; k++ {
						x += k
					}
					runtime.Gosched()
				}
			}
		}()
	}
	var wg sync.WaitGroup
	for i := 0; i < n; i++ {
		wg.Add(1)
		go func(i int) {
			defer wg.Done()
			start := time.Now()
			d := time.Duration(2+i%3) * time.Millisecond
			j := time.Duration(i%2) * 500 * time.Microsecond
			evs := []map[string]any{{"ev": "reset", "run": i}, {"ev": "new", "d": int64(d / time.Microsecond), "j": int64(j / time.Microsecond), "panic": 0, "t": 0}}
			tk := xtime.NewJitterTicker(d, j)
		collect:
			for k := 0; k < 120; k++ {
				select {
				case ts := <-tk.C:
					evs = append(evs, map[string]any{"ev": "tick", "ts": int64(ts.Sub(start) / time.Microsecond), "t": int64(time.Since(start) / time.Microsecond)})
				case <-time.After(3 * time.Second): // a ticker that falls silent is not this rule's business
					break collect
				}
			}
			tk.Stop()
			put(evs)
		}(i)
	}
	wg.Wait()
	close(stop)
	return n
}

var _ = fmt.Sprint
