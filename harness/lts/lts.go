// Package lts replays a labelled transition system dumped by TLC against a real object.
//
// The file has one JSON object per line: {"kind":"init","d":{"from":S,"obs":O}} and
// {"kind":"edge","d":{"from":S,"op":{"name":..,"args":[..],"res":R},"to":S,"obs":O}}.
// S is the specification state (identity only), op.res is one outcome the specification allows
// for that call in that state, obs is what a full observation of the real object must show
// after the call.
package lts

import (
	"bufio"
	"bytes"
	"encoding/json"
	"fmt"
	"math/rand"
	"os"
	"sort"
	"strings"
)

type Op struct {
	Name string            `json:"name"`
	Args []json.RawMessage `json:"args"`
	Res  json.RawMessage   `json:"res"`
	// Alt lists further outcomes the property allows for this call although the implementation
	// model (I-layer) does not produce them. Code answering with one of them is not wrong; the
	// path is abandoned because the model state is unknown from there on.
	Alt []json.RawMessage `json:"alt"`
}

func (o Op) Int(i int) int {
	var x int
	if err := json.Unmarshal(o.Args[i], &x); err != nil {
		panic(fmt.Sprintf("arg %d of %s is not an int: %s", i, o.Name, o.Args[i]))
	}
	return x
}

func (o Op) Key() string {
	var b strings.Builder
	b.WriteString(o.Name)
	for _, a := range o.Args {
		b.WriteByte(' ')
		b.Write(a)
	}
	return b.String()
}

type Edge struct {
	From, To int
	Op       Op
	Res      string // canonical JSON
	Obs      string // canonical JSON
	IObs     string // canonical JSON of the implementation-level observation ("" if none)
}

type Graph struct {
	States  []string         // canonical JSON of each state
	index   map[string]int
	Init    int
	InitObs string
	Out     []map[string][]int // state -> opkey -> edge indices
	Edges   []Edge
}

// Canon re-marshals JSON so that equal values have equal strings (object keys sorted).
func Canon(raw []byte) string {
	var v any
	d := json.NewDecoder(bytes.NewReader(raw))
	d.UseNumber()
	if err := d.Decode(&v); err != nil {
		panic(fmt.Sprintf("bad json %q: %v", raw, err))
	}
	out, _ := json.Marshal(v)
	return string(out)
}

func CanonV(v any) string {
	b, err := json.Marshal(v)
	if err != nil {
		panic(err)
	}
	return Canon(b)
}

func (g *Graph) state(raw json.RawMessage) int {
	k := Canon(raw)
	if i, ok := g.index[k]; ok {
		return i
	}
	i := len(g.States)
	g.index[k] = i
	g.States = append(g.States, k)
	g.Out = append(g.Out, map[string][]int{})
	return i
}

func Load(path string) (*Graph, error) {
	f, err := os.Open(path)
	if err != nil {
		return nil, err
	}
	defer f.Close()
	g := &Graph{index: map[string]int{}, Init: -1}
	sc := bufio.NewScanner(f)
	sc.Buffer(make([]byte, 1<<20), 1<<26)
	type line struct {
		Kind string `json:"kind"`
		D    struct {
			From json.RawMessage `json:"from"`
			To   json.RawMessage `json:"to"`
			Obs  json.RawMessage `json:"obs"`
			IObs json.RawMessage `json:"iobs"`
			Op   Op              `json:"op"`
		} `json:"d"`
	}
	seen := map[string]bool{}
	for sc.Scan() {
		var l line
		if err := json.Unmarshal(sc.Bytes(), &l); err != nil {
			return nil, fmt.Errorf("bad LTS line %q: %v", sc.Text(), err)
		}
		if l.Kind == "init" {
			g.Init = g.state(l.D.From)
			g.InitObs = Canon(l.D.Obs)
			continue
		}
		e := Edge{From: g.state(l.D.From), To: g.state(l.D.To), Op: l.D.Op, Res: Canon(l.D.Op.Res), Obs: Canon(l.D.Obs)}
		if len(l.D.IObs) > 0 {
			e.IObs = Canon(l.D.IObs)
		}
		dk := fmt.Sprintf("%d|%s|%s|%d", e.From, e.Op.Key(), e.Res, e.To)
		if seen[dk] {
			continue
		}
		seen[dk] = true
		k := e.Op.Key()
		g.Out[e.From][k] = append(g.Out[e.From][k], len(g.Edges))
		g.Edges = append(g.Edges, e)
	}
	if g.Init < 0 {
		return nil, fmt.Errorf("no init line in %s", path)
	}
	return g, sc.Err()
}

// Instance is one real object under test.
type Instance interface {
	// Do performs the call on the real object and returns its outcome in the same shape as op.res.
	Do(op Op) any
	// Obs observes the object through its public API (and read-only hooks) in the shape of obs.
	Obs() any
}

// IObserver is implemented by instances that can also show implementation-level state (hooks).
// A mismatch there is model drift, never a verdict.
type IObserver interface {
	IObs() any
}

type Subject interface {
	New() Instance
}

type Step struct {
	Op  string `json:"op"`
	Res string `json:"res"`
}

type Violation struct {
	What    string `json:"what"`
	Path    []Step `json:"path"`
	State   string `json:"spec_state"`
	Call    string `json:"call"`
	Got     string `json:"observed"`
	Allowed []string `json:"allowed"`
}

type Stats struct {
	States, Edges           int
	EdgesCovered            int
	OpKeysTotal, OpKeysDone int
	Paths, Steps            int
	Deviations              int // legal outcomes outside the I-layer model (path abandoned)
	Drift                   int // implementation-level observation differs from the model
	DriftSample             string
	Violations              []Violation
}

type Runner struct {
	G       *Graph
	S       Subject
	St      Stats
	covered []bool
	MaxViol int
}

func NewRunner(g *Graph, s Subject) *Runner {
	r := &Runner{G: g, S: s, covered: make([]bool, len(g.Edges)), MaxViol: 5}
	r.St.States = len(g.States)
	r.St.Edges = len(g.Edges)
	for _, m := range g.Out {
		r.St.OpKeysTotal += len(m)
	}
	return r
}

// step applies call `key` of state st to inst; returns the next state or -1 after reporting a violation.
func (r *Runner) step(inst Instance, st int, key string, path *[]Step) int {
	eids := r.G.Out[st][key]
	op := r.G.Edges[eids[0]].Op
	res := safeDo(inst, op)
	r.St.Steps++
	*path = append(*path, Step{Op: key, Res: res})
	for _, ei := range eids {
		e := &r.G.Edges[ei]
		if e.Res == res {
			obs := safeObs(inst)
			if obs != e.Obs {
				// several edges may share (call,res) and differ in target; try the others first
				continue
			}
			r.covered[ei] = true
			if io, ok := inst.(IObserver); ok && e.IObs != "" {
				if got := CanonV(io.IObs()); got != e.IObs {
					r.St.Drift++
					if r.St.DriftSample == "" {
						r.St.DriftSample = fmt.Sprintf("after %s: model %s, code %s", key, e.IObs, got)
					}
				}
			}
			return e.To
		}
	}
	for _, ei := range eids {
		for _, a := range r.G.Edges[ei].Op.Alt {
			if Canon(a) == res {
				r.St.Deviations++
				return -2
			}
		}
	}
	v := Violation{Path: append([]Step(nil), *path...), State: r.G.States[st], Call: key, Got: res}
	resOK := false
	for _, ei := range eids {
		e := &r.G.Edges[ei]
		if e.Res == res {
			resOK = true
			v.Allowed = append(v.Allowed, "obs "+e.Obs)
		}
	}
	if resOK {
		v.What = "state observed after the call differs from every state the specification allows"
		v.Got = res + " then obs " + safeObs(inst)
	} else {
		v.What = "call returned a result the specification does not allow in this state"
		for _, ei := range eids {
			v.Allowed = append(v.Allowed, r.G.Edges[ei].Res)
		}
	}
	if len(r.St.Violations) < r.MaxViol {
		r.St.Violations = append(r.St.Violations, v)
	}
	return -1
}

func (r *Runner) start(path *[]Step) (Instance, bool) {
	inst := r.S.New()
	*path = (*path)[:0]
	if obs := safeObs(inst); obs != r.G.InitObs {
		if len(r.St.Violations) < r.MaxViol {
			r.St.Violations = append(r.St.Violations, Violation{What: "fresh object does not look like the initial state", Got: obs, Allowed: []string{r.G.InitObs}})
		}
		return nil, false
	}
	return inst, true
}

func (r *Runner) full() bool { return len(r.St.Violations) >= r.MaxViol }

// CoverEdges executes every (state, call) pair of the graph once: the object is driven along a
// shortest path of calls to the state, then the call is made ("one implementation test per transition").
func (r *Runner) CoverEdges() {
	g := r.G
	// BFS tree
	parent := make([]int, len(g.States)) // edge index leading to state
	for i := range parent {
		parent[i] = -2
	}
	parent[g.Init] = -1
	order := []int{g.Init}
	for h := 0; h < len(order); h++ {
		s := order[h]
		keys := sortedKeys(g.Out[s])
		for _, k := range keys {
			for _, ei := range g.Out[s][k] {
				t := g.Edges[ei].To
				if parent[t] == -2 {
					parent[t] = ei
					order = append(order, t)
				}
			}
		}
	}
	var path []Step
	for _, s := range order {
		var chain []int
		for x := s; parent[x] >= 0; x = g.Edges[parent[x]].From {
			chain = append(chain, parent[x])
		}
		for _, k := range sortedKeys(g.Out[s]) {
			if r.full() {
				return
			}
			inst, ok := r.start(&path)
			if !ok {
				return
			}
			cur := g.Init
			for i := len(chain) - 1; i >= 0 && cur >= 0; i-- {
				cur = r.step(inst, cur, g.Edges[chain[i]].Op.Key(), &path)
				if cur >= 0 && cur != g.Edges[chain[i]].To {
					break // the code legally took another allowed outcome; this target is not reached on this path
				}
			}
			r.St.Paths++
			if cur != s {
				continue
			}
			if x := r.step(inst, cur, k, &path); x >= 0 || x == -2 {
				r.St.OpKeysDone++
			}
		}
	}
}

// AllPaths enumerates every sequence of calls of length <= depth from the initial state.
func (r *Runner) AllPaths(depth int, budget int) {
	var keys []string
	var rec func(st int, d int)
	var path []Step
	rec = func(st int, d int) {
		if d == depth || r.full() || r.St.Paths >= budget {
			return
		}
		for _, k := range sortedKeys(r.G.Out[st]) {
			if r.full() || r.St.Paths >= budget {
				return
			}
			// re-create the object and re-drive the prefix
			inst, ok := r.start(&path)
			if !ok {
				return
			}
			cur := r.G.Init
			for _, pk := range keys {
				cur = r.step(inst, cur, pk, &path)
				if cur < 0 {
					return
				}
			}
			if _, has := r.G.Out[cur][k]; !has {
				continue // prefix took another allowed branch
			}
			nxt := r.step(inst, cur, k, &path)
			r.St.Paths++
			if nxt < 0 {
				continue
			}
			keys = append(keys, k)
			rec(nxt, d+1)
			keys = keys[:len(keys)-1]
		}
	}
	rec(r.G.Init, 0)
}

// RandomWalks runs n walks of the given length, following the edge that matches the code's answer.
func (r *Runner) RandomWalks(rng *rand.Rand, n, length int) {
	var path []Step
	for i := 0; i < n && !r.full(); i++ {
		inst, ok := r.start(&path)
		if !ok {
			return
		}
		cur := r.G.Init
		for j := 0; j < length; j++ {
			keys := sortedKeys(r.G.Out[cur])
			if len(keys) == 0 {
				break
			}
			cur = r.step(inst, cur, keys[rng.Intn(len(keys))], &path)
			if cur < 0 {
				break
			}
		}
		r.St.Paths++
	}
}

func (r *Runner) Finish() Stats {
	for _, c := range r.covered {
		if c {
			r.St.EdgesCovered++
		}
	}
	return r.St
}

func sortedKeys(m map[string][]int) []string {
	ks := make([]string, 0, len(m))
	for k := range m {
		ks = append(ks, k)
	}
	sort.Strings(ks)
	return ks
}

// a panic that escapes the adapter (the adapter itself turns documented panics into results)
func safeDo(inst Instance, op Op) (res string) {
	defer func() {
		if p := recover(); p != nil {
			res = CanonV(map[string]any{"UNEXPECTED-PANIC": fmt.Sprint(p)})
		}
	}()
	return CanonV(inst.Do(op))
}

func safeObs(inst Instance) (res string) {
	defer func() {
		if p := recover(); p != nil {
			res = CanonV(map[string]any{"UNEXPECTED-PANIC-IN-OBSERVATION": fmt.Sprint(p)})
		}
	}()
	return CanonV(inst.Obs())
}
