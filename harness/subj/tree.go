package subj

import (
	"fmt"
	"sync/atomic"

	"github.com/bradenaw/juniper/container/tree"
	"github.com/bradenaw/juniper/iterator"

	"verifharness/lts"
)

// Tree adapts container/tree.Map / Set to spec/tree/SortedMap.tla.
//
// Spec keys are 1..N in the comparator's ascending order. Variants choose the concrete key type,
// the comparator and the constructor:
//
//	int     Map[int,int], NewMap(less), key 10*k
//	cmp     Map[int,int], NewMapCmp(compare), key 10*k
//	rev     Map[int,int], NewMap(reversed less), key 10*(N+1-k)
//	str     Map[string,int], NewMap(less), key "k%02d"
//	coarse  Map[int,int], NewMapCmp on (k+1)/2 (keys 2j-1 and 2j are equivalent), key k
//	set     Set[int], NewSet(less), key 10*k (values must be 1)
//	setcmp  Set[int], NewSetCmp, reversed
type Tree struct {
	Variant string
	N       int
}

// smap is the common face of the variants, in spec keys.
type smap interface {
	Put(k, v int)
	Delete(k int)
	Get(k int) int
	Contains(k int) bool
	Len() int
	First() (int, int)
	Last() (int, int)
	Range(dir int, lo, hi [2]int) iterator.Iterator[[2]int]
	Shape() any
}

type keyMap[K any] struct {
	m    tree.Map[K, int]
	to   func(int) K
	from func(K) int
	i    atomic.Int64
	// zeroIsKey: the zero value of K is itself a key of the universe ("zero" variant); the zero key that First / Last
	// report for an empty map is then told apart by Len
	zeroIsKey bool
	isZero    func(K) bool
}

func (x *keyMap[K]) end(k K, v int) (int, int) {
	if x.zeroIsKey && x.m.Len() == 0 {
		if x.isZero(k) {
			return 0, v
		}
		return -1, v
	}
	return x.from(k), v
}

// alias returns one of several copies of the Map value: copies denote the same collection.
func (x *keyMap[K]) alias() tree.Map[K, int] {
	if x.i.Add(1)%2 == 0 {
		c := x.m
		return c
	}
	return x.m
}
func (x *keyMap[K]) Put(k, v int)        { x.alias().Put(x.to(k), v) }
func (x *keyMap[K]) Delete(k int)        { x.alias().Delete(x.to(k)) }
func (x *keyMap[K]) Get(k int) int       { return x.alias().Get(x.to(k)) }
func (x *keyMap[K]) Contains(k int) bool { return x.alias().Contains(x.to(k)) }
func (x *keyMap[K]) Len() int            { return x.alias().Len() }
func (x *keyMap[K]) First() (int, int)   { k, v := x.alias().First(); return x.end(k, v) }
func (x *keyMap[K]) Last() (int, int)    { k, v := x.alias().Last(); return x.end(k, v) }
func (x *keyMap[K]) Shape() any          { return x.m.VerifShape() }
func bound[K any](b [2]int, to func(int) K) tree.Bound[K] {
	switch b[0] {
	case 1:
		return tree.Included(to(b[1]))
	case 2:
		return tree.Excluded(to(b[1]))
	}
	return tree.Unbounded[K]()
}
func (x *keyMap[K]) Range(dir int, lo, hi [2]int) iterator.Iterator[[2]int] {
	m := x.alias()
	var it iterator.Iterator[tree.KVPair[K, int]]
	switch {
	case dir == 1 && lo[0] == 0 && hi[0] == 0 && x.i.Load()%3 == 0:
		it = m.Iterate()
	case dir == 1:
		it = m.Range(bound(lo, x.to), bound(hi, x.to))
	default:
		it = m.RangeReverse(bound(lo, x.to), bound(hi, x.to))
	}
	return iterator.Map(it, func(p tree.KVPair[K, int]) [2]int { return [2]int{x.from(p.Key), p.Value} })
}

type keySet struct {
	s    tree.Set[int]
	to   func(int) int
	from func(int) int
	i    atomic.Int64
}

func (x *keySet) alias() tree.Set[int] {
	if x.i.Add(1)%2 == 0 {
		c := x.s
		return c
	}
	return x.s
}
func b2i(b bool) int {
	if b {
		return 1
	}
	return 0
}
func (x *keySet) Put(k, v int)        { x.alias().Add(x.to(k)) }
func (x *keySet) Delete(k int)        { x.alias().Remove(x.to(k)) }
func (x *keySet) Get(k int) int       { return b2i(x.alias().Contains(x.to(k))) }
func (x *keySet) Contains(k int) bool { return x.alias().Contains(x.to(k)) }
func (x *keySet) Len() int            { return x.alias().Len() }
func (x *keySet) First() (int, int)   { k := x.from(x.alias().First()); return k, b2i(k != 0) }
func (x *keySet) Last() (int, int)    { k := x.from(x.alias().Last()); return k, b2i(k != 0) }
func (x *keySet) Shape() any          { return x.s.VerifShape() }
func (x *keySet) Range(dir int, lo, hi [2]int) iterator.Iterator[[2]int] {
	s := x.alias()
	var it iterator.Iterator[int]
	switch {
	case dir == 1 && lo[0] == 0 && hi[0] == 0 && x.i.Load()%3 == 0:
		it = s.Iterate()
	case dir == 1:
		it = s.Range(bound(lo, x.to), bound(hi, x.to))
	default:
		it = s.RangeReverse(bound(lo, x.to), bound(hi, x.to))
	}
	return iterator.Map(it, func(k int) [2]int { return [2]int{x.from(k), 1} })
}

// NewSMap builds the real collection for a variant over spec keys 1..n. cmpCount, if not nil, is
// incremented on every comparator call (C03's comparison bound).
func NewSMap(variant string, n int, cmpCount *int) smap {
	return NewSMapObs(variant, n, cmpCount, nil)
}

// NewSMapObs: onCmp (if not nil) is called with the two keys of every comparator call, as spec keys.
func NewSMapObs(variant string, n int, cmpCount *int, onCmp func(a, b int)) smap {
	var fromInt func(int) int
	count := func() {
		if cmpCount != nil {
			*cmpCount++
		}
	}
	obs := func(a, b int) {
		count()
		if onCmp != nil {
			onCmp(fromInt(a), fromInt(b))
		}
	}
	switch variant {
	case "rev", "setcmp":
		fromInt = func(c int) int {
			if c == 0 {
				return 0
			}
			return n + 1 - c/10
		}
	case "coarse":
		fromInt = func(c int) int { return c }
	default:
		fromInt = func(c int) int { return c / 10 }
	}
	intLess := func(a, b int) bool { obs(a, b); return a < b }
	intCmp := func(a, b int) int { obs(a, b); return a - b }
	switch variant {
	case "", "int":
		return &keyMap[int]{m: tree.NewMap[int, int](intLess), to: func(k int) int { return 10 * k }, from: func(c int) int { return c / 10 }}
	case "cmp":
		return &keyMap[int]{m: tree.NewMapCmp[int, int](intCmp), to: func(k int) int { return 10 * k }, from: func(c int) int { return c / 10 }}
	case "zero": // keys -n/2 .. n/2: the zero value of the key type is a key, negative keys exist
		mid := (n + 1) / 2
		fromInt = func(c int) int { return c + mid }
		return &keyMap[int]{m: tree.NewMapCmp[int, int](func(a, b int) int {
			obs(a, b)
			if a < b {
				return -7
			} else if a > b {
				return 3
			}
			return 0
		}), to: func(k int) int { return k - mid }, from: func(c int) int { return c + mid },
			zeroIsKey: true, isZero: func(c int) bool { return c == 0 }}
	case "rev":
		return &keyMap[int]{m: tree.NewMap[int, int](func(a, b int) bool { obs(a, b); return a > b }),
			to: func(k int) int { return 10 * (n + 1 - k) }, from: func(c int) int {
				if c == 0 {
					return 0
				}
				return n + 1 - c/10
			}}
	case "str":
		return &keyMap[string]{m: tree.NewMap[string, int](func(a, b string) bool {
			count()
			if onCmp != nil {
				var x, y int
				fmt.Sscanf(a, "k%d", &x)
				fmt.Sscanf(b, "k%d", &y)
				onCmp(x, y)
			}
			return a < b
		}),
			to: func(k int) string { return fmt.Sprintf("k%06d", k) }, from: func(c string) int {
				if c == "" {
					return 0
				}
				var k int
				fmt.Sscanf(c, "k%d", &k)
				return k
			}}
	case "coarse":
		return &keyMap[int]{m: tree.NewMapCmp[int, int](func(a, b int) int { obs(a, b); return (a+1)/2 - (b+1)/2 }),
			to: func(k int) int { return k }, from: func(c int) int { return c }}
	case "set":
		return &keySet{s: tree.NewSet[int](intLess), to: func(k int) int { return 10 * k }, from: func(c int) int { return c / 10 }}
	case "setcmp":
		return &keySet{s: tree.NewSetCmp[int](func(a, b int) int { obs(a, b); return b - a }),
			to: func(k int) int { return 10 * (n + 1 - k) }, from: func(c int) int {
				if c == 0 {
					return 0
				}
				return n + 1 - c/10
			}}
	}
	panic("tree: unknown variant " + variant)
}

type treeInst struct {
	m  smap
	n  int
	it map[int]iterator.Iterator[[2]int]
}

func (t Tree) New() lts.Instance {
	return &treeInst{m: NewSMap(t.Variant, t.N, nil), n: t.N, it: map[int]iterator.Iterator[[2]int]{}}
}

func (x *treeInst) Do(op lts.Op) any {
	m := x.m
	switch op.Name {
	case "Put":
		m.Put(op.Int(0), op.Int(1))
		return 0
	case "Delete":
		m.Delete(op.Int(0))
		return 0
	case "Get":
		return m.Get(op.Int(0))
	case "Contains":
		return b2i(m.Contains(op.Int(0)))
	case "Len":
		return m.Len()
	case "First":
		k, v := m.First()
		return []int{k, v}
	case "Last":
		k, v := m.Last()
		return []int{k, v}
	case "Range":
		x.it[op.Int(0)] = m.Range(op.Int(1), [2]int{op.Int(2), op.Int(3)}, [2]int{op.Int(4), op.Int(5)})
		return 0
	case "IterNext":
		p, ok := x.it[op.Int(0)].Next()
		if !ok {
			return []int{0, 0}
		}
		return p[:]
	}
	panic("tree: unknown op " + op.Name)
}

type TreeObs struct {
	Vals []int `json:"vals"`
	Len  int   `json:"len"`
}

func (x *treeInst) Obs() any {
	o := TreeObs{Vals: make([]int, x.n), Len: x.m.Len()}
	for k := 1; k <= x.n; k++ {
		o.Vals[k-1] = x.m.Get(k)
	}
	return o
}
