package subj

import (
	"github.com/bradenaw/juniper/container/deque"
	"github.com/bradenaw/juniper/iterator"

	"verifharness/lts"
)

// result sentinels shared with Deque.tla / Heap.tla
const (
	resPanic = -1
	resEnd   = -2
	resOK    = -3
)

// Deque adapts container/deque.Deque[int] to spec/deque/Deque.tla.
type Deque struct{}

type dequeInst struct {
	d  deque.Deque[int]
	it map[int]iterator.Iterator[int]
}

func (Deque) New() lts.Instance { return &dequeInst{it: map[int]iterator.Iterator[int]{}} }

// catch turns a panic of the library into the PANIC result.
func catch(f func() int) (res int) {
	defer func() {
		if recover() != nil {
			res = resPanic
		}
	}()
	return f()
}

func (x *dequeInst) Do(op lts.Op) any {
	d := &x.d
	switch op.Name {
	case "PushFront":
		return catch(func() int { d.PushFront(op.Int(0)); return resOK })
	case "PushBack":
		return catch(func() int { d.PushBack(op.Int(0)); return resOK })
	case "PopFront":
		return catch(func() int { return d.PopFront() })
	case "PopBack":
		return catch(func() int { return d.PopBack() })
	case "Front":
		return catch(func() int { return d.Front() })
	case "Back":
		return catch(func() int { return d.Back() })
	case "Len":
		return catch(func() int { return d.Len() })
	case "Item":
		return catch(func() int { return d.Item(op.Int(0)) })
	case "Set":
		return catch(func() int { d.Set(op.Int(0), op.Int(1)); return resOK })
	case "Grow":
		return catch(func() int { d.Grow(op.Int(0)); return resOK })
	case "Shrink":
		return catch(func() int { d.Shrink(op.Int(0)); return resOK })
	case "Iterate":
		k := 0
		if len(op.Args) > 0 {
			k = op.Int(0)
		}
		return catch(func() int { x.it[k] = d.Iterate(); return resOK })
	case "IterNext":
		k := 0
		if len(op.Args) > 0 {
			k = op.Int(0)
		}
		return catch(func() int {
			v, ok := x.it[k].Next()
			if !ok {
				return resEnd
			}
			return v
		})
	}
	panic("deque: unknown op " + op.Name)
}

type DequeObs struct {
	Q       []int `json:"q"`
	Len     int   `json:"len"`
	Garbage int   `json:"garbage"`
}

// ObserveDeque reads the contents through Item/Len and, through the read-only hook, counts the
// slots outside the live range that still hold a value (popped elements must not be retained).
func ObserveDeque(d *deque.Deque[int]) DequeObs {
	o := DequeObs{Q: []int{}, Len: d.Len()}
	for i := 0; i < o.Len && i < 1<<16; i++ {
		o.Q = append(o.Q, d.Item(i))
	}
	slots := d.VerifSlots()
	nonzero := 0
	for _, s := range slots {
		if s != 0 {
			nonzero++
		}
	}
	live := 0
	for _, v := range o.Q {
		if v != 0 {
			live++
		}
	}
	o.Garbage = nonzero - live
	return o
}

func (x *dequeInst) Obs() any { return ObserveDeque(&x.d) }

func (x *dequeInst) IObs() any {
	c, _, f, b, _ := x.d.VerifState()
	return map[string]int{"cap": c, "front": f, "back": b}
}
