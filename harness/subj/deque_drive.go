package subj

import (
	"math"
	"math/rand"

	"github.com/bradenaw/juniper/container/deque"
	"github.com/bradenaw/juniper/iterator"

	"verifharness/rec"
)

// DriveDeque records random histories of a real deque (sizes cross the 16 -> 32 -> 64 growth
// steps, wrapped buffers, pop-to-empty, Grow/Shrink, up to three live iterators).
func DriveDeque(r *rec.Rec, rng *rand.Rand, run, ops int, variant string) {
	var d deque.Deque[int]
	its := map[int]iterator.Iterator[int]{}
	// per-run profile: which way the size drifts and how often iterators are used
	growBias := []int{35, 50, 65}[run%3]
	maxLen := []int{6, 20, 40, 70}[(run/3)%4]
	iterHeavy := variant == "iter"
	emit := func(name string, args []int, it int, f func() int) {
		res := catch(f)
		ev := map[string]any{"op": name, "args": args, "res": res}
		if it > 0 {
			ev["it"] = it
		}
		var o DequeObs
		if msg := rec.Try(func() { o = ObserveDeque(&d) }); msg != "" {
			ev["op"] = "PANIC observing after " + name
			ev["panic"] = msg
		} else {
			ev["obs"] = o
		}
		r.Emit(ev)
	}
	val := func() int { return rng.Intn(10) } // 0 included: the zero value of the element type is an element
	for i := 0; i < ops; i++ {
		n := d.Len()
		c := rng.Intn(100)
		switch {
		case !iterHeavy && c < 4:
			// C04: plain iteration of an unchanged deque, drained at once (plus two calls past the end)
			var it iterator.Iterator[int]
			emit("Iterate", []int{}, 1, func() int { it = d.Iterate(); return resOK })
			for j := 0; j < n+2 && it != nil; j++ {
				emit("IterNext", []int{}, 1, func() int {
					v, ok := it.Next()
					if !ok {
						return resEnd
					}
					return v
				})
			}
			continue
		case iterHeavy && c < 30:
			k := 1 + rng.Intn(3)
			if _, ok := its[k]; !ok || rng.Intn(6) == 0 {
				emit("Iterate", []int{}, k, func() int { its[k] = d.Iterate(); return resOK })
			} else {
				it := its[k]
				dead := false
				emit("IterNext", []int{}, k, func() int {
					defer func() {
						if p := recover(); p != nil {
							dead = true
							panic(p)
						}
					}()
					v, ok := it.Next()
					if !ok {
						return resEnd
					}
					return v
				})
				if dead {
					delete(its, k)
				}
			}
			continue
		}
		c = rng.Intn(100)
		switch {
		case c < 70:
			push := rng.Intn(100) < growBias && n < maxLen || n == 0 && rng.Intn(4) > 0
			front := rng.Intn(2) == 0
			v := val()
			switch {
			case push && front:
				emit("PushFront", []int{v}, 0, func() int { d.PushFront(v); return resOK })
			case push:
				emit("PushBack", []int{v}, 0, func() int { d.PushBack(v); return resOK })
			case front:
				emit("PopFront", []int{}, 0, func() int { return d.PopFront() })
			default:
				emit("PopBack", []int{}, 0, func() int { return d.PopBack() })
			}
		case c < 74:
			emit("Front", []int{}, 0, func() int { return d.Front() })
		case c < 78:
			emit("Back", []int{}, 0, func() int { return d.Back() })
		case c < 80:
			emit("Len", []int{}, 0, func() int { return d.Len() })
		case c < 86:
			i := rng.Intn(n+3) - 1
			emit("Item", []int{i}, 0, func() int { return d.Item(i) })
		case c < 92:
			i := rng.Intn(n+3) - 1
			v := val()
			emit("Set", []int{i, v}, 0, func() int { d.Set(i, v); return resOK })
		case c < 96:
			g := []int{0, 1, 2, 5, 17, 40}[rng.Intn(6)]
			emit("Grow", []int{g}, 0, func() int { d.Grow(g); return resOK })
		default:
			s := []int{-1, 0, 0, 1, 3, 20, math.MaxInt, math.MaxInt - 1, math.MaxInt / 2, math.MinInt}[rng.Intn(10)]
			ls := s // logged clipped to 32 bits (TLC's integer range); only the sign matters to the rule
			if ls > math.MaxInt32 {
				ls = math.MaxInt32
			} else if ls < math.MinInt32 {
				ls = math.MinInt32 + 1
			}
			emit("Shrink", []int{ls}, 0, func() int { d.Shrink(s); return resOK })
		}
	}
}
