package subj

import (
	"github.com/bradenaw/juniper/container/xlist"

	"verifharness/lts"
)

// XList adapts container/xlist.List to spec/xlist/XList.tla. Node handles are kept per model id;
// a node's Value is its id.
type XList struct{}

type xlistInst struct {
	l       xlist.List[int]
	h       map[int]*xlist.Node[int]
	removed map[int]*xlist.Node[int]
}

func (XList) New() lts.Instance {
	return &xlistInst{h: map[int]*xlist.Node[int]{}, removed: map[int]*xlist.Node[int]{}}
}

func (x *xlistInst) Do(op lts.Op) any {
	switch op.Name {
	case "PushFront":
		id := op.Int(0)
		delete(x.removed, id)
		x.h[id] = x.l.PushFront(id)
		return x.h[id].Value
	case "PushBack":
		id := op.Int(0)
		delete(x.removed, id)
		x.h[id] = x.l.PushBack(id)
		return x.h[id].Value
	case "InsertBefore":
		id := op.Int(0)
		delete(x.removed, id)
		x.h[id] = x.l.InsertBefore(id, x.h[op.Int(1)])
		return x.h[id].Value
	case "InsertAfter":
		id := op.Int(0)
		delete(x.removed, id)
		x.h[id] = x.l.InsertAfter(id, x.h[op.Int(1)])
		return x.h[id].Value
	case "Remove":
		id := op.Int(0)
		x.l.Remove(x.h[id])
		x.removed[id] = x.h[id]
		return 0
	case "MoveBefore":
		x.l.MoveBefore(x.h[op.Int(0)], x.h[op.Int(1)])
		return 0
	case "MoveAfter":
		x.l.MoveAfter(x.h[op.Int(0)], x.h[op.Int(1)])
		return 0
	case "MoveToFront":
		x.l.MoveToFront(x.h[op.Int(0)])
		return 0
	case "MoveToBack":
		x.l.MoveToBack(x.h[op.Int(0)])
		return 0
	case "Clear":
		x.l.Clear()
		return 0
	}
	panic("xlist: unknown op " + op.Name)
}

// XListObs is the observation shared by the LTS replay and the trace recorder.
type XListObs struct {
	Fwd     []int `json:"fwd"`
	Bwd     []int `json:"bwd"`
	Len     int   `json:"len"`
	Removed []int `json:"removed"`
}

// ObserveXList walks the list both ways through the public API. A walk that is longer than any
// legal list is cut (a cycle); a handle whose identity or Value changed is reported as -id.
func ObserveXList(l *xlist.List[int], h, removed map[int]*xlist.Node[int], limit int) XListObs {
	o := XListObs{Fwd: []int{}, Bwd: []int{}, Removed: []int{}, Len: l.Len()}
	id := func(n *xlist.Node[int]) int {
		if hn, ok := h[n.Value]; ok && hn == n {
			return n.Value
		}
		return -1000 - n.Value
	}
	for n := l.Front(); n != nil && len(o.Fwd) <= limit; n = n.Next() {
		o.Fwd = append(o.Fwd, id(n))
	}
	for n := l.Back(); n != nil && len(o.Bwd) <= limit; n = n.Prev() {
		o.Bwd = append(o.Bwd, id(n))
	}
	if f := l.Front(); f != nil && f.Prev() != nil {
		o.Fwd = append([]int{-1}, o.Fwd...) // the first node has a Prev
	}
	if b := l.Back(); b != nil && b.Next() != nil {
		o.Bwd = append([]int{-1}, o.Bwd...) // the last node has a Next
	}
	for i := 1; i <= limit+1; i++ {
		if n, ok := removed[i]; ok {
			if n.Next() == nil && n.Prev() == nil && n.Value == i {
				o.Removed = append(o.Removed, i)
			} else {
				o.Removed = append(o.Removed, -i)
			}
		}
	}
	return o
}

func (x *xlistInst) Obs() any {
	return ObserveXList(&x.l, x.h, x.removed, 8)
}
