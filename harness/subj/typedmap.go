package subj

import (
	"errors"
	"math"
	"sort"
	"sync"

	"github.com/bradenaw/juniper/xsync"

	"verifharness/lts"
)

// TypedMap adapts xsync.Map to spec/xsync/TypedMap.tla. Variants: "int" (V = int), "err"
// (V = error: value 0 is the nil error), "any" (V = any), "ref" (a raw sync.Map - the reference
// the statement names, replayed side by side to guard the spec's table against transcription errors).
type TypedMap struct{ Variant string }

var tmErrs = []error{nil, errors.New("e1"), errors.New("e2")}

type tmap interface {
	Load(k int) (int, bool)
	Store(k, v int)
	LoadOrStore(k, v int) (int, bool)
	LoadAndDelete(k int) (int, bool)
	Delete(k int)
	Swap(k, v int) (int, bool)
	CompareAndSwap(k, o, n int) bool
	CompareAndDelete(k, o int) bool
	Range(f func(k, v int) bool)
}

type tmInt struct{ m xsync.Map[int, int] }

func (x *tmInt) Load(k int) (int, bool)           { return x.m.Load(k) }
func (x *tmInt) Store(k, v int)                   { x.m.Store(k, v) }
func (x *tmInt) LoadOrStore(k, v int) (int, bool) { return x.m.LoadOrStore(k, v) }
func (x *tmInt) LoadAndDelete(k int) (int, bool)  { return x.m.LoadAndDelete(k) }
func (x *tmInt) Delete(k int)                     { x.m.Delete(k) }
func (x *tmInt) Swap(k, v int) (int, bool)        { return x.m.Swap(k, v) }
func (x *tmInt) CompareAndSwap(k, o, n int) bool  { return x.m.CompareAndSwap(k, o, n) }
func (x *tmInt) CompareAndDelete(k, o int) bool   { return x.m.CompareAndDelete(k, o) }
func (x *tmInt) Range(f func(k, v int) bool)      { x.m.Range(f) }

func errIdx(e error) int {
	for i, x := range tmErrs {
		if x == e {
			return i
		}
	}
	return -99
}

type tmErr struct{ m xsync.Map[int, error] }

func (x *tmErr) Load(k int) (int, bool) { v, ok := x.m.Load(k); return errIdx(v), ok }
func (x *tmErr) Store(k, v int)         { x.m.Store(k, tmErrs[v]) }
func (x *tmErr) LoadOrStore(k, v int) (int, bool) {
	a, ok := x.m.LoadOrStore(k, tmErrs[v])
	return errIdx(a), ok
}
func (x *tmErr) LoadAndDelete(k int) (int, bool) { v, ok := x.m.LoadAndDelete(k); return errIdx(v), ok }
func (x *tmErr) Delete(k int)                    { x.m.Delete(k) }
func (x *tmErr) Swap(k, v int) (int, bool)       { p, ok := x.m.Swap(k, tmErrs[v]); return errIdx(p), ok }
func (x *tmErr) CompareAndSwap(k, o, n int) bool { return x.m.CompareAndSwap(k, tmErrs[o], tmErrs[n]) }
func (x *tmErr) CompareAndDelete(k, o int) bool  { return x.m.CompareAndDelete(k, tmErrs[o]) }
func (x *tmErr) Range(f func(k, v int) bool) {
	x.m.Range(func(k int, v error) bool { return f(k, errIdx(v)) })
}

func anyOf(v int) any {
	if v == 0 {
		return nil
	}
	return v
}
func anyIdx(a any) int {
	if a == nil {
		return 0
	}
	return a.(int)
}

type tmAny struct{ m xsync.Map[int, any] }

func (x *tmAny) Load(k int) (int, bool) { v, ok := x.m.Load(k); return anyIdx(v), ok }
func (x *tmAny) Store(k, v int)         { x.m.Store(k, anyOf(v)) }
func (x *tmAny) LoadOrStore(k, v int) (int, bool) {
	a, ok := x.m.LoadOrStore(k, anyOf(v))
	return anyIdx(a), ok
}
func (x *tmAny) LoadAndDelete(k int) (int, bool) { v, ok := x.m.LoadAndDelete(k); return anyIdx(v), ok }
func (x *tmAny) Delete(k int)                    { x.m.Delete(k) }
func (x *tmAny) Swap(k, v int) (int, bool)       { p, ok := x.m.Swap(k, anyOf(v)); return anyIdx(p), ok }
func (x *tmAny) CompareAndSwap(k, o, n int) bool { return x.m.CompareAndSwap(k, anyOf(o), anyOf(n)) }
func (x *tmAny) CompareAndDelete(k, o int) bool  { return x.m.CompareAndDelete(k, anyOf(o)) }
func (x *tmAny) Range(f func(k, v int) bool) {
	x.m.Range(func(k int, v any) bool { return f(k, anyIdx(v)) })
}

// tmRef: raw sync.Map holding `any` values (nil allowed), absent reported as 0.
type tmRef struct{ m sync.Map }

func (x *tmRef) Load(k int) (int, bool) { v, ok := x.m.Load(k); return anyIdx(v), ok }
func (x *tmRef) Store(k, v int)         { x.m.Store(k, anyOf(v)) }
func (x *tmRef) LoadOrStore(k, v int) (int, bool) {
	a, ok := x.m.LoadOrStore(k, anyOf(v))
	return anyIdx(a), ok
}
func (x *tmRef) LoadAndDelete(k int) (int, bool) { v, ok := x.m.LoadAndDelete(k); return anyIdx(v), ok }
func (x *tmRef) Delete(k int)                    { x.m.Delete(k) }
func (x *tmRef) Swap(k, v int) (int, bool)       { p, ok := x.m.Swap(k, anyOf(v)); return anyIdx(p), ok }
func (x *tmRef) CompareAndSwap(k, o, n int) bool { return x.m.CompareAndSwap(k, anyOf(o), anyOf(n)) }
func (x *tmRef) CompareAndDelete(k, o int) bool  { return x.m.CompareAndDelete(k, anyOf(o)) }
func (x *tmRef) Range(f func(k, v int) bool) {
	x.m.Range(func(k, v any) bool { return f(k.(int), anyIdx(v)) })
}

// "float": V = float64 with the values +0.0 (zero value, spec value 0), 1.5 (1) and -0.0 (2): -0.0 == +0.0 but they are
// different values (sync.Map stores what it is given and compares with ==)
func fOf(v int) float64 {
	switch v {
	case 1:
		return 1.5
	case 2:
		return math.Copysign(0, -1)
	}
	return 0
}
func fIdx(f float64) int {
	switch {
	case f == 1.5:
		return 1
	case f == 0 && math.Signbit(f):
		return 2
	case f == 0:
		return 0
	}
	return -99
}

type tmFloat struct{ m xsync.Map[int, float64] }

func (x *tmFloat) Load(k int) (int, bool) { v, ok := x.m.Load(k); return fIdx(v), ok }
func (x *tmFloat) Store(k, v int)         { x.m.Store(k, fOf(v)) }
func (x *tmFloat) LoadOrStore(k, v int) (int, bool) {
	a, ok := x.m.LoadOrStore(k, fOf(v))
	return fIdx(a), ok
}
func (x *tmFloat) LoadAndDelete(k int) (int, bool) { v, ok := x.m.LoadAndDelete(k); return fIdx(v), ok }
func (x *tmFloat) Delete(k int)                    { x.m.Delete(k) }
func (x *tmFloat) Swap(k, v int) (int, bool)       { p, ok := x.m.Swap(k, fOf(v)); return fIdx(p), ok }
func (x *tmFloat) CompareAndSwap(k, o, n int) bool { return x.m.CompareAndSwap(k, fOf(o), fOf(n)) }
func (x *tmFloat) CompareAndDelete(k, o int) bool  { return x.m.CompareAndDelete(k, fOf(o)) }
func (x *tmFloat) Range(f func(k, v int) bool) {
	x.m.Range(func(k int, v float64) bool { return f(k, fIdx(v)) })
}

// "anyslice": V = any holding values that are not comparable (slices): nil (0), []int{1} (1), []int{2} (2)
func sOf(v int) any {
	if v == 0 {
		return nil
	}
	return []int{v}
}
func sIdx(a any) int {
	if a == nil {
		return 0
	}
	if s, ok := a.([]int); ok && len(s) == 1 {
		return s[0]
	}
	return -99
}

type tmSlice struct{ m xsync.Map[int, any] }

func (x *tmSlice) Load(k int) (int, bool) { v, ok := x.m.Load(k); return sIdx(v), ok }
func (x *tmSlice) Store(k, v int)         { x.m.Store(k, sOf(v)) }
func (x *tmSlice) LoadOrStore(k, v int) (int, bool) {
	a, ok := x.m.LoadOrStore(k, sOf(v))
	return sIdx(a), ok
}
func (x *tmSlice) LoadAndDelete(k int) (int, bool) { v, ok := x.m.LoadAndDelete(k); return sIdx(v), ok }
func (x *tmSlice) Delete(k int)                    { x.m.Delete(k) }
func (x *tmSlice) Swap(k, v int) (int, bool)       { p, ok := x.m.Swap(k, sOf(v)); return sIdx(p), ok }
func (x *tmSlice) CompareAndSwap(k, o, n int) bool { return x.m.CompareAndSwap(k, sOf(o), sOf(n)) }
func (x *tmSlice) CompareAndDelete(k, o int) bool  { return x.m.CompareAndDelete(k, sOf(o)) }
func (x *tmSlice) Range(f func(k, v int) bool) {
	x.m.Range(func(k int, v any) bool { return f(k, sIdx(v)) })
}

// tmRefF: raw sync.Map holding float64 values (the reference for the "float" variant)
type tmRefF struct{ m sync.Map }

func rfIdx(a any) int {
	if a == nil {
		return 0
	}
	return fIdx(a.(float64))
}
func (x *tmRefF) Load(k int) (int, bool) { v, ok := x.m.Load(k); return rfIdx(v), ok }
func (x *tmRefF) Store(k, v int)         { x.m.Store(k, fOf(v)) }
func (x *tmRefF) LoadOrStore(k, v int) (int, bool) {
	a, ok := x.m.LoadOrStore(k, fOf(v))
	return rfIdx(a), ok
}
func (x *tmRefF) LoadAndDelete(k int) (int, bool) { v, ok := x.m.LoadAndDelete(k); return rfIdx(v), ok }
func (x *tmRefF) Delete(k int)                    { x.m.Delete(k) }
func (x *tmRefF) Swap(k, v int) (int, bool)       { p, ok := x.m.Swap(k, fOf(v)); return rfIdx(p), ok }
func (x *tmRefF) CompareAndSwap(k, o, n int) bool { return x.m.CompareAndSwap(k, fOf(o), fOf(n)) }
func (x *tmRefF) CompareAndDelete(k, o int) bool  { return x.m.CompareAndDelete(k, fOf(o)) }
func (x *tmRefF) Range(f func(k, v int) bool) {
	x.m.Range(func(k, v any) bool { return f(k.(int), rfIdx(v)) })
}

// "nankey": K = float64, key 1 = 1.0 and key 2 = NaN (a key that is not equal to itself)
func nkOf(k int) float64 {
	if k == 2 {
		return math.NaN()
	}
	return float64(k)
}
func nkIdx(f float64) int {
	if f != f {
		return 2
	}
	return int(f)
}

type tmNan struct{ m xsync.Map[float64, int] }

func (x *tmNan) Load(k int) (int, bool)           { return x.m.Load(nkOf(k)) }
func (x *tmNan) Store(k, v int)                   { x.m.Store(nkOf(k), v) }
func (x *tmNan) LoadOrStore(k, v int) (int, bool) { return x.m.LoadOrStore(nkOf(k), v) }
func (x *tmNan) LoadAndDelete(k int) (int, bool)  { return x.m.LoadAndDelete(nkOf(k)) }
func (x *tmNan) Delete(k int)                     { x.m.Delete(nkOf(k)) }
func (x *tmNan) Swap(k, v int) (int, bool)        { return x.m.Swap(nkOf(k), v) }
func (x *tmNan) CompareAndSwap(k, o, n int) bool  { return x.m.CompareAndSwap(nkOf(k), o, n) }
func (x *tmNan) CompareAndDelete(k, o int) bool   { return x.m.CompareAndDelete(nkOf(k), o) }
func (x *tmNan) Range(f func(k, v int) bool) {
	x.m.Range(func(k float64, v int) bool { return f(nkIdx(k), v) })
}

// tmRefNan: raw sync.Map with the same keys (the reference for "nankey")
type tmRefNan struct{ m sync.Map }

func (x *tmRefNan) Load(k int) (int, bool) { v, ok := x.m.Load(nkOf(k)); return anyIdx(v), ok }
func (x *tmRefNan) Store(k, v int)         { x.m.Store(nkOf(k), v) }
func (x *tmRefNan) LoadOrStore(k, v int) (int, bool) {
	a, ok := x.m.LoadOrStore(nkOf(k), v)
	return anyIdx(a), ok
}
func (x *tmRefNan) LoadAndDelete(k int) (int, bool) {
	v, ok := x.m.LoadAndDelete(nkOf(k))
	return anyIdx(v), ok
}
func (x *tmRefNan) Delete(k int)                    { x.m.Delete(nkOf(k)) }
func (x *tmRefNan) Swap(k, v int) (int, bool)       { p, ok := x.m.Swap(nkOf(k), v); return anyIdx(p), ok }
func (x *tmRefNan) CompareAndSwap(k, o, n int) bool { return x.m.CompareAndSwap(nkOf(k), o, n) }
func (x *tmRefNan) CompareAndDelete(k, o int) bool  { return x.m.CompareAndDelete(nkOf(k), o) }
func (x *tmRefNan) Range(f func(k, v int) bool) {
	x.m.Range(func(k, v any) bool { return f(nkIdx(k.(float64)), v.(int)) })
}

type tmInst struct{ m tmap }

func (t TypedMap) New() lts.Instance {
	switch t.Variant {
	case "err":
		return &tmInst{&tmErr{}}
	case "any":
		return &tmInst{&tmAny{}}
	case "ref":
		return &tmInst{&tmRef{}}
	case "float":
		return &tmInst{&tmFloat{}}
	case "reffloat":
		return &tmInst{&tmRefF{}}
	case "nankey":
		return &tmInst{&tmNan{}}
	case "refnan":
		return &tmInst{&tmRefNan{}}
	case "anyslice":
		return &tmInst{&tmSlice{}}
	}
	return &tmInst{&tmInt{}}
}

func pair(v int, ok bool) []int { return []int{v, b2i(ok)} }

func (x *tmInst) Do(op lts.Op) any {
	m := x.m
	switch op.Name {
	case "Load":
		return pair(m.Load(op.Int(0)))
	case "Store":
		m.Store(op.Int(0), op.Int(1))
		return []int{0, 0}
	case "LoadOrStore":
		return pair(m.LoadOrStore(op.Int(0), op.Int(1)))
	case "LoadAndDelete":
		return pair(m.LoadAndDelete(op.Int(0)))
	case "Delete":
		m.Delete(op.Int(0))
		return []int{0, 0}
	case "Swap":
		return pair(m.Swap(op.Int(0), op.Int(1)))
	case "CompareAndSwap":
		return pair(0, m.CompareAndSwap(op.Int(0), op.Int(1), op.Int(2)))
	case "CompareAndDelete":
		return pair(0, m.CompareAndDelete(op.Int(0), op.Int(1)))
	case "Range":
		return x.entries()
	}
	panic("typedmap: unknown op " + op.Name)
}

func (x *tmInst) entries() [][]int {
	out := [][]int{}
	x.m.Range(func(k, v int) bool { out = append(out, []int{k, v}); return true })
	sort.Slice(out, func(i, j int) bool { return out[i][0] < out[j][0] || (out[i][0] == out[j][0] && out[i][1] < out[j][1]) })
	return out
}

func (x *tmInst) Obs() any { return map[string]any{"entries": x.entries()} }
