package subj

import (
	"encoding/json"
	"sort"

	"github.com/bradenaw/juniper/container/xheap"
	"github.com/bradenaw/juniper/iterator"

	"verifharness/lts"
)

// Heap adapts xheap.Heap[int] to spec/heap/HeapP.tla: an item is 10*prio+id, ordered by prio only.
// variant "cmp" builds the heap with NewCmp.
type Heap struct{ Cmp bool }

type heapInst struct {
	cmp bool
	h   xheap.Heap[int]
	it  map[int]iterator.Iterator[int]
}

func heapLess(a, b int) bool { return a/10 < b/10 }
func heapCmp(a, b int) int   { return a/10 - b/10 }

func newHeap(cmp bool, initial []int) xheap.Heap[int] {
	if cmp {
		return xheap.NewCmp(heapCmp, initial)
	}
	return xheap.New(heapLess, initial)
}

func (s Heap) New() lts.Instance {
	return &heapInst{cmp: s.Cmp, h: newHeap(s.Cmp, nil), it: map[int]iterator.Iterator[int]{}}
}

func intList(raw json.RawMessage) []int {
	var l []int
	if err := json.Unmarshal(raw, &l); err != nil {
		panic(err)
	}
	return l
}

func (x *heapInst) Do(op lts.Op) any {
	h := x.h
	switch op.Name {
	case "New":
		x.h = newHeap(x.cmp, intList(op.Args[0]))
		return resOK
	case "Push":
		return catch(func() int { h.Push(op.Int(0)); return resOK })
	case "Pop":
		return catch(func() int { return h.Pop() })
	case "Peek":
		return catch(func() int { return h.Peek() })
	case "Len":
		return catch(func() int { return h.Len() })
	case "Grow":
		return catch(func() int { h.Grow(op.Int(0)); return resOK })
	case "Shrink":
		return catch(func() int { h.Shrink(op.Int(0)); return resOK })
	case "Iterate":
		return catch(func() int { x.it[op.Int(0)] = h.Iterate(); return resOK })
	case "IterNext":
		return catch(func() int {
			v, ok := x.it[op.Int(0)].Next()
			if !ok {
				return resEnd
			}
			return v
		})
	}
	panic("heap: unknown op " + op.Name)
}

type HeapObs struct {
	Items []int `json:"items"`
	Len   int   `json:"len"`
}

// ObserveHeap lists the held items with a fresh iterator (which does not disturb the heap).
func ObserveHeap(h xheap.Heap[int]) HeapObs {
	o := HeapObs{Items: []int{}, Len: h.Len()}
	it := h.Iterate()
	for i := 0; i < 1<<16; i++ {
		v, ok := it.Next()
		if !ok {
			break
		}
		o.Items = append(o.Items, v)
	}
	sort.Ints(o.Items)
	return o
}

func (x *heapInst) Obs() any { return ObserveHeap(x.h) }

// PQ adapts xheap.PriorityQueue[int,int] to spec/heap/PQP.tla.
type PQ struct {
	Cmp bool
	K   int
	Div int
}

type pqInst struct {
	cmp bool
	k   int
	div int
	q   shiftPQ
	it  map[int]iterator.Iterator[int]
}

// shiftPQ presents the queue with spec keys 1..K while the library sees the keys 0..K-1: the zero value of the key type
// is a key.
type shiftPQ struct {
	q xheap.PriorityQueue[int, int]
}

func (s shiftPQ) Update(k, p int)     { s.q.Update(k-1, p) }
func (s shiftPQ) Remove(k int)        { s.q.Remove(k - 1) }
func (s shiftPQ) Contains(k int) bool { return s.q.Contains(k - 1) }
func (s shiftPQ) Priority(k int) int  { return s.q.Priority(k - 1) }
func (s shiftPQ) Pop() int            { return s.q.Pop() + 1 }
func (s shiftPQ) Peek() int           { return s.q.Peek() + 1 }
func (s shiftPQ) Len() int            { return s.q.Len() }
func (s shiftPQ) Grow(n int)          { s.q.Grow(n) }
func (s shiftPQ) Iterate() iterator.Iterator[int] {
	return iterator.Map(s.q.Iterate(), func(k int) int { return k + 1 })
}

// div > 1: a coarse order - priorities p, q with p/div == q/div tie although they are different values
func newPQ(cmp bool, div int, initial []xheap.KP[int, int]) shiftPQ {
	for i := range initial {
		initial[i].K--
	}
	if div < 1 {
		div = 1
	}
	if cmp {
		return shiftPQ{xheap.NewPriorityQueueCmp(func(a, b int) int { return a/div - b/div }, initial)}
	}
	return shiftPQ{xheap.NewPriorityQueue(func(a, b int) bool { return a/div < b/div }, initial)}
}

func (s PQ) New() lts.Instance {
	return &pqInst{cmp: s.Cmp, k: s.K, div: s.Div, q: newPQ(s.Cmp, s.Div, nil), it: map[int]iterator.Iterator[int]{}}
}

func (x *pqInst) Do(op lts.Op) any {
	q := x.q
	switch op.Name {
	case "New":
		var l [][]int
		if err := json.Unmarshal(op.Args[0], &l); err != nil {
			panic(err)
		}
		var init []xheap.KP[int, int]
		for _, kp := range l {
			init = append(init, xheap.KP[int, int]{K: kp[0], P: kp[1]})
		}
		x.q = newPQ(x.cmp, x.div, init)
		return resOK
	case "Update":
		return catch(func() int { q.Update(op.Int(0), op.Int(1)); return resOK })
	case "Remove":
		return catch(func() int { q.Remove(op.Int(0)); return resOK })
	case "Contains":
		return catch(func() int {
			if q.Contains(op.Int(0)) {
				return 1
			}
			return 0
		})
	case "Priority":
		return catch(func() int { return q.Priority(op.Int(0)) })
	case "Pop":
		return catch(func() int { return q.Pop() })
	case "Peek":
		return catch(func() int { return q.Peek() })
	case "Len":
		return catch(func() int { return q.Len() })
	case "Grow":
		return catch(func() int { q.Grow(op.Int(0)); return resOK })
	case "Iterate":
		return catch(func() int { x.it[op.Int(0)] = q.Iterate(); return resOK })
	case "IterNext":
		return catch(func() int {
			v, ok := x.it[op.Int(0)].Next()
			if !ok {
				return resEnd
			}
			return v
		})
	}
	panic("pq: unknown op " + op.Name)
}

type PQObs struct {
	Prio []int `json:"prio"`
	Keys []int `json:"keys"`
	Len  int   `json:"len"`
}

// ObservePQ asks Contains/Priority for every key of the universe 1..k and lists the keys with a
// fresh iterator. A key that Contains reports but whose Priority is the zero value shows as -1.
func ObservePQ(q shiftPQ, k int) PQObs {
	o := PQObs{Prio: make([]int, k), Keys: []int{}, Len: q.Len()}
	for i := 1; i <= k; i++ {
		p := q.Priority(i)
		c := q.Contains(i)
		switch {
		case c && p != 0:
			o.Prio[i-1] = p
		case c:
			o.Prio[i-1] = -1
		case p != 0:
			o.Prio[i-1] = -2 // absent key with a non-zero priority
		}
	}
	it := q.Iterate()
	for i := 0; i < 1<<16; i++ {
		v, ok := it.Next()
		if !ok {
			break
		}
		o.Keys = append(o.Keys, v)
	}
	sort.Ints(o.Keys)
	return o
}

func (x *pqInst) Obs() any { return ObservePQ(x.q, x.k) }
