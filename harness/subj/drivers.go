package subj

import (
	"math/rand"

	"verifharness/rec"
)

type Driver func(r *rec.Rec, rng *rand.Rand, run, ops int, variant string)

func Drivers() map[string]Driver {
	return map[string]Driver{
		"xlist":  DriveXList,
		"deque":  DriveDeque,
		"tree":   DriveTree,
		"cursor": DriveCursor,
		"heap":   DriveHeap,
		"pq":     DrivePQ,
	}
}
