package subj

import (
	"math/rand"
	"os"
	"sort"
	"strconv"
	"strings"
	"time"

	"github.com/bradenaw/juniper/container/tree"
	"github.com/bradenaw/juniper/iterator"

	"verifharness/rec"
)

// ShapeInt is VerifTree with keys converted to spec keys.
type ShapeInt struct {
	Nodes []tree.VerifNode[int] `json:"nodes"`
	Size  int                   `json:"size"`
	Gen   int                   `json:"gen"`
}

func convShape[K any](s tree.VerifTree[K], from func(K) int) ShapeInt {
	out := ShapeInt{Size: s.Size, Gen: s.Gen, Nodes: make([]tree.VerifNode[int], len(s.Nodes))}
	for i, n := range s.Nodes {
		ks := make([]int, len(n.Keys))
		for j, k := range n.Keys {
			ks[j] = from(k)
		}
		out.Nodes[i] = tree.VerifNode[int]{Level: n.Level, N: n.N, Keys: ks, Leaf: n.Leaf, Children: n.Children, ParentOK: n.ParentOK, ClearedOK: n.ClearedOK}
	}
	return out
}

func (x *keyMap[K]) ShapeInt() ShapeInt { return convShape(x.m.VerifShape(), x.from) }
func (x *keySet) ShapeInt() ShapeInt    { return convShape(x.s.VerifShape(), x.from) }

type shaper interface{ ShapeInt() ShapeInt }

func shapeDepth(s ShapeInt) int {
	if len(s.Nodes) == 0 || (s.Nodes[0].N == 0 && s.Nodes[0].Leaf) {
		return 0
	}
	d := 0
	for _, n := range s.Nodes {
		if n.Leaf && n.Level+1 > d {
			d = n.Level + 1
		}
	}
	return d
}

// watch runs f; if it does not return within 10 s (an iterator that spins) the event is recorded
// as a hang and the process ends (the spinning goroutine cannot be stopped).
func watch(r *rec.Rec, name string, f func()) (msg string) {
	done := make(chan string, 1)
	go func() { done <- rec.Try(f) }()
	select {
	case m := <-done:
		return m
	case <-time.After(10 * time.Second):
		r.Emit(map[string]any{"op": "HANG in " + name})
		r.Close()
		os.Exit(0)
	}
	return ""
}

// DriveTree records histories of a real tree.Map/Set with the shipped fan-out of 16.
// variant = "<kind>:<universe>" (kind as in NewSMap, universe 40 | 320 | 1300).
func DriveTree(r *rec.Rec, rng *rand.Rand, run, ops int, variant string) {
	kind, U := "int", 320
	noShape, cleanIter := false, false
	if p := strings.Split(variant, ":"); len(p) >= 2 {
		kind = p[0]
		U, _ = strconv.Atoi(p[1])
		for _, f := range p[2:] {
			noShape = noShape || f == "noshape"       // C01/C02 traces: no structural logging
			cleanIter = cleanIter || f == "cleaniter" // C01: iterators are drained at once, no mutation in between
		}
	}
	sweepRun := -1 // kind "sweep": run r fills monotonically (r%2: up/down) to a size that steps through 100..U, then drains
	if kind == "sweep" {
		sweepRun = run
		kind = []string{"int", "cmp", "set"}[(run/2)%3]
	}
	breathe, shrinking := kind == "breathe", false
	if breathe {
		kind = []string{"int", "cmp", "rev", "set", "zero"}[run%5]
	}
	cascade := kind == "cascade"
	if cascade {
		kind = []string{"int", "cmp", "set"}[run%3]
	}
	deep := kind == "deep" // four levels: a monotone fill of the whole universe, then work on the keys of the inner nodes
	if deep {
		kind = []string{"int", "cmp", "zero", "rev"}[run%4]
	}
	if kind == "mix" {
		kind = []string{"int", "cmp", "rev", "str", "set", "setcmp", "zero"}[run%7]
	}
	isSet := strings.HasPrefix(kind, "set")
	coarse := kind == "coarse"
	cls := func(k int) int {
		if coarse {
			return (k + 1) / 2
		}
		return k
	}
	cmpPerLevel := 30 // less-constructed: LessCompare makes up to two less calls per key comparison
	if kind == "cmp" || kind == "coarse" || kind == "setcmp" || kind == "zero" {
		cmpPerLevel = 15
	}
	var cmps int
	var cmpPairs [][2]int
	m := NewSMapObs(kind, U, &cmps, func(a, b int) { cmpPairs = append(cmpPairs, [2]int{a, b}) })
	sh := m.(shaper)
	shapeEvery := 1
	if U > 400 {
		shapeEvery = 16
	}
	muts := 0
	shapeNow := false // cascade: the structure is logged after every mutation of the steered phase only
	dead := false
	present := map[int]bool{} // classes present (driver's own bookkeeping to steer, never to judge)
	emit := func(name string, args []int, res any, withShape bool, extra map[string]any) {
		ev := map[string]any{"op": name, "args": args, "res": res}
		for k, v := range extra {
			ev[k] = v
		}
		if withShape && !noShape {
			muts++
			if (muts%shapeEvery == 0 && !cascade && !deep) || shapeNow {
				var s ShapeInt
				if msg := rec.Try(func() { s = sh.ShapeInt() }); msg != "" {
					ev["op"], ev["panic"] = "PANIC reading shape after "+name, msg
					dead = true
				} else {
					ev["shape"] = s
				}
			}
		}
		r.Emit(ev)
	}
	call := func(name string, args []int, withShape bool, f func() any) any {
		var res any
		if msg := watch(r, name, func() { res = f() }); msg != "" {
			r.Emit(map[string]any{"op": "PANIC in " + name, "args": args, "panic": msg})
			dead = true
			return nil
		}
		emit(name, args, res, withShape, nil)
		return res
	}
	val := func() int {
		if isSet {
			return 1
		}
		return 1 + rng.Intn(5)
	}
	put := func(k int) {
		v := val()
		call("Put", []int{k, v}, true, func() any { m.Put(k, v); return 0 })
		present[cls(k)] = true
	}
	inner := func() (n int, s ShapeInt) { // number of inner nodes (steering only)
		rec.Try(func() { s = sh.ShapeInt() })
		for _, nd := range s.Nodes {
			if !nd.Leaf {
				n++
			}
		}
		return n, s
	}
	var lookup func(k int)
	del := func(k int) {
		before := 0
		if breathe {
			before, _ = inner()
		}
		call("Delete", []int{k}, true, func() any { m.Delete(k); return 0 })
		delete(present, cls(k))
		if !breathe || dead {
			return
		}
		// this Delete made inner nodes merge (a cascade): at once make a leaf split again, with no other merge in between
		after, s := inner()
		if after >= before || coarse {
			return
		}
		for _, nd := range s.Nodes {
			if !nd.Leaf || nd.N < 2 {
				continue
			}
			lo, hi := nd.Keys[0], nd.Keys[nd.N-1]
			if lo > hi {
				lo, hi = hi, lo
			}
			free := []int{}
			for k := lo + 1; k < hi; k++ {
				if !present[cls(k)] {
					free = append(free, k)
				}
			}
			if len(free) < 16-nd.N {
				continue
			}
			nodes := len(s.Nodes)
			for _, k := range free {
				put(k)
				var s2 ShapeInt
				rec.Try(func() { s2 = sh.ShapeInt() })
				if dead || len(s2.Nodes) != nodes {
					break
				}
			}
			lookup(lo)
			lookup(hi)
			break
		}
	}
	lookup = func(k int) {
		var s ShapeInt
		if msg := rec.Try(func() { s = sh.ShapeInt() }); msg != "" {
			return
		}
		d := shapeDepth(s)
		name := "Get"
		if rng.Intn(2) == 0 {
			name = "Contains"
		}
		var res any
		cmps = 0
		cmpPairs = cmpPairs[:0]
		if msg := watch(r, name, func() {
			if name == "Get" {
				res = m.Get(k)
			} else {
				res = b2i(m.Contains(k))
			}
		}); msg != "" {
			r.Emit(map[string]any{"op": "PANIC in " + name, "args": []int{k}, "panic": msg})
			dead = true
			return
		}
		if noShape {
			emit(name, []int{k}, res, false, nil)
			return
		}
		// comparator calls per level: a call is attributed to the level of the node key it involves
		level := map[int]int{}
		for _, nd := range s.Nodes {
			for _, nk := range nd.Keys {
				level[nk] = nd.Level
			}
		}
		perLevel := make([]int, d+1)
		for _, pr := range cmpPairs {
			other := pr[1]
			if _, ok := level[other]; !ok || cls(other) == cls(k) && cls(pr[0]) != cls(k) {
				other = pr[0]
			}
			if lv, ok := level[other]; ok && lv <= d {
				perLevel[lv]++
			}
		}
		emit(name, []int{k}, res, false, map[string]any{"cmps": cmps, "depth": d, "cmp_per_level": cmpPerLevel, "cmplv": perLevel})
	}
	// a key at the end of a node that is exactly full (15 keys): the most expensive lookup of its level
	fullNodeKey := func() int {
		var s ShapeInt
		if msg := rec.Try(func() { s = sh.ShapeInt() }); msg != "" {
			return 0
		}
		var cands []int
		for _, nd := range s.Nodes {
			if nd.N == 15 && len(nd.Keys) == 15 {
				cands = append(cands, nd.Keys[14], nd.Keys[13])
			}
		}
		if len(cands) == 0 {
			return 0
		}
		return cands[rng.Intn(len(cands))]
	}
	type liveIt struct {
		it   iterator.Iterator[[2]int]
		dir  int
		last int
	}
	its := map[int]*liveIt{}
	bnd := func() [2]int {
		switch rng.Intn(5) {
		case 0, 1:
			return [2]int{0, 0}
		case 2, 3:
			return [2]int{1, 1 + rng.Intn(U)}
		}
		return [2]int{2, 1 + rng.Intn(U)}
	}
	newIter := func(i int) {
		dir := 1
		if rng.Intn(2) == 0 {
			dir = -1
		}
		lo, hi := bnd(), bnd()
		if rng.Intn(4) > 0 && lo[0] != 0 && hi[0] != 0 && lo[1] > hi[1] {
			lo, hi = hi, lo
		}
		li := &liveIt{dir: dir}
		call("Range", []int{i, dir, lo[0], lo[1], hi[0], hi[1]}, false, func() any { li.it = m.Range(dir, lo, hi); return 0 })
		li.last = 0
		if dir == 1 && lo[0] != 0 {
			li.last = lo[1]
		} else if dir == -1 && hi[0] != 0 {
			li.last = hi[1]
		}
		its[i] = li
	}
	newIterAt := func(i, dir int, lo, hi [2]int) {
		li := &liveIt{dir: dir}
		call("Range", []int{i, dir, lo[0], lo[1], hi[0], hi[1]}, false, func() any { li.it = m.Range(dir, lo, hi); return 0 })
		if dir == 1 && lo[0] != 0 {
			li.last = lo[1]
		} else if dir == -1 && hi[0] != 0 {
			li.last = hi[1]
		}
		its[i] = li
	}
	var nextIter func(i int)
	// steering by the structure (never judging): the keys that sit in inner nodes - deleting one takes the
	// predecessor-replacement path, an iterator parked on one has to climb when it moves or re-seeks
	innerNodes := func() []tree.VerifNode[int] {
		var s ShapeInt
		rec.Try(func() { s = sh.ShapeInt() })
		var out []tree.VerifNode[int]
		for _, nd := range s.Nodes {
			if !nd.Leaf && nd.N > 0 {
				out = append(out, nd)
			}
		}
		return out
	}
	neighbours := func(k int) (pred, succ int) {
		for c := range present {
			if c < k && c > pred {
				pred = c
			}
			if c > k && (succ == 0 || c < succ) {
				succ = c
			}
		}
		return
	}
	// sepDrain: the key at one slot of one inner node (the root, or a node below it) is deleted again and again - every
	// time its predecessor is promoted into the slot - without any refill in between
	sepDrain := func() {
		lvl, ord, slot := rng.Intn(2), rng.Intn(16), rng.Intn(15)
		if deep {
			lvl = rng.Intn(3)
		}
		for n := 8 + rng.Intn(8); n > 0 && !dead; n-- {
			var cand []tree.VerifNode[int]
			for _, nd := range innerNodes() {
				if nd.Level == lvl {
					cand = append(cand, nd)
				}
			}
			if len(cand) == 0 {
				return
			}
			nd := cand[ord%len(cand)]
			del(nd.Keys[slot%nd.N])
		}
	}
	// sepPark: an iterator is parked on a key that sits in an inner node, that key is deleted, the iterator moves on
	sepPark := func() {
		in := innerNodes()
		if len(in) == 0 || coarse {
			return
		}
		nd := in[rng.Intn(len(in))]
		k := nd.Keys[rng.Intn(nd.N)]
		pred, succ := neighbours(k)
		id := 1 + rng.Intn(6)
		switch {
		case rng.Intn(2) == 0 && succ != 0:
			newIterAt(id, -1, [2]int{0, 0}, [2]int{1, succ})
		case pred != 0:
			newIterAt(id, 1, [2]int{1, pred}, [2]int{0, 0})
		default:
			return
		}
		nextIter(id) // yields the neighbour, parks on k
		if rng.Intn(3) == 0 && pred != 0 {
			del(pred) // sometimes a neighbour goes first (the parked key moves within / between nodes)
		}
		del(k)
		nextIter(id)
		nextIter(id)
	}
	drainIter := func(i int) {
		for n := 0; n < U+3 && !dead; n++ {
			before := its[i].last
			nextIter(i)
			if its[i].last == before && n > 0 && rng.Intn(2) == 0 {
				break
			}
		}
		delete(its, i)
	}
	nextIter = func(i int) {
		li := its[i]
		res := call("IterNext", []int{i}, false, func() any {
			p, ok := li.it.Next()
			if !ok {
				return []int{0, 0}
			}
			return p[:]
		})
		if p, ok := res.([]int); ok && p[0] != 0 {
			li.last = p[0]
		}
	}
	clampK := func(k int) int {
		if k < 1 {
			return 1
		}
		if k > U {
			return U
		}
		return k
	}
	// a key near a live iterator's position: at it, just after, a few after, just before
	nearIter := func() int {
		for i := 1; i <= 6; i++ {
			li := its[i]
			if li != nil && li.last != 0 && rng.Intn(2) == 0 {
				off := []int{0, 1, 1, 2, 2, 3, 5, 9, -1, -2, 17, 40}[rng.Intn(12)]
				return clampK(li.last + li.dir*off)
			}
		}
		return 1 + rng.Intn(U)
	}
	anyPresent := func() int {
		if len(present) == 0 {
			return 1 + rng.Intn(U)
		}
		cs := make([]int, 0, len(present))
		for c := range present {
			cs = append(cs, c)
		}
		sort.Ints(cs) // deterministic for a given seed (map order is not)
		c := cs[rng.Intn(len(cs))]
		if coarse {
			return 2*c - rng.Intn(2)
		}
		return c
	}

	if deep {
		for i := 0; i < U && !dead; i++ {
			if run%2 == 0 {
				put(1 + i)
			} else {
				put(U - i)
			}
		}
		for round := 0; round < ops && !dead; round++ {
			shapeNow = !noShape
			sepDrain()
			shapeNow = false
			for j := 0; j < 6 && !dead; j++ {
				lookup(nearIter())
				lookup(1 + rng.Intn(U))
			}
			if cleanIter && round%3 == 2 {
				newIter(1)
				drainIter(1)
			}
		}
		return
	}
	// ---- kind "cascade": steer by the structure itself - make a chosen child (run%16) of an exactly full inner node split,
	// first with the root as that node (the tree grows a level), then with an inner node below the root
	if cascade {
		fullInner := func(level int) (ShapeInt, int) {
			s := sh.ShapeInt()
			for i, nd := range s.Nodes {
				if !nd.Leaf && nd.N == 15 && nd.Level == level && s.Nodes[nd.Children[0]].Leaf {
					return s, i
				}
			}
			return s, -1
		}
		var steered []int
		for round := 0; round < 2 && !dead; round++ {
			s, at := fullInner(round)
			for tries := 0; at < 0 && tries < 4000 && !dead; tries++ {
				put(1 + rng.Intn(U))
				s, at = fullInner(round)
			}
			if at < 0 {
				break
			}
			j := (run / (1 + 15*round)) % 16
			nd := s.Nodes[at]
			lo, hi := 0, U+1
			if j > 0 {
				lo = nd.Keys[j-1]
			}
			if j < nd.N {
				hi = nd.Keys[j]
			}
			// fill child j until the inner node has split (it is no longer full)
			shapeNow = true
			for tries := 0; tries < 40 && !dead; tries++ {
				free := []int{}
				for k := lo + 1; k < hi; k++ {
					if !present[cls(k)] {
						free = append(free, k)
					}
				}
				if len(free) == 0 {
					break
				}
				k := free[rng.Intn(len(free))]
				put(k)
				steered = append(steered, k)
				if s2 := sh.ShapeInt(); len(s2.Nodes) > at && (s2.Nodes[at].N != 15 || s2.Nodes[at].Level != round) {
					break
				}
			}
			shapeNow = false
			// every key that went into the split region, and its neighbours, must be found again
			for _, k := range steered {
				lookup(k)
				lookup(clampK(k + 1))
			}
			lookup(clampK(lo))
			lookup(clampK(hi))
			if cleanIter {
				newIter(1)
				drainIter(1)
			}
		}
		// a short drain through the nodes that have just split (parent links, cleared slots), then the run ends
		shapeNow = true
		for n := 0; n < ops && !dead && len(present) > 0; n++ {
			del(anyPresent())
		}
		return
	}
	// ---- phase 1: a fill pattern up to a node-capacity boundary
	bounds := []int{15, 16, 17, 31, 127, 128, 129, 255, 256, 257}
	target := bounds[rng.Intn(len(bounds))]
	nClasses := U
	if coarse {
		nClasses = U / 2
	}
	if target > nClasses-2 {
		target = nClasses - 2 - rng.Intn(5)
	}
	if target < 1 {
		target = 1
	}
	pattern := run % 5
	// monotone fills of any size up to the universe (3 levels: inner nodes pass through every fill grade, in
	// particular "exactly full", while their siblings stay minimal), followed at once by a drain from the thin side
	sweep := pattern <= 1 && nClasses >= 100 && rng.Intn(2) == 0
	if sweep {
		target = 100 + rng.Intn(nClasses-101)
	}
	if sweepRun >= 0 && nClasses >= 110 {
		sweep, pattern = true, sweepRun%2
		target = 100 + ((sweepRun/2)*7+rng.Intn(7))%(nClasses-105)
	}
	keyOfClass := func(c int) int {
		if coarse {
			return 2*c - rng.Intn(2)
		}
		return c
	}
	off := rng.Intn(nClasses - target + 1)
	for i := 0; i < target && !dead; i++ {
		var c int
		switch pattern {
		case 0: // ascending
			c = off + 1 + i
		case 1: // descending
			c = off + target - i
		case 2: // saw-tooth: low, high, low+1, high-1 ...
			if i%2 == 0 {
				c = off + 1 + i/2
			} else {
				c = off + target - i/2
			}
		default: // random distinct-ish
			c = 1 + rng.Intn(nClasses)
		}
		put(keyOfClass(c))
		if !noShape && rng.Intn(6) == 0 {
			if k := fullNodeKey(); k != 0 {
				lookup(k)
			}
		}
		if rng.Intn(12) == 0 {
			if cleanIter {
				newIter(1)
				drainIter(1)
			} else if len(its) < 6 && rng.Intn(2) == 0 {
				newIter(1 + rng.Intn(6))
			} else if len(its) > 0 {
				for i := 1; i <= 6; i++ {
					if its[i] != nil {
						nextIter(i)
						break
					}
				}
			}
		}
	}
	// ---- phase 2: random mix / targeted drains with live iterators
	drain := 0 // >0: draining from one side
	sweepDels := 0
	if sweep {
		drain = 1 + pattern
	}
	for n := 0; n < ops && !dead; n++ {
		c := rng.Intn(100)
		switch {
		case c < 22:
			i := 1 + rng.Intn(6)
			if cleanIter {
				if c < 5 {
					newIter(1)
					drainIter(1)
				} else {
					lookup(1 + rng.Intn(U))
				}
			} else if its[i] == nil || rng.Intn(10) == 0 {
				newIter(i)
			} else {
				nextIter(i)
			}
		case c < 34:
			if k := fullNodeKey(); k != 0 && rng.Intn(3) == 0 {
				lookup(k)
			} else {
				lookup(nearIter())
			}
		case c < 38:
			call("Len", []int{}, false, func() any { return m.Len() })
		case c < 41:
			call("First", []int{}, false, func() any { k, v := m.First(); return []int{k, v} })
		case c < 44:
			call("Last", []int{}, false, func() any { k, v := m.Last(); return []int{k, v} })
		case c < 46 && drain == 0:
			drain = 1 + rng.Intn(3) // start a targeted drain
		case c < 49:
			if cleanIter || rng.Intn(3) == 0 {
				sepDrain()
			} else {
				sepPark()
			}
		default:
			size := len(present)
			wantDel := rng.Intn(100) < 50
			if size < 4 {
				wantDel = rng.Intn(100) < 15
			}
			if breathe { // the size swings between ~1/5 and ~4/5 of the universe: levels are lost and regained
				if size > nClasses*4/5 {
					shrinking = true
				} else if size < nClasses/5 {
					shrinking = false
				}
				if shrinking {
					wantDel = rng.Intn(100) < 88
				} else {
					wantDel = rng.Intn(100) < 12
				}
			}
			if drain > 0 {
				wantDel = rng.Intn(100) < 92
				if size == 0 {
					drain = 0
				}
			}
			var k int
			switch {
			case wantDel && drain == 1: // from the left
				// steering through the library itself: recorded calls, so that a crash is an event, not a dead driver
				if kv, ok := call("First", []int{}, false, func() any { k, v := m.First(); return []int{k, v} }).([]int); ok {
					k = kv[0]
				}
			case wantDel && drain == 2: // from the right
				if kv, ok := call("Last", []int{}, false, func() any { k, v := m.Last(); return []int{k, v} }).([]int); ok {
					k = kv[0]
				}
			case wantDel && drain == 3:
				k = anyPresent()
			case rng.Intn(3) == 0:
				k = nearIter()
			case wantDel:
				k = anyPresent()
			default:
				k = 1 + rng.Intn(U)
			}
			if k == 0 {
				k = 1 + rng.Intn(U)
			}
			if wantDel {
				del(k)
				if sweepRun >= 0 && drain > 0 && drain < 3 {
					if sweepDels++; sweepDels == 20 {
						drain = 3 - drain // then from the other side
					}
				}
			} else {
				put(k)
			}
		}
	}
}
