package subj

import (
	"math/rand"
	"sort"

	"github.com/bradenaw/juniper/container/tree"
	"github.com/bradenaw/juniper/iterator"
	"github.com/bradenaw/juniper/xsort"

	"verifharness/rec"
)

// DriveCursor records histories for the conformance check of the structural cursor model (spec/tree/
// BTreeCursor.tla, Trace_Cursor.tla): a real tree.Map[int,int] with up to four open iterators whose far end is
// unbounded (so that the hook can see their cursors), mutated between their Next calls. After every call the
// node structure (key lists in pre-order) and every open iterator's cursor position are logged.
// variant = universe size (default 320).
func DriveCursor(r *rec.Rec, rng *rand.Rand, run, ops int, variant string) {
	U := 320
	if variant == "40" {
		U = 40
	}
	m := tree.NewMap[int, int](xsort.OrderedLess[int])
	type itState struct {
		it   iterator.Iterator[tree.KVPair[int, int]]
		last int
	}
	its := map[int]*itState{}
	present := map[int]bool{}
	dead := false
	emit := func(ev map[string]any) {
		if msg := rec.Try(func() {
			s := m.VerifShape()
			pre := make([][]int, len(s.Nodes))
			for i, n := range s.Nodes {
				pre[i] = append([]int{}, n.Keys...)
			}
			ev["pre"] = pre
			curs := []map[string]any{}
			for id := 1; id <= 4; id++ {
				if its[id] == nil {
					continue
				}
				c, ok := m.VerifCursor(its[id].it)
				if !ok {
					panic("iterator is wrapped: no cursor")
				}
				curs = append(curs, map[string]any{"it": id, "node": c.Node, "i": c.I, "k": c.K, "current": c.Current})
			}
			ev["curs"] = curs
		}); msg != "" {
			ev["op"], ev["panic"] = "PANIC observing after "+ev["op"].(string), msg
			dead = true
		}
		r.Emit(ev)
	}
	do := func(name string, ev map[string]any, f func()) {
		ev["op"] = name
		if msg := rec.Try(f); msg != "" {
			ev["op"], ev["panic"] = "PANIC in "+name, msg
			dead = true
			r.Emit(ev)
			return
		}
		emit(ev)
	}
	val := 0
	put := func(k int) {
		val++
		v := val
		do("Put", map[string]any{"k": k, "v": v}, func() { m.Put(k, v) })
		present[k] = true
	}
	del := func(k int) {
		do("Delete", map[string]any{"k": k}, func() { m.Delete(k) })
		delete(present, k)
	}
	anyPresent := func() int {
		if len(present) == 0 {
			return 1 + rng.Intn(U)
		}
		ks := make([]int, 0, len(present))
		for k := range present {
			ks = append(ks, k)
		}
		sort.Ints(ks)
		return ks[rng.Intn(len(ks))]
	}
	// a key close to where some iterator is parked (the interesting mutations hit the cursor's node)
	nearIter := func() int {
		ids := []int{}
		for id := 1; id <= 4; id++ {
			if its[id] != nil && its[id].last != 0 {
				ids = append(ids, id)
			}
		}
		if len(ids) == 0 {
			return anyPresent()
		}
		k := its[ids[rng.Intn(len(ids))]].last + rng.Intn(9) - 4
		if k < 1 {
			k = 1
		}
		if k > U {
			k = U
		}
		return k
	}
	// fill: monotone / saw-tooth / random up to a random size (two and three levels)
	target := []int{0, 5, 16, 40, 130, 250}[rng.Intn(6)]
	if target > U-4 {
		target = U - 4
	}
	for i := 0; i < target && !dead; i++ {
		switch run % 3 {
		case 0:
			put(1 + i)
		case 1:
			put(U - i)
		default:
			put(1 + rng.Intn(U))
		}
	}
	for n := 0; n < ops && !dead; n++ {
		c := rng.Intn(100)
		switch {
		case c < 10:
			id := 1 + rng.Intn(4)
			dir := []string{"fwd", "rev"}[rng.Intn(2)]
			bt := []string{"unb", "inc", "exc"}[rng.Intn(3)]
			bk := nearIter()
			if rng.Intn(2) == 0 {
				bk = 1 + rng.Intn(U)
			}
			if bt == "unb" {
				bk = 0
			}
			do("Open", map[string]any{"it": id, "dir": dir, "bt": bt, "bk": bk}, func() {
				var near tree.Bound[int]
				switch bt {
				case "unb":
					near = tree.Unbounded[int]()
				case "inc":
					near = tree.Included(bk)
				default:
					near = tree.Excluded(bk)
				}
				st := &itState{}
				if dir == "fwd" {
					st.it = m.Range(near, tree.Unbounded[int]())
				} else {
					st.it = m.RangeReverse(tree.Unbounded[int](), near)
				}
				its[id] = st
			})
		case c < 40:
			ids := []int{}
			for id := 1; id <= 4; id++ {
				if its[id] != nil {
					ids = append(ids, id)
				}
			}
			if len(ids) == 0 {
				continue
			}
			id := ids[rng.Intn(len(ids))]
			ev := map[string]any{"it": id, "rk": 0, "rv": 0, "end": false}
			do("Next", ev, func() {
				kv, ok := its[id].it.Next()
				if !ok {
					ev["end"] = true
					return
				}
				ev["rk"], ev["rv"] = kv.Key, kv.Value
				its[id].last = kv.Key
			})
		case c < 72:
			k := nearIter()
			if rng.Intn(3) == 0 {
				k = anyPresent()
			}
			if !present[k] {
				k = anyPresent()
			}
			del(k)
		default:
			k := nearIter()
			if rng.Intn(3) == 0 {
				k = 1 + rng.Intn(U)
			}
			put(k)
		}
	}
}
