package subj

import (
	"math/rand"

	"github.com/bradenaw/juniper/container/xlist"

	"verifharness/rec"
)

// DriveXList performs random calls on a real list and records each with a full observation.
// Ids follow the convention of XList.tla: a new node takes the smallest id not in the list.
func DriveXList(r *rec.Rec, rng *rand.Rand, run, ops int, variant string) {
	const nIds = 10
	var l xlist.List[int]
	h := map[int]*xlist.Node[int]{}
	removed := map[int]*xlist.Node[int]{}
	var in []int // ids currently in the list according to the forward walk
	refresh := func() XListObs {
		o := ObserveXList(&l, h, removed, nIds+2)
		in = in[:0]
		for _, x := range o.Fwd {
			if x > 0 {
				in = append(in, x)
			}
		}
		return o
	}
	fresh := func() int {
		for i := 1; i <= nIds; i++ {
			found := false
			for _, x := range in {
				if x == i {
					found = true
				}
			}
			if !found {
				return i
			}
		}
		return 0
	}
	pick := func() int { return in[rng.Intn(len(in))] }
	// neighbour-biased choice of a mark for node n: adjacent, same, ends, random
	mark := func(n int) int {
		pos := 0
		for i, x := range in {
			if x == n {
				pos = i
			}
		}
		switch rng.Intn(6) {
		case 0:
			return n
		case 1:
			if pos > 0 {
				return in[pos-1]
			}
		case 2:
			if pos+1 < len(in) {
				return in[pos+1]
			}
		case 3:
			return in[0]
		case 4:
			return in[len(in)-1]
		}
		return pick()
	}
	refresh()
	// a panic inside the library is recorded as an event no specification action matches
	dead := false
	guard := func(name string, args []int, f func()) {
		if msg := rec.Try(f); msg != "" {
			r.Emit(map[string]any{"op": "PANIC in " + name, "args": args, "panic": msg})
			dead = true
			return
		}
		var o XListObs
		if msg := rec.Try(func() { o = refresh() }); msg != "" {
			r.Emit(map[string]any{"op": "PANIC observing after " + name, "args": args, "panic": msg})
			dead = true
			return
		}
		r.Emit(map[string]any{"op": name, "args": args, "obs": o})
	}
	for i := 0; i < ops && !dead; i++ {
		var name string
		var args []int
		var f func()
		full := len(in) >= nIds-1
		empty := len(in) == 0
		c := rng.Intn(100)
		switch {
		case empty || (!full && c < 30):
			id := fresh()
			delete(removed, id)
			switch k := rng.Intn(4); {
			case k == 0 || empty && k >= 2:
				name, args = "PushFront", []int{id}
				f = func() { h[id] = l.PushFront(id) }
			case k == 1:
				name, args = "PushBack", []int{id}
				f = func() { h[id] = l.PushBack(id) }
			case k == 2:
				m := pick()
				name, args = "InsertBefore", []int{id, m}
				f = func() { h[id] = l.InsertBefore(id, h[m]) }
			default:
				m := pick()
				name, args = "InsertAfter", []int{id, m}
				f = func() { h[id] = l.InsertAfter(id, h[m]) }
			}
		case c < 50:
			n := pick()
			name, args = "Remove", []int{n}
			f = func() { l.Remove(h[n]); removed[n] = h[n] }
		case c < 62:
			n := pick()
			m := mark(n)
			name, args = "MoveBefore", []int{n, m}
			f = func() { l.MoveBefore(h[n], h[m]) }
		case c < 74:
			n := pick()
			m := mark(n)
			name, args = "MoveAfter", []int{n, m}
			f = func() { l.MoveAfter(h[n], h[m]) }
		case c < 84:
			n := pick()
			name, args = "MoveToFront", []int{n}
			f = func() { l.MoveToFront(h[n]) }
		case c < 94:
			n := pick()
			name, args = "MoveToBack", []int{n}
			f = func() { l.MoveToBack(h[n]) }
		case c < 97:
			name, args = "Clear", []int{}
			f = func() { l.Clear() }
		default:
			// drain: remove everything one by one from a random end
			for tries := 0; len(in) > 0 && !dead && tries < 64; tries++ { // bounded: a Remove that removes nothing must not spin
				n := in[0]
				if rng.Intn(2) == 0 {
					n = in[len(in)-1]
				}
				guard("Remove", []int{n}, func() { l.Remove(h[n]); removed[n] = h[n] })
			}
			continue
		}
		guard(name, args, f)
	}
}
