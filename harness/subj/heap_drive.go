package subj

import (
	"math/rand"
	"strings"

	"github.com/bradenaw/juniper/container/xheap"
	"github.com/bradenaw/juniper/iterator"

	"verifharness/rec"
)

func nextOf(it iterator.Iterator[int]) func() int {
	return func() int {
		v, ok := it.Next()
		if !ok {
			return resEnd
		}
		return v
	}
}

// iterStep performs Iterate or IterNext on slot k of its; a panicking iterator is dropped.
func iterStep(its map[int]iterator.Iterator[int], k int, fresh bool, mk func() iterator.Iterator[int],
	emit func(name string, args any, it int, f func() int) int) {
	if _, ok := its[k]; !ok || fresh {
		emit("Iterate", []int{}, k, func() int { its[k] = mk(); return resOK })
		return
	}
	if emit("IterNext", []int{}, k, nextOf(its[k])) == resPanic {
		delete(its, k)
	}
}

// DriveHeap: random Push/Pop/Peek/Len/Grow/Shrink (many ties), heaps built from initial slices,
// variant "iter": up to three live iterators interleaved with the mutations.
func DriveHeap(r *rec.Rec, rng *rand.Rand, run, ops int, variant string) {
	cmp := run%2 == 1
	item := func() int { return 10*(1+rng.Intn(5)) + 1 + rng.Intn(3) }
	var h xheap.Heap[int]
	its := map[int]iterator.Iterator[int]{}
	emit := func(name string, args any, it int, f func() int) int {
		res := catch(f)
		ev := map[string]any{"op": name, "args": args, "res": res}
		if it > 0 {
			ev["it"] = it
		}
		var o HeapObs
		if msg := rec.Try(func() { o = ObserveHeap(h) }); msg != "" {
			ev["op"], ev["panic"] = "PANIC observing after "+name, msg
		} else {
			ev["obs"] = o
		}
		r.Emit(ev)
		return res
	}
	n0 := rng.Intn(12)
	if run%4 == 0 {
		n0 = 0
	}
	init := make([]int, n0)
	for i := range init {
		init[i] = item()
	}
	emit("New", []any{append([]int{}, init...)}, 0, func() int { h = newHeap(cmp, init); return resOK })
	grow := []int{40, 50, 60}[run%3]
	for i := 0; i < ops; i++ {
		c := rng.Intn(100)
		if variant == "iter" && c < 35 {
			iterStep(its, 1+rng.Intn(3), rng.Intn(7) == 0, h.Iterate, emit)
			continue
		}
		c = rng.Intn(100)
		switch {
		case c < 75:
			if rng.Intn(100) < grow && h.Len() < 40 {
				x := item()
				emit("Push", []int{x}, 0, func() int { h.Push(x); return resOK })
			} else {
				emit("Pop", []int{}, 0, func() int { return h.Pop() })
			}
		case c < 88:
			emit("Peek", []int{}, 0, func() int { return h.Peek() })
		case c < 92:
			emit("Len", []int{}, 0, func() int { return h.Len() })
		case c < 96:
			g := rng.Intn(20)
			emit("Grow", []int{g}, 0, func() int { h.Grow(g); return resOK })
		case c < 98:
			s := rng.Intn(4)
			emit("Shrink", []int{s}, 0, func() int { h.Shrink(s); return resOK })
		default:
			for tries := 0; h.Len() > 0 && tries < 4096; tries++ { // drain: must come out in non-decreasing priority order
				emit("Pop", []int{}, 0, func() int { return h.Pop() })
			}
		}
	}
}

// DrivePQ: random Update (new key / lower / higher / equal priority) / Remove / Pop / Peek /
// Contains / Priority on 12 keys and 6 priorities, queues built from initial lists with duplicate
// keys; variant "iter": up to three live iterators interleaved with the mutations.
func DrivePQ(r *rec.Rec, rng *rand.Rand, run, ops int, variant string) {
	K, P := 12, 6
	big := strings.HasPrefix(variant, "big") // larger heaps (7-24 keys, 9 priorities), removals of inner keys followed by pops
	if big {
		K, P = 24, 9
	}
	div := 1
	if strings.HasSuffix(variant, "coarse") { // priorities compared as p/3: different values that tie
		div, P = 3, 9
	}
	cmp := run%2 == 1
	var q shiftPQ
	its := map[int]iterator.Iterator[int]{}
	emit := func(name string, args any, it int, f func() int) int {
		res := catch(f)
		ev := map[string]any{"op": name, "args": args, "res": res}
		if it > 0 {
			ev["it"] = it
		}
		var o PQObs
		if msg := rec.Try(func() { o = ObservePQ(q, K) }); msg != "" {
			ev["op"], ev["panic"] = "PANIC observing after "+name, msg
		} else {
			ev["obs"] = o
		}
		r.Emit(ev)
		return res
	}
	n0 := rng.Intn(16)
	if run%4 == 0 {
		n0 = 0
	}
	var init []xheap.KP[int, int]
	initArg := [][]int{}
	for i := 0; i < n0; i++ {
		kp := xheap.KP[int, int]{K: 1 + rng.Intn(K), P: 1 + rng.Intn(P)}
		init = append(init, kp)
		initArg = append(initArg, []int{kp.K, kp.P})
	}
	emit("New", []any{initArg}, 0, func() int { q = newPQ(cmp, div, init); return resOK })
	for i := 0; i < ops; i++ {
		c := rng.Intn(100)
		if variant == "iter" && c < 35 {
			iterStep(its, 1+rng.Intn(3), rng.Intn(7) == 0, q.Iterate, emit)
			continue
		}
		c = rng.Intn(100)
		k := 1 + rng.Intn(K)
		if big {
			// keep the queue between 7 and K keys; after a Remove or Update pop a few times so that a
			// misplaced element surfaces at the root
			switch {
			case q.Len() < 8 || c < 45:
				p := 1 + rng.Intn(P)
				emit("Update", []int{k, p}, 0, func() int { q.Update(k, p); return resOK })
			case c < 75:
				// mostly a present key (an inner heap slot), sometimes an absent one
				if rng.Intn(5) > 0 {
					for try := 0; try < 30 && !q.Contains(k); try++ {
						k = 1 + rng.Intn(K)
					}
				}
				emit("Remove", []int{k}, 0, func() int { q.Remove(k); return resOK })
				for j := rng.Intn(5); j > 0; j-- {
					emit("Pop", []int{}, 0, func() int { return q.Pop() })
				}
			case c < 90:
				emit("Pop", []int{}, 0, func() int { return q.Pop() })
			default:
				emit("Peek", []int{}, 0, func() int { return q.Peek() })
			}
			continue
		}
		switch {
		case c < 40:
			p := 1 + rng.Intn(P)
			emit("Update", []int{k, p}, 0, func() int { q.Update(k, p); return resOK })
		case c < 52:
			emit("Remove", []int{k}, 0, func() int { q.Remove(k); return resOK })
		case c < 66:
			emit("Pop", []int{}, 0, func() int { return q.Pop() })
		case c < 76:
			emit("Peek", []int{}, 0, func() int { return q.Peek() })
		case c < 84:
			emit("Contains", []int{k}, 0, func() int {
				if q.Contains(k) {
					return 1
				}
				return 0
			})
		case c < 92:
			emit("Priority", []int{k}, 0, func() int { return q.Priority(k) })
		case c < 95:
			emit("Len", []int{}, 0, func() int { return q.Len() })
		case c < 97:
			g := rng.Intn(20)
			emit("Grow", []int{g}, 0, func() int { q.Grow(g); return resOK })
		default:
			for tries := 0; q.Len() > 0 && tries < 4096; tries++ {
				emit("Pop", []int{}, 0, func() int { return q.Pop() })
			}
		}
	}
}
