package subj

import "verifharness/lts"

// LTSSubjects lists the adapters that can replay a TLC transition system.
func LTSSubjects(variant string) map[string]lts.Subject {
	return map[string]lts.Subject{
		"xlist": XList{},
		"deque": Deque{},
		"heap":  Heap{Cmp: variant == "cmp"},
		"pq3":   PQ{Cmp: variant == "cmp", K: 3},
		"pq4":   PQ{Cmp: variant == "cmp", K: 4},
		"pq5":   PQ{Cmp: variant == "cmp", K: 5},
		"tree4": Tree{Variant: variant, N: 4},
		"typedmap": TypedMap{Variant: variant},
	}
}
