package subj

import (
	"strings"

	"verifharness/lts"
)

// LTSSubjects lists the adapters that can replay a TLC transition system.
func LTSSubjects(variant string) map[string]lts.Subject {
	div := 1
	if strings.Contains(variant, "coarse") { // variants "coarse", "cmpcoarse": priorities compared as p/2
		div = 2
	}
	return map[string]lts.Subject{
		"xlist":    XList{},
		"deque":    Deque{},
		"heap":     Heap{Cmp: variant == "cmp"},
		"pq3":      PQ{Cmp: strings.HasPrefix(variant, "cmp"), K: 3, Div: div},
		"pq4":      PQ{Cmp: strings.HasPrefix(variant, "cmp"), K: 4, Div: div},
		"pq5":      PQ{Cmp: strings.HasPrefix(variant, "cmp"), K: 5, Div: div},
		"tree4":    Tree{Variant: variant, N: 4},
		"typedmap": TypedMap{Variant: variant},
	}
}
