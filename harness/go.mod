module verifharness

go 1.26.8

require (
	github.com/bradenaw/juniper v0.0.0
	golang.org/x/exp v0.0.0-20231006140011-7918f672742d
	golang.org/x/sync v0.0.0-20210220032951-036812b2e83c
)

replace github.com/bradenaw/juniper => /repo
