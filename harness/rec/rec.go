// Package rec records one ndjson event per API call for trace validation by TLC.
package rec

import (
	"bufio"
	"encoding/json"
	"os"
	"sync"
)

type Rec struct {
	mu  sync.Mutex
	f   *os.File
	w   *bufio.Writer
	N   int
	run int
	seq int
}

func New(path string) (*Rec, error) {
	f, err := os.Create(path)
	if err != nil {
		return nil, err
	}
	return &Rec{f: f, w: bufio.NewWriterSize(f, 1<<20)}, nil
}

// Reset starts a new run: the trace spec re-initialises its state at this record.
func (r *Rec) Reset(run int) {
	r.mu.Lock()
	defer r.mu.Unlock()
	r.run = run
	r.seq = 0
	r.write(map[string]any{"op": "Reset", "run": run})
}

// Emit writes one event. The map must contain "op"; run and seq are added.
func (r *Rec) Emit(ev map[string]any) {
	r.mu.Lock()
	defer r.mu.Unlock()
	r.seq++
	ev["run"] = r.run
	ev["seq"] = r.seq
	r.write(ev)
}

func (r *Rec) write(ev map[string]any) {
	b, err := json.Marshal(ev)
	if err != nil {
		panic(err)
	}
	r.w.Write(b)
	r.w.WriteByte('\n')
	r.N++
}

func (r *Rec) Close() error {
	if err := r.w.Flush(); err != nil {
		return err
	}
	return r.f.Close()
}

// Try runs f and returns the panic message if it panicked ("" otherwise).
func Try(f func()) (msg string) {
	defer func() {
		if p := recover(); p != nil {
			msg = "panic: " + Sprint(p)
		}
	}()
	f()
	return ""
}

func Sprint(p any) string {
	switch x := p.(type) {
	case error:
		return x.Error()
	case string:
		return x
	}
	b, _ := json.Marshal(p)
	return string(b)
}
