//go:build verifsched

package bubble

import "github.com/bradenaw/juniper/verifsched"

// built against the copy instrumented by cmd/vinstr: every statement of the concurrent packages is a yield point
func schedEnable(seed uint64) {
	verifsched.Enable(seed, envInt("VH_YIELD_ONEIN", 6), envInt("VH_YIELD_MAXK", 6))
}
func schedDisable()             { verifsched.Disable() }
func schedStats() (p, y uint64) { return verifsched.Points.Load(), verifsched.Yields.Load() }
