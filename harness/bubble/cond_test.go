package bubble

import (
	"encoding/json"
	"math/rand"
	"os"
	"runtime"
	"sync"
	"testing"

	"github.com/bradenaw/juniper/xsync"
)

// gateLocker is the sync.Locker handed to NewContextCond. Unlock called by a waiter from inside
// Wait releases the real mutex and then holds the goroutine at a gate: exactly "between the
// release and parking". Releasing the gate lets the waiter go on to its select.
type gateLocker struct {
	mu     sync.Mutex
	holder int          // waiter currently holding mu (0 = harness)
	inWait map[int]bool // waiter is inside Wait
	gates  map[int]chan struct{}
	r      *Run
	meta   sync.Mutex
	shared bool
	byGo   map[uint64]int
}

func goid() uint64 {
	var buf [64]byte
	n := runtime.Stack(buf[:], false)
	var id uint64
	for _, c := range buf[len("goroutine "):n] {
		if c < '0' || c > '9' {
			break
		}
		id = id*10 + uint64(c-'0')
	}
	return id
}

// shared = true: the Locker does not exclude anybody (like the read side of a sync.RWMutex): several goroutines can be
// inside Wait's prologue at the same time. The waiter that unlocks is then identified by its goroutine.
func (g *gateLocker) Lock() {
	if g.shared {
		return
	}
	g.mu.Lock()
}
func (g *gateLocker) Unlock() {
	if g.shared {
		g.meta.Lock()
		w := g.byGo[goid()]
		in := g.inWait[w]
		gate := g.gates[w]
		g.meta.Unlock()
		if w != 0 && in {
			g.r.emit(Ev{"ev": "unlocked", "w": w})
			<-gate
		}
		return
	}
	w := g.holder
	g.meta.Lock()
	in := g.inWait[w]
	gate := g.gates[w]
	g.meta.Unlock()
	g.holder = 0
	g.mu.Unlock()
	if w != 0 && in {
		g.r.emit(Ev{"ev": "unlocked", "w": w})
		<-gate
	}
}

var sigbcN int

type condStep struct {
	A   string `json:"a"` // enter release signal broadcast cancel sigbc
	W   int    `json:"w"`
	NoQ bool   `json:"noq"` // no quiescence point after this step: the next step races with it
}

func runCond(t *testing.T, steps []condStep) ([]Ev, bool, string) {
	return bubble(t, func(r *Run) {
		g := &gateLocker{inWait: map[int]bool{}, gates: map[int]chan struct{}{}, r: r, byGo: map[uint64]int{}, shared: envInt("VH_SHARED", 0) == 1}
		c := xsync.NewContextCond(g)
		released := map[int]bool{}
		entered := map[int]bool{}
		gated := func() []int {
			out := []int{}
			for w := range entered {
				if !released[w] {
					out = append(out, w)
				}
			}
			sortInts(out)
			return out
		}
		quiesce := func() {
			r.Quiesce()
			// replace the generic record by one that lists the waiters still held at the gate
			r.mu.Lock()
			r.evs[len(r.evs)-1] = Ev{"ev": "q", "gated": gated(), "t": r.now()}
			r.mu.Unlock()
		}
		release := func(w int) {
			if entered[w] && !released[w] {
				released[w] = true
				r.emit(Ev{"ev": "release", "w": w})
				close(g.gates[w])
			}
		}
		for _, st := range steps {
			switch st.A {
			case "enter":
				if entered[st.W] {
					continue
				}
				entered[st.W] = true
				w := st.W
				g.meta.Lock()
				g.gates[w] = make(chan struct{})
				g.meta.Unlock()
				ctx := r.Ctx(w)
				r.emit(Ev{"ev": "enter", "w": w})
				go func() {
					g.Lock()
					if !g.shared {
						g.holder = w
					}
					g.meta.Lock()
					g.inWait[w] = true
					g.byGo[goid()] = w
					g.meta.Unlock()
					err := c.Wait(ctx)
					g.meta.Lock()
					g.inWait[w] = false
					g.meta.Unlock()
					res, held := "nil", 0
					if g.shared { // nobody is excluded: "holds the lock again" cannot be observed, the expected value is recorded
						if err != nil {
							res = "ctx"
						} else {
							held = 1
						}
						r.emit(Ev{"ev": "ret", "w": w, "res": res, "held": held})
						return
					}
					if err != nil {
						res = "ctx"
						// the lock must not be held: TryLock succeeds only if nobody (in particular not Wait) holds it
						if g.mu.TryLock() {
							g.mu.Unlock()
						} else {
							held = 1
							g.mu.Unlock() // recorded as a violation; released so that the run can go on
						}
					} else {
						// Wait re-locked for us: the mutex must be locked now
						if g.mu.TryLock() {
							g.mu.Unlock() // it was not held
						} else {
							held = 1
							g.holder = 0
							g.mu.Unlock()
						}
					}
					r.emit(Ev{"ev": "ret", "w": w, "res": res, "held": held})
				}()
			case "release":
				release(st.W)
			case "signal":
				r.emit(Ev{"ev": "signal"})
				c.Signal()
			case "broadcast":
				r.emit(Ev{"ev": "broadcast"})
				c.Broadcast()
			case "sigbc": // a Signal and a Broadcast from two goroutines at the same moment
				r.emit(Ev{"ev": "signal"})
				r.emit(Ev{"ev": "broadcast"})
				sigbcN++
				if sigbcN%2 == 0 { // the goroutine created last runs first: both orders
					go c.Signal()
					go c.Broadcast()
				} else {
					go c.Broadcast()
					go c.Signal()
				}
			case "cancel": // also before the waiter has entered: Wait is then called with a context that has already ended
				if st.W > 0 {
					r.Ctx(st.W)
					r.mu.Lock()
					r.evs = append(r.evs, Ev{"ev": "cancel", "w": st.W, "t": r.now()})
					cancel := r.ctxs[st.W]
					r.mu.Unlock()
					cancel()
				}
			}
			if !st.NoQ {
				quiesce()
			}
		}
		// final judgement point with every gate open, then the epilogue (not judged): cancel everybody
		for w := range entered {
			release(w)
		}
		quiesce()
		r.emit(Ev{"ev": "epilogue"})
		for w := range entered {
			r.mu.Lock()
			cancel := r.ctxs[w]
			r.mu.Unlock()
			cancel()
		}
		synctest_wait()
	})
}

// genCond: random schedule; safe = at most one waiter is held at the gate while signals are sent
// (the situation in which the capacity-1 channel of the current design cannot drop a token).
func genCond(rng *rand.Rand, safe bool) []condStep {
	out := []condStep{}
	nw := 1 + rng.Intn(3)
	entered, released := map[int]bool{}, map[int]bool{}
	ngated := func() int {
		n := 0
		for w := range entered {
			if !released[w] {
				n++
			}
		}
		return n
	}
	for i := 0; i < 4+rng.Intn(8); i++ {
		c := rng.Intn(100)
		w := 1 + rng.Intn(nw)
		switch {
		case c < 30:
			if !entered[w] && !(safe && ngated() >= 1) {
				entered[w] = true
				out = append(out, condStep{A: "enter", W: w})
			}
		case c < 55:
			if entered[w] && !released[w] {
				released[w] = true
				out = append(out, condStep{A: "release", W: w})
			}
		case c < 80:
			out = append(out, condStep{A: "signal", W: 0})
		case c < 88:
			out = append(out, condStep{A: "broadcast", W: 0})
		default:
			if entered[w] {
				out = append(out, condStep{A: "cancel", W: w})
			}
		}
	}
	return out
}

func writeRuns(w *traceWriter, runs *int, evs []Ev, leak bool, msg string, hdr Ev) {
	h := Ev{"ev": "reset", "run": *runs}
	for k, v := range hdr {
		h[k] = v
	}
	w.put(h)
	for _, e := range evs {
		w.put(e)
	}
	if leak {
		w.put(Ev{"ev": "leak", "msg": msg})
	}
	*runs++
}

// TestCond: VH_SCHED (a JSON file with a list of schedules, e.g. TLC counterexamples) is replayed
// literally; otherwise VH_N random schedules of the class VH_CLASS (safe | any).
func TestCond(t *testing.T) {
	w := newTraceWriter(envStr("VH_OUT", "/tmp/cond.ndjson"))
	runs, leaks := 0, 0
	var scheds [][]condStep
	if f := os.Getenv("VH_SCHED"); f != "" {
		b, err := os.ReadFile(f)
		if err != nil {
			t.Fatal(err)
		}
		if err := json.Unmarshal(b, &scheds); err != nil {
			t.Fatal(err)
		}
	} else {
		rng := seededRand()
		for i := 0; i < envInt("VH_N", 100); i++ {
			scheds = append(scheds, genCond(rng, envStr("VH_CLASS", "safe") == "safe"))
		}
	}
	for _, s := range scheds {
		for rep := 0; rep < envInt("VH_REPS", 2); rep++ {
			evs, leak, msg := runCond(t, s)
			if leak {
				leaks++
			}
			writeRuns(w, &runs, evs, leak, msg, Ev{"sched": s})
		}
	}
	w.close()
	report(Ev{"engine": "bubble", "subject": "cond", "runs": runs, "events": w.n, "leaks": leaks})
}
