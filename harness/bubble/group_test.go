package bubble

import (
	"context"
	"math/rand"
	"os"
	"runtime"
	"sync"
	"sync/atomic"
	"testing"
	"time"

	"github.com/bradenaw/juniper/xsync"
)

type grpStep struct {
	A     string // reg fire adv rel stop stopwait cancelparent
	K     int
	Kind  string
	Iv    int
	Jit   int
	D     int
	Hold  bool // the function holds (waits for a release token) and ignores its context
	NoQ   bool // no quiescence point after this step: the next step races with it
	Async bool // the registration is made from its own goroutine (it can be overtaken in the middle)
	Y     int  // after a step without quiescence point the driver gives up the processor this many times
}

func genGroup(rng *rand.Rand) []grpStep {
	var out []grpStep
	nk := 0
	kinds := map[int]string{}
	for i := 0; i < 5+rng.Intn(14); i++ {
		c := rng.Intn(100)
		switch {
		case c < 22 && nk < 4:
			nk++
			kind := []string{"do", "per", "trig", "ptrig"}[rng.Intn(4)]
			kinds[nk] = kind
			iv := []int{10, 50, 200}[rng.Intn(3)]
			jit := []int{0, iv / 5, iv / 2, -iv / 5}[rng.Intn(4)]
			out = append(out, grpStep{A: "reg", K: nk, Kind: kind, Iv: iv, Jit: jit, Hold: rng.Intn(2) == 0})
		case c < 45 && nk > 0:
			k := 1 + rng.Intn(nk)
			if kinds[k] == "trig" || kinds[k] == "ptrig" {
				for b := 1 + rng.Intn(3); b > 0; b-- { // bursts
					out = append(out, grpStep{A: []string{"fire", "fire", "fire", "fire3"}[rng.Intn(4)], K: k})
				}
			}
		case c < 65:
			out = append(out, grpStep{A: "adv", D: []int{1, 5, 10, 49, 50, 60, 250}[rng.Intn(7)]})
		case c < 88 && nk > 0:
			out = append(out, grpStep{A: "rel", K: 1 + rng.Intn(nk)})
		case c < 92:
			out = append(out, grpStep{A: "stop"})
		case c < 96:
			out = append(out, grpStep{A: []string{"cancelparent", "cancelparent", "expireparent"}[rng.Intn(3)]})
		default:
			// registrations racing with the stop: several in a row, then StopAndWait, no quiescence in between
			if nk < 4 && rng.Intn(3) == 0 {
				// ... made from their own goroutines, racing with the parent's cancellation and StopAndWait
				for j := 0; j < 2 && nk < 4; j++ {
					nk++
					kinds[nk] = "do"
					out = append(out, grpStep{A: "reg", K: nk, Kind: "do", Iv: 10, Hold: false, NoQ: true, Async: true, Y: rng.Intn(4)})
				}
				out = append(out, grpStep{A: []string{"cancelparent", "stop"}[rng.Intn(2)], NoQ: true}, grpStep{A: "stopwait"})
			} else if nk < 4 && rng.Intn(3) > 0 {
				for j := 0; j < 2 && nk < 4; j++ {
					nk++
					kinds[nk] = "do"
					out = append(out, grpStep{A: "reg", K: nk, Kind: "do", Iv: 10, Hold: rng.Intn(2) == 0, NoQ: true})
				}
				out = append(out, grpStep{A: "stopwait"})
			} else {
				out = append(out, grpStep{A: "stopwait", NoQ: true})
				if nk < 4 {
					nk++
					kinds[nk] = "do"
					out = append(out, grpStep{A: "reg", K: nk, Kind: "do", Iv: 10, Hold: false})
				}
			}
		}
	}
	return out
}

func runGroup(t *testing.T, steps []grpStep) ([]Ev, bool, string) {
	return bubble(t, func(r *Run) {
		parent, cancelParent := context.WithCancel(context.Background())
		// the parent may also end by its deadline ("expireparent"): its error is then DeadlineExceeded, not Canceled
		// (the deadline lies just behind the fake time at which the schedule reaches that step; far away if it has none)
		until := 1000 * time.Hour
		acc := time.Duration(0)
		for _, st := range steps {
			if st.A == "adv" {
				acc += time.Duration(st.D) * time.Millisecond
			}
			if st.A == "expireparent" {
				until = acc + time.Millisecond
				break
			}
		}
		parent, cancelDeadline := context.WithDeadline(parent, time.Now().Add(until))
		defer cancelDeadline()
		g := xsync.NewGroup(parent)
		var mu sync.Mutex
		tokens := map[int]chan struct{}{}
		fires := map[int]func(){}
		tok := func(k int) chan struct{} {
			mu.Lock()
			defer mu.Unlock()
			if tokens[k] == nil {
				tokens[k] = make(chan struct{}, 64)
			}
			return tokens[k]
		}
		mk := func(k int, hold bool, once bool) func(ctx context.Context) {
			return func(ctx context.Context) {
				r.emit(Ev{"ev": "fbegin", "k": k})
				if hold {
					<-tok(k) // ignores its context: StopAndWait has to wait for it
				} else if once {
					<-ctx.Done() // a Do function that runs until the group stops
				}
				r.emit(Ev{"ev": "fend", "k": k})
			}
		}
		swStarted := false
		swCalls := 0
		for _, st := range steps {
			switch st.A {
			case "reg":
				r.emit(Ev{"ev": "reg", "k": st.K, "kind": st.Kind, "iv": st.Iv, "jit": st.Jit})
				iv, jit := time.Duration(st.Iv)*time.Millisecond, time.Duration(st.Jit)*time.Millisecond
				if st.Async {
					f := mk(st.K, st.Hold, true)
					go g.Do(f)
					break
				}
				switch st.Kind {
				case "do":
					g.Do(mk(st.K, st.Hold, true))
				case "per":
					g.Periodic(iv, jit, mk(st.K, st.Hold, false))
				case "trig":
					fires[st.K] = g.Trigger(mk(st.K, st.Hold, false))
				case "ptrig":
					fires[st.K] = g.PeriodicOrTrigger(iv, jit, mk(st.K, st.Hold, false))
				}
			case "fire":
				if f := fires[st.K]; f != nil {
					r.emit(Ev{"ev": "fire", "k": st.K})
					f()
				}
			case "fire3": // the trigger function is called from three goroutines at the same moment
				if f := fires[st.K]; f != nil {
					r.emit(Ev{"ev": "fire", "k": st.K})
					for j := 0; j < 3; j++ {
						go f()
					}
				}
			case "expireparent":
				r.emit(Ev{"ev": "stop"})
				time.Sleep(2 * time.Millisecond)
			case "adv":
				r.emit(Ev{"ev": "adv", "d": st.D})
				time.Sleep(time.Duration(st.D) * time.Millisecond)
			case "rel":
				r.emit(Ev{"ev": "rel", "k": st.K})
				select {
				case tok(st.K) <- struct{}{}:
				default:
				}
			case "stop":
				r.emit(Ev{"ev": "stop"})
				g.Stop()
			case "cancelparent":
				r.emit(Ev{"ev": "stop"})
				cancelParent()
			case "stopwait": // at most two calls; the second one may run while the first is still waiting
				if swCalls < 2 {
					swCalls++
					swStarted = true
					r.Go("StopAndWait", Ev{}, func() Ev { g.StopAndWait(); return Ev{"k": "nil"} })
				}
			}
			if !st.NoQ {
				r.Quiesce()
			}
			for y := 0; y < st.Y; y++ {
				runtime.Gosched()
			}
		}
		// epilogue: stop, release everything that holds
		if !swStarted {
			r.Go("StopAndWait", Ev{}, func() Ev { g.StopAndWait(); return Ev{"k": "nil"} })
		}
		synctest_wait()
		for round := 0; round < 6; round++ {
			for k := 1; k <= 4; k++ {
				for j := 0; j < 8; j++ {
					select {
					case tok(k) <- struct{}{}:
					default:
					}
				}
			}
			synctest_wait()
		}
		cancelParent()
		r.Quiesce()
	})
}

// groupStopRace: outside a bubble (true parallelism): goroutines keep registering Do functions while
// StopAndWait runs; a function that begins after StopAndWait returned is written out as a trace in
// the vocabulary of Trace_Group (plus a sample of the good trials).
func groupStopRace(w *traceWriter, runs *int, trials int) {
	for i := 0; i < trials; i++ {
		g := xsync.NewGroup(context.Background())
		var returned, late, stop atomic.Bool
		var started atomic.Int32
		var wg sync.WaitGroup
		for j := 0; j < 8; j++ {
			wg.Add(1)
			go func() {
				defer wg.Done()
				first := true
				for !stop.Load() {
					g.Do(func(ctx context.Context) {
						if returned.Load() {
							late.Store(true)
						}
					})
					if first {
						first = false
						started.Add(1)
					}
				}
			}()
		}
		for started.Load() < 8 { // every hammer is registering functions by now
			runtime.Gosched()
		}
		for k := 0; k < i%40; k++ { // vary the moment of the stop
			runtime.Gosched()
		}
		g.StopAndWait()
		returned.Store(true)
		for k := 0; k < 30 && !late.Load(); k++ { // a function started behind the barrier gets time to run
			runtime.Gosched()
		}
		stop.Store(true)
		wg.Wait()
		if !late.Load() && i%100 != 0 {
			continue
		}
		w.put(Ev{"ev": "reset", "run": *runs})
		w.put(Ev{"ev": "reg", "k": 1, "kind": "do", "iv": 0, "jit": 0, "t": 0})
		w.put(Ev{"ev": "call", "id": 1, "op": "StopAndWait", "t": 0})
		w.put(Ev{"ev": "ret", "id": 1, "op": "StopAndWait", "t": 0})
		if late.Load() {
			w.put(Ev{"ev": "fbegin", "k": 1, "t": 0})
		}
		*runs++
	}
}

// directedGroup: a run of f that outlasts the interval while a trigger arrives: afterwards the tick and the trigger are
// both pending (which one the select takes is the runtime's choice); the function must keep being invoked periodically
func directedGroup() [][]grpStep {
	var out [][]grpStep
	for _, iv := range []int{10, 50} {
		s := []grpStep{{A: "reg", K: 1, Kind: "ptrig", Iv: iv, Jit: 0, Hold: true}, {A: "adv", D: iv}, {A: "fire", K: 1}, {A: "adv", D: iv + iv/2},
			{A: "rel", K: 1}, {A: "rel", K: 1}, {A: "adv", D: 2*iv + 1}, {A: "rel", K: 1}, {A: "adv", D: 2*iv + 1}, {A: "rel", K: 1}, {A: "adv", D: iv}}
		for rep := 0; rep < 6; rep++ {
			out = append(out, s)
		}
	}
	// registrations from their own goroutines racing with the parent's cancellation and StopAndWait: the driver gives up the
	// processor 0-3 times in between, so that (under schedule perturbation) a registration is caught in its middle
	for y := 0; y <= 3; y++ {
		for rep := 0; rep < envInt("VH_RACE_REPS", 60); rep++ {
			out = append(out, []grpStep{{A: "reg", K: 1, Kind: "do", Iv: 10, NoQ: true, Async: true, Y: y}, {A: "reg", K: 2, Kind: "do", Iv: 10, NoQ: true, Async: true, Y: y},
				{A: "cancelparent", NoQ: true, Y: y % 2}, {A: "stopwait"}, {A: "adv", D: 5}})
		}
	}
	return out
}

func TestGroup(t *testing.T) {
	rng := seededRand()
	w := newTraceWriter(envStr("VH_OUT", "/tmp/group.ndjson"))
	n := envInt("VH_N", 100)
	runs, leaks := 0, 0
	if f := os.Getenv("VH_SCHED"); f != "" { // schedules generated by TLC from GroupEnv.tla: replayed literally
		var scheds []struct{ Steps []grpStep }
		readJSON(t, f, &scheds)
		for _, s := range scheds {
			evs, leak, msg := runGroup(t, s.Steps)
			if leak {
				leaks++
			}
			writeRuns(w, &runs, evs, leak, msg, Ev{})
		}
		w.close()
		report(Ev{"engine": "bubble", "subject": "group", "runs": runs, "events": w.n, "leaks": leaks, "source": "tlc-schedules"})
		return
	}
	for _, s := range directedGroup() {
		evs, leak, msg := runGroup(t, s)
		if leak {
			leaks++
		}
		writeRuns(w, &runs, evs, leak, msg, Ev{})
	}
	for i := 0; i < n; i++ {
		evs, leak, msg := runGroup(t, genGroup(rng))
		if leak {
			leaks++
		}
		writeRuns(w, &runs, evs, leak, msg, Ev{})
	}
	groupStopRace(w, &runs, envInt("VH_RACE_N", 1500))
	w.close()
	report(Ev{"engine": "bubble", "subject": "group", "runs": runs, "events": w.n, "leaks": leaks})
}
