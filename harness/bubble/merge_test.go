package bubble

import (
	"context"
	"math/rand"
	"os"
	"strings"
	"sync/atomic"
	"testing"

	"github.com/bradenaw/juniper/chans"
	"github.com/bradenaw/juniper/stream"
)

// ---- chans.Merge: producers send on their inputs and close them, the consumer takes on demand.
type mergeStep struct {
	A string // send closein take
	I int
	N int
}

func genChansMerge(rng *rand.Rand, n int) []mergeStep {
	var out []mergeStep
	open := map[int]bool{}
	for i := 0; i < n; i++ {
		open[i] = true
	}
	for k := 0; k < 3+rng.Intn(10); k++ {
		c := rng.Intn(100)
		switch {
		case c < 45 && n > 0:
			i := rng.Intn(n)
			if open[i] {
				out = append(out, mergeStep{A: "send", I: i})
			}
		case c < 60 && n > 0:
			i := rng.Intn(n)
			if open[i] {
				open[i] = false
				out = append(out, mergeStep{A: "closein", I: i})
			}
		default:
			out = append(out, mergeStep{A: "take", N: 1 + rng.Intn(3)})
		}
	}
	for i := 0; i < n; i++ { // finally every input ends and the consumer drains
		if open[i] {
			out = append(out, mergeStep{A: "closein", I: i})
		}
	}
	out = append(out, mergeStep{A: "take", N: 50})
	return out
}

// runChansMerge: values are interface-typed (error) when nilVals is set, so that a nil value travels
// through the reflect path of arities >= 4 too.
func runChansMerge(t *testing.T, n int, steps []mergeStep) ([]Ev, bool, string) {
	return bubble(t, func(r *Run) {
		in := make([]chan int, n)
		ro := make([]<-chan int, n)
		cmd := make([]chan int, n) // per producer: value to send (>0) or close (-1)
		for i := range in {
			in[i] = make(chan int)
			ro[i] = in[i]
			cmd[i] = make(chan int, 64)
			i := i
			go func() {
				for v := range cmd[i] {
					if v < 0 {
						r.emit(Ev{"ev": "closein", "i": i})
						close(in[i])
						return
					}
					r.emit(Ev{"ev": "send", "i": i, "v": v})
					in[i] <- v
				}
			}()
		}
		out := make(chan int)
		go func() {
			p := 0
			func() {
				defer func() {
					if recover() != nil {
						p = 1
					}
				}()
				chans.Merge(out, ro...)
			}()
			r.emit(Ev{"ev": "mret", "panic": p})
			close(out)
		}()
		takes := make(chan int, 64)
		go func() {
			for k := range takes {
				for j := 0; j < k; j++ {
					v, ok := <-out
					if !ok {
						r.emit(Ev{"ev": "eof"})
						return
					}
					r.emit(Ev{"ev": "recv", "v": v})
				}
			}
		}()
		seq := make([]int, n)
		for _, st := range steps {
			switch st.A {
			case "send":
				seq[st.I]++
				cmd[st.I] <- 100*st.I + seq[st.I]
			case "closein":
				cmd[st.I] <- -1
			case "take":
				r.emit(Ev{"ev": "take", "n": st.N})
				takes <- st.N
			}
			synctest_wait()
			r.emit(Ev{"ev": "q"})
		}
		close(takes)
		for i := range cmd {
			close(cmd[i])
		}
	})
}

func runReplicate(t *testing.T, nd int, vals int) ([]Ev, bool, string) {
	return runReplicateBuf(t, nd, vals, 0)
}

// buf: capacity of every destination channel (0: the receivers are parked on unbuffered channels)
func runReplicateBuf(t *testing.T, nd int, vals int, buf int) ([]Ev, bool, string) {
	return bubble(t, func(r *Run) {
		src := make(chan int)
		dsts := make([]chan int, nd)
		wo := make([]chan<- int, nd)
		for j := range dsts {
			dsts[j] = make(chan int, buf)
			wo[j] = dsts[j]
			j := j
			go func() {
				for v := range dsts[j] {
					r.emit(Ev{"ev": "recvd", "j": j + 1, "v": v})
				}
			}()
		}
		go func() {
			chans.Replicate(src, wo...)
			r.emit(Ev{"ev": "mret", "panic": 0})
			for _, d := range dsts {
				close(d)
			}
		}()
		var pend atomic.Int32 // sends the source has not accepted yet
		for k := 1; k <= vals; k++ {
			r.emit(Ev{"ev": "send", "i": 0, "v": k})
			pend.Add(1)
			k := k
			go func() { src <- k; pend.Add(-1) }()
			synctest_wait()
			r.emit(Ev{"ev": "q", "pendsend": int(pend.Load())})
			if pend.Load() > 0 { // nobody reads the source any more: recorded; the value is taken back so that the run can end
				<-src
			}
		}
		r.emit(Ev{"ev": "closein", "i": 0})
		close(src)
		synctest_wait()
		r.emit(Ev{"ev": "q", "pendsend": 0})
	})
}

// ---- stream.Merge over gated inputs
type smStep struct {
	A   string // item end srcerr next cancel close
	I   int
	Ctx int
}

func genStreamMerge(rng *rand.Rand, n int) []smStep {
	var out []smStep
	fin := map[int]bool{}
	if n > 0 && rng.Intn(3) == 0 { // some inputs are empty / have items ready before Merge is even called
		for i := 0; i < n; i++ {
			switch rng.Intn(3) {
			case 0:
				fin[i] = true
				out = append(out, smStep{A: "preend", I: i})
			case 1:
				out = append(out, smStep{A: "preitem", I: i})
			}
		}
	}
	for k := 0; k < 3+rng.Intn(12); k++ {
		c := rng.Intn(100)
		i := 0
		if n > 0 {
			i = rng.Intn(n)
		}
		switch {
		case c < 35 && n > 0 && !fin[i]:
			out = append(out, smStep{A: "item", I: i})
		case c < 50 && n > 0 && !fin[i]:
			fin[i] = true
			if rng.Intn(4) == 0 {
				out = append(out, smStep{A: []string{"srcerr", "srcerr", "srccanc"}[rng.Intn(3)], I: i})
			} else {
				out = append(out, smStep{A: "end", I: i})
			}
		case c < 85:
			ctx := 0
			if rng.Intn(4) == 0 {
				ctx = 1
			}
			out = append(out, smStep{A: "next", Ctx: ctx})
		case c < 92:
			out = append(out, smStep{A: "cancel", Ctx: 1})
		default:
			if rng.Intn(2) == 0 {
				out = append(out, smStep{A: "close"})
				return out
			}
		}
	}
	switch rng.Intn(3) {
	case 0: // read to the end
		for i := 0; i < n; i++ {
			if !fin[i] {
				out = append(out, smStep{A: "end", I: i})
			}
		}
		for k := 0; k < 12; k++ {
			out = append(out, smStep{A: "next"})
		}
	case 1: // a consumer that drains and closes back to back while the inputs finish one after the other
		out = append(out, smStep{A: "drainclose"})
		for i := 0; i < n; i++ {
			if !fin[i] {
				if rng.Intn(5) == 0 {
					out = append(out, smStep{A: "srcerr", I: i})
				} else {
					out = append(out, smStep{A: "end", I: i})
				}
			}
		}
	}
	return out
}

func runStreamMerge(t *testing.T, n int, steps []smStep) ([]Ev, bool, string) {
	return runStreamMergeKids(t, n, steps, 0)
}

// errRaceSteps: a consumer waits, every reader is parked in its input's Next, then input 0 fails: the consumer must
// see that very error although the other readers wake up with the cancellation error at the same moment
// (run with kids > 0 the cancellation takes long enough for them to overtake a reader that cancels before it reports)
func errRaceSteps(n int, items int) []smStep {
	out := []smStep{}
	for k := 0; k < items; k++ {
		out = append(out, smStep{A: "item", I: (k + 1) % n}, smStep{A: "next"})
	}
	return append(out, smStep{A: "next"}, smStep{A: "srcerr", I: 0}, smStep{A: "next"}, smStep{A: "next"})
}

func runStreamMergeKids(t *testing.T, n int, steps []smStep, kids int) ([]Ev, bool, string) {
	return bubble(t, func(r *Run) {
		srcs := make([]*gateSrc, n)
		ins := make([]stream.Stream[int], n)
		for i := range srcs {
			srcs[i] = &gateSrc{q: make(chan srcMsg, 64), r: r, idx: i}
			if i > 0 {
				srcs[i].kids = kids
			}
			ins[i] = srcs[i]
		}
		seq := make([]int, n)
		// leading "pre" steps: inputs that already have items / their end waiting when Merge starts its readers
		for len(steps) > 0 && strings.HasPrefix(steps[0].A, "pre") {
			st := steps[0]
			steps = steps[1:]
			if st.A == "preend" {
				srcs[st.I].q <- srcMsg{1, 0}
			} else {
				seq[st.I]++
				srcs[st.I].q <- srcMsg{0, 100*st.I + seq[st.I]}
			}
		}
		s := stream.Merge(ins...)
		nextID, closed := 0, false
		busy := func() bool {
			r.mu.Lock()
			defer r.mu.Unlock()
			return r.pending[nextID]
		}
		quiesce := func() {
			r.Quiesce()
			b := 0
			for _, x := range srcs {
				b += int(x.busy.Load())
			}
			r.mu.Lock()
			r.evs[len(r.evs)-1]["srcbusy"] = b
			r.mu.Unlock()
		}
		nextRes := func(v int, err error) Ev {
			switch {
			case err == nil:
				return Ev{"k": "val", "v": v, "e": ""}
			case err == stream.End:
				return Ev{"k": "end", "v": 0, "e": ""}
			case err == errSrc:
				return Ev{"k": "err", "v": 0, "e": "src"}
			case err == context.Canceled:
				return Ev{"k": "err", "v": 0, "e": "ctx"}
			case err == stream.ErrClosedPipe:
				return Ev{"k": "err", "v": 0, "e": "closedpipe"}
			}
			return Ev{"k": "err", "v": 0, "e": "other:" + err.Error()}
		}
		do := func(st smStep) {
			switch st.A {
			case "drainclose": // a consumer that reads until End / an error and closes at once, without any pause
				if busy() || closed {
					return
				}
				closed = true
				go func() {
					for {
						res := r.Call("Next", Ev{"ctx": 0}, func() Ev { return nextRes(s.Next(context.Background())) })
						if res["k"] != "val" {
							break
						}
					}
					r.Call("Close", Ev{"ctx": 0}, func() Ev { s.Close(); return Ev{"k": "nil", "v": 0, "e": ""} })
				}()
			case "item":
				seq[st.I]++
				srcs[st.I].q <- srcMsg{0, 100*st.I + seq[st.I]}
			case "end":
				srcs[st.I].q <- srcMsg{1, 0}
			case "srcerr":
				srcs[st.I].q <- srcMsg{2, 0}
			case "srccanc":
				srcs[st.I].q <- srcMsg{3, 0}
			case "next":
				if busy() || closed {
					return
				}
				ctx := r.Ctx(st.Ctx)
				nextID = r.Go("Next", Ev{"ctx": st.Ctx}, func() Ev {
					v, err := s.Next(ctx)
					switch {
					case err == nil:
						return Ev{"k": "val", "v": v, "e": ""}
					case err == stream.End:
						return Ev{"k": "end", "v": 0, "e": ""}
					case err == errSrc:
						return Ev{"k": "err", "v": 0, "e": "src"}
					case err == context.Canceled:
						return Ev{"k": "err", "v": 0, "e": "ctx"}
					case err == stream.ErrClosedPipe:
						return Ev{"k": "err", "v": 0, "e": "closedpipe"}
					}
					return Ev{"k": "err", "v": 0, "e": "other:" + err.Error()}
				})
			case "cancel":
				r.Cancel(st.Ctx)
			case "close":
				if closed || busy() {
					return
				}
				closed = true
				r.Go("Close", Ev{"ctx": 0}, func() Ev { s.Close(); return Ev{"k": "nil", "v": 0, "e": ""} })
			}
		}
		for _, st := range steps {
			do(st)
			quiesce()
		}
		r.Cancel(1)
		quiesce()
		if busy() {
			for i := range srcs {
				srcs[i].q <- srcMsg{1, 0}
			}
			quiesce()
		}
		do(smStep{A: "close"})
		quiesce()
		// epilogue (not judged): whatever the library left running is released so that the bubble can end
		r.emit(Ev{"ev": "reset", "kind": "done", "n": 0, "nd": 0})
		for i := range srcs {
			for k := 0; k < 4; k++ {
				select {
				case srcs[i].q <- srcMsg{1, 0}:
				default:
				}
			}
		}
		synctest_wait()
	})
}

func TestMerge(t *testing.T) {
	rng := seededRand()
	w := newTraceWriter(envStr("VH_OUT", "/tmp/merge.ndjson"))
	n, reps := envInt("VH_N", 30), envInt("VH_REPS", 2)
	runs, leaks := 0, 0
	if f := os.Getenv("VH_SCHED"); f != "" { // schedules generated by TLC from MergeEnv.tla: replayed literally
		var scheds []struct {
			N     int
			Steps []smStep
		}
		readJSON(t, f, &scheds)
		for _, s := range scheds {
			for rep := 0; rep < reps; rep++ {
				evs, leak, msg := runStreamMerge(t, s.N, s.Steps)
				if leak {
					leaks++
				}
				writeRuns(w, &runs, evs, leak, msg, Ev{"kind": "stream", "n": s.N, "nd": 0})
			}
		}
		w.close()
		report(Ev{"engine": "bubble", "subject": "merge", "runs": runs, "events": w.n, "leaks": leaks, "source": "tlc-schedules"})
		return
	}
	for i := 0; i < n; i++ {
		arity := i % 6 // 0..5: the four code paths of chans.Merge
		steps := genChansMerge(rng, arity)
		for rep := 0; rep < reps; rep++ {
			evs, leak, msg := runChansMerge(t, arity, steps)
			if leak {
				leaks++
			}
			writeRuns(w, &runs, evs, leak, msg, Ev{"kind": "chans", "n": arity, "nd": 0})
		}
	}
	for nd := 0; nd <= 3; nd++ {
		evs, leak, msg := runReplicate(t, nd, 3)
		if leak {
			leaks++
		}
		writeRuns(w, &runs, evs, leak, msg, Ev{"kind": "repl", "n": 1, "nd": nd})
	}
	// wide fan-outs (around and beyond a machine word of destinations), parked receivers and buffered destinations
	for _, nd := range []int{31, 32, 33, 63, 64, 65, 130} {
		for _, buf := range []int{0, 2} {
			evs, leak, msg := runReplicateBuf(t, nd, 2, buf)
			if leak {
				leaks++
			}
			writeRuns(w, &runs, evs, leak, msg, Ev{"kind": "repl", "n": 1, "nd": nd})
		}
	}
	for i := 0; i < n; i++ {
		arity := i % 4
		steps := genStreamMerge(rng, arity)
		for rep := 0; rep < reps; rep++ {
			evs, leak, msg := runStreamMerge(t, arity, steps)
			if leak {
				leaks++
			}
			writeRuns(w, &runs, evs, leak, msg, Ev{"kind": "stream", "n": arity, "nd": 0})
		}
	}
	for i := 0; i < envInt("VH_ERRRACE", 24); i++ {
		arity := 2 + i%3
		evs, leak, msg := runStreamMergeKids(t, arity, errRaceSteps(arity, i%3), 1500)
		if leak {
			leaks++
		}
		writeRuns(w, &runs, evs, leak, msg, Ev{"kind": "stream", "n": arity, "nd": 0})
	}
	w.close()
	report(Ev{"engine": "bubble", "subject": "merge", "runs": runs, "events": w.n, "leaks": leaks})
}
