package bubble

import (
	"context"
	"math/rand"
	"os"
	"testing"
	"time"

	"github.com/bradenaw/juniper/stream"
)

var errSender error = &srcError{"sender error"}

func pipeErr(err error) Ev {
	switch {
	case err == nil:
		return Ev{"k": "nil", "e": "", "v": 0}
	case err == stream.ErrClosedPipe:
		return Ev{"k": "err", "e": "closedpipe", "v": 0}
	case err == errSender:
		return Ev{"k": "err", "e": "sender", "v": 0}
	case err == context.Canceled || err == context.DeadlineExceeded:
		return Ev{"k": "err", "e": "ctx", "v": 0}
	}
	return Ev{"k": "err", "e": "other:" + err.Error(), "v": 0}
}

type pipeStep struct {
	A   string // send trysend closeS next closeR cancel
	S   int
	V   int
	Ctx int
	Err int
	NoQ bool // no quiescence point after this step: the next step races with it
}

// genPipe: a random environment schedule for a pipe with nS senders.
func genPipe(rng *rand.Rand, nS, n int) []pipeStep {
	var out []pipeStep
	sent := make([]int, nS+1)
	closedS, closedR := false, false
	for i := 0; i < n; i++ {
		c := rng.Intn(100)
		ctx := 0
		if rng.Intn(3) == 0 {
			ctx = 1 + rng.Intn(3)
		}
		switch {
		case c < 38:
			s := 1 + rng.Intn(nS)
			sent[s]++
			a := "send"
			if rng.Intn(4) == 0 {
				a = "trysend"
			}
			out = append(out, pipeStep{A: a, S: s, V: 10*s + sent[s], Ctx: ctx})
		case c < 72:
			if !closedR {
				out = append(out, pipeStep{A: "next", Ctx: ctx})
			}
		case c < 82:
			out = append(out, pipeStep{A: "cancel", Ctx: 1 + rng.Intn(3)})
		case c < 92:
			if !closedS {
				closedS = true
				out = append(out, pipeStep{A: "closeS", Err: rng.Intn(2)})
			}
		default:
			if !closedR && rng.Intn(2) == 0 {
				closedR = true
				out = append(out, pipeStep{A: "closeR"})
			}
		}
	}
	return out
}

// runPipe executes one schedule in a bubble. A sender's calls are sequential (a new Send of sender s
// is only started when its previous call has returned) and so are the receiver's.
func runPipe(t *testing.T, B int, steps []pipeStep) ([]Ev, bool, string) {
	return bubble(t, func(r *Run) {
		sender, recv := stream.Pipe[int](B)
		lastOf := map[int]int{} // sender -> id of its last call; 0 = receiver
		busy := func(who int) bool {
			r.mu.Lock()
			defer r.mu.Unlock()
			return r.pending[lastOf[who]]
		}
		closedS, closedR := false, false
		// context 2 is a deadline context: it ends with DeadlineExceeded when the (fake) clock passes its deadline
		dctx, dcancel := context.WithDeadline(context.Background(), time.Now().Add(time.Hour))
		defer dcancel()
		expired := false
		ctxOf := func(id int) context.Context {
			if id == 2 {
				return dctx
			}
			return r.Ctx(id)
		}
		cancelCtx := func(id int) {
			r.Cancel(id)
			if id == 2 && !expired {
				expired = true
				time.Sleep(time.Hour + time.Second)
			}
		}
		do := func(st pipeStep) {
			switch st.A {
			case "send":
				if busy(st.S) {
					return
				}
				ctx := ctxOf(st.Ctx)
				lastOf[st.S] = r.Go("Send", Ev{"s": st.S, "v": st.V, "ctx": st.Ctx, "err": 0}, func() Ev { return pipeErr(sender.Send(ctx, st.V)) })
			case "trysend":
				if busy(st.S) {
					return
				}
				ctx := ctxOf(st.Ctx)
				lastOf[st.S] = r.Go("TrySend", Ev{"s": st.S, "v": st.V, "ctx": st.Ctx, "err": 0}, func() Ev {
					ok, err := sender.TrySend(ctx, st.V)
					if err != nil {
						return pipeErr(err)
					}
					if ok {
						return Ev{"k": "ok", "e": "", "v": 0}
					}
					return Ev{"k": "full", "e": "", "v": 0}
				})
			case "next":
				if busy(0) || closedR {
					return
				}
				ctx := ctxOf(st.Ctx)
				lastOf[0] = r.Go("Next", Ev{"s": 0, "v": 0, "ctx": st.Ctx, "err": 0}, func() Ev {
					v, err := recv.Next(ctx)
					switch {
					case err == nil:
						return Ev{"k": "val", "e": "", "v": v}
					case err == stream.End:
						return Ev{"k": "end", "e": "", "v": 0}
					}
					return pipeErr(err)
				})
			case "closeS":
				if closedS {
					return
				}
				closedS = true
				var e error
				if st.Err == 1 {
					e = errSender
				}
				r.Go("CloseS", Ev{"s": 0, "v": 0, "ctx": 0, "err": st.Err}, func() Ev { sender.Close(e); return pipeErr(nil) })
			case "closeR":
				if closedR || busy(0) {
					return
				}
				closedR = true
				r.Go("CloseR", Ev{"s": 0, "v": 0, "ctx": 0, "err": 0}, func() Ev { recv.Close(); return pipeErr(nil) })
			case "cancel":
				cancelCtx(st.Ctx)
			}
		}
		for _, st := range steps {
			do(st)
			if !st.NoQ {
				r.Quiesce()
			}
		}
		// epilogue: let every call finish so that the bubble can end
		for c := 1; c <= 3; c++ {
			cancelCtx(c)
		}
		do(pipeStep{A: "closeS"})
		r.Quiesce()
		if !closedR {
			// a reader that keeps reading gets everything that was acknowledged before the close
			for i := 0; i < 12; i++ {
				do(pipeStep{A: "next"})
				r.Quiesce()
			}
			do(pipeStep{A: "closeR"})
		}
		r.Quiesce()
	})
}

// TestPipe records VH_N random schedules (each repeated VH_REPS times, because the winning arm of
// a multi-ready select is the runtime's choice) for buffer sizes 0, 1, 2.
func TestPipe(t *testing.T) {
	rng := seededRand()
	w := newTraceWriter(envStr("VH_OUT", "/tmp/pipe.ndjson"))
	n, reps := envInt("VH_N", 50), envInt("VH_REPS", 5)
	runs, leaks := 0, 0
	if f := os.Getenv("VH_SCHED"); f != "" { // schedules generated by TLC from PipeEnv.tla: replayed literally
		var scheds []struct {
			B     int
			Steps []pipeStep
		}
		readJSON(t, f, &scheds)
		for _, s := range scheds {
			for rep := 0; rep < reps; rep++ {
				evs, leak, msg := runPipe(t, s.B, s.Steps)
				w.put(Ev{"ev": "reset", "B": s.B, "run": runs})
				for _, e := range evs {
					w.put(e)
				}
				if leak {
					leaks++
					w.put(Ev{"ev": "leak", "msg": msg})
				}
				runs++
			}
		}
		w.close()
		report(Ev{"engine": "bubble", "subject": "pipe", "runs": runs, "events": w.n, "leaks": leaks, "source": "tlc-schedules"})
		return
	}
	for i := 0; i < n; i++ {
		B := i % 3
		steps := genPipe(rng, 1+rng.Intn(2), 4+rng.Intn(10))
		for rep := 0; rep < reps; rep++ {
			evs, leak, msg := runPipe(t, B, steps)
			w.put(Ev{"ev": "reset", "B": B, "run": runs})
			for _, e := range evs {
				w.put(e)
			}
			if leak {
				leaks++
				w.put(Ev{"ev": "leak", "msg": msg})
			}
			runs++
		}
	}
	w.close()
	report(Ev{"engine": "bubble", "subject": "pipe", "runs": runs, "events": w.n, "leaks": leaks})
}
