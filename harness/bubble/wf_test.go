package bubble

import (
	"math/rand"
	"os"
	"sync"
	"testing"

	"github.com/bradenaw/juniper/xsync"
)

// runWatchable: sequential and concurrent Sets / Values; at every quiescence point the harness reads
// Value and polls every channel it was ever handed.
func runWatchable(t *testing.T, rng *rand.Rand) ([]Ev, bool, string) {
	plan := make([]int, 4+rng.Intn(10))
	for i := range plan {
		plan[i] = rng.Intn(100)
	}
	return runWatchablePlan(t, plan)
}

func runWatchablePlan(t *testing.T, plan []int) ([]Ev, bool, string) {
	plan = append([]int{}, plan...)
	return bubble(t, func(r *Run) {
		var w xsync.Watchable[int]
		type ch struct {
			v int
			c chan struct{}
		}
		var mu sync.Mutex
		var chans []ch
		remember := func(v int, c chan struct{}) {
			mu.Lock()
			chans = append(chans, ch{v, c})
			mu.Unlock()
		}
		next := 0
		wq := func() {
			synctest_wait()
			cur, c := w.Value()
			remember(cur, c)
			mu.Lock()
			st := make([][]int, len(chans))
			for i, x := range chans {
				closed := 0
				select {
				case <-x.c:
					closed = 1
				default:
				}
				st[i] = []int{x.v, closed}
			}
			mu.Unlock()
			r.emit(Ev{"ev": "wq", "cur": cur, "chans": st})
		}
		if plan[0]%2 == 0 {
			wq() // Value before the first Set
		} else {
			plan[0] = 60 + plan[0]%40 // start with Values racing the first Set
		}
		for _, c := range plan {
			switch {
			case c < 40: // one Set
				next++
				r.emit(Ev{"ev": "wset", "v": next})
				w.Set(next)
			case c < 60: // a Value
				v, cc := w.Value()
				remember(v, cc)
				r.emit(Ev{"ev": "wvalue", "v": v})
			default: // concurrent Sets and Values (including Value racing the first Set)
				var wg sync.WaitGroup
				for j := 0; j < 1+c%3; j++ {
					next++
					v := next
					r.emit(Ev{"ev": "wset", "v": v})
					wg.Add(1)
					go func() { defer wg.Done(); w.Set(v) }()
				}
				for j := 0; j < c%2+1; j++ {
					wg.Add(1)
					go func() {
						defer wg.Done()
						v, cc := w.Value()
						remember(v, cc)
						r.emit(Ev{"ev": "wvalue", "v": v})
					}()
				}
				wg.Wait()
			}
			wq()
		}
	})
}

func runFuture(t *testing.T, rng *rand.Rand) ([]Ev, bool, string) {
	plan := make([]int, 3+rng.Intn(8))
	for i := range plan {
		plan[i] = rng.Intn(100)
	}
	return runFuturePlan(t, plan)
}

func runFuturePlan(t *testing.T, plan []int) ([]Ev, bool, string) {
	return bubble(t, func(r *Run) {
		f := xsync.NewFuture[int]()
		filled := false
		for _, c := range plan {
			switch {
			case c < 30:
				r.Go("Wait", Ev{"ctx": 0}, func() Ev { return Ev{"k": "val", "v": f.Wait()} })
			case c < 60:
				id := 1 + c%2
				ctx := r.Ctx(id)
				r.Go("WaitContext", Ev{"ctx": id}, func() Ev {
					v, err := f.WaitContext(ctx)
					if err != nil {
						return Ev{"k": "ctx", "v": 0}
					}
					return Ev{"k": "val", "v": v}
				})
			case c < 75:
				r.Cancel(1 + c%2)
			case c < 90:
				if !filled {
					filled = true
					// Fill racing with a waiter started in the same step
					r.Go("Wait", Ev{"ctx": 0}, func() Ev { return Ev{"k": "val", "v": f.Wait()} })
					r.emit(Ev{"ev": "fill", "v": 42})
					f.Fill(42)
				}
			}
			r.Quiesce()
		}
		if !filled {
			r.emit(Ev{"ev": "fill", "v": 42})
			f.Fill(42)
		}
		r.Quiesce()
	})
}

func runLazy(t *testing.T, n int) ([]Ev, bool, string) {
	return bubble(t, func(r *Run) {
		get := xsync.Lazy(func() int { r.emit(Ev{"ev": "lazyf"}); return 77 })
		for i := 0; i < n; i++ { // concurrent first calls
			r.Go("Lazy", Ev{"ctx": 0}, func() Ev { return Ev{"k": "val", "v": get()} })
		}
		r.Quiesce()
		r.Go("Lazy", Ev{"ctx": 0}, func() Ev { return Ev{"k": "val", "v": get()} })
		r.Quiesce()
	})
}

// runWatchableGated: the yield points of the verif hook hold a goroutine inside Value (after it saw
// "no value yet") or inside Set (after the swap, before the old channel is closed) while the other
// operation runs: the interleavings "Value racing the first Set" and "Value inside a Set", replayed exactly.
func runWatchableGated(t *testing.T, variant int) ([]Ev, bool, string) {
	return bubble(t, func(r *Run) {
		var w xsync.Watchable[int]
		hold := map[string]chan struct{}{}
		var mu sync.Mutex
		xsync.VerifYield = func(p string) {
			mu.Lock()
			g := hold[p]
			mu.Unlock()
			if g != nil {
				<-g
			}
		}
		defer func() { xsync.VerifYield = nil }()
		type ch struct {
			v int
			c chan struct{}
		}
		var chans []ch
		remember := func(v int, c chan struct{}) {
			mu.Lock()
			chans = append(chans, ch{v, c})
			mu.Unlock()
		}
		wq := func() {
			synctest_wait()
			cur, c := w.Value()
			remember(cur, c)
			mu.Lock()
			st := make([][]int, len(chans))
			for i, x := range chans {
				closed := 0
				select {
				case <-x.c:
					closed = 1
				default:
				}
				st[i] = []int{x.v, closed}
			}
			mu.Unlock()
			r.emit(Ev{"ev": "wq", "cur": cur, "chans": st})
		}
		value := func() {
			v, cc := w.Value()
			remember(v, cc)
			r.emit(Ev{"ev": "wvalue", "v": v})
		}
		gate := func(p string) chan struct{} {
			g := make(chan struct{})
			mu.Lock()
			hold[p] = g
			mu.Unlock()
			return g
		}
		open := func(p string, g chan struct{}) {
			mu.Lock()
			delete(hold, p)
			mu.Unlock()
			close(g)
		}
		switch variant {
		case 0: // Value sees nil, is held; the first Set completes; Value goes on
			g := gate("Watchable.Value.nil")
			go value()
			synctest_wait()
			r.emit(Ev{"ev": "wset", "v": 1})
			w.Set(1)
			synctest_wait()
			open("Watchable.Value.nil", g)
			wq()
			r.emit(Ev{"ev": "wset", "v": 2})
			w.Set(2)
			wq()
		case 1: // two Values see nil and are held; Set; both go on
			g := gate("Watchable.Value.nil")
			go value()
			go value()
			synctest_wait()
			r.emit(Ev{"ev": "wset", "v": 1})
			w.Set(1)
			open("Watchable.Value.nil", g)
			wq()
		case 2: // a Set is held after its swap; Values and another Set run; the first Set finishes last
			r.emit(Ev{"ev": "wset", "v": 1})
			w.Set(1)
			wq()
			g := gate("Watchable.Set.swapped")
			r.emit(Ev{"ev": "wset", "v": 2})
			go w.Set(2)
			synctest_wait()
			mu.Lock()
			delete(hold, "Watchable.Set.swapped")
			mu.Unlock()
			value()
			r.emit(Ev{"ev": "wset", "v": 3})
			w.Set(3)
			value()
			close(g)
			wq()
		}
	})
}

// firstSetRace: outside a bubble (true parallelism): a fresh Watchable, one Set racing one Value, many
// times; recorded in the same vocabulary and judged by Trace_WF.
func firstSetRace(w *traceWriter, runs *int, n int) {
	for i := 0; i < n; i++ {
		var x xsync.Watchable[int]
		var wg sync.WaitGroup
		var got int
		var gc chan struct{}
		start := make(chan struct{})
		wg.Add(2)
		go func() { defer wg.Done(); <-start; x.Set(1) }()
		go func() { defer wg.Done(); <-start; got, gc = x.Value() }()
		close(start)
		wg.Wait()
		cur, cc := x.Value()
		closed := func(c chan struct{}) int {
			select {
			case <-c:
				return 1
			default:
				return 0
			}
		}
		// only interesting outcomes are written in full; the rest is summarised by one run in 50
		if got == 1 && cur == 1 && closed(gc) == 0 && i%50 != 0 {
			continue
		}
		w.put(Ev{"ev": "reset", "run": *runs})
		w.put(Ev{"ev": "wset", "v": 1})
		w.put(Ev{"ev": "wvalue", "v": got})
		w.put(Ev{"ev": "wq", "cur": cur, "chans": [][]int{{got, closed(gc)}, {cur, closed(cc)}}})
		*runs++
	}
}

func TestWF(t *testing.T) {
	rng := seededRand()
	w := newTraceWriter(envStr("VH_OUT", "/tmp/wf.ndjson"))
	n := envInt("VH_N", 100)
	runs, leaks := 0, 0
	if f := os.Getenv("VH_SCHED"); f != "" { // plans generated by TLC from WFEnv.tla: replayed literally
		var scheds []struct {
			Kind  string
			Steps []struct{ C int }
		}
		readJSON(t, f, &scheds)
		for _, s := range scheds {
			plan := []int{}
			for _, st := range s.Steps {
				plan = append(plan, st.C)
			}
			var evs []Ev
			var leak bool
			var msg string
			if s.Kind == "future" {
				evs, leak, msg = runFuturePlan(t, plan)
			} else {
				evs, leak, msg = runWatchablePlan(t, plan)
			}
			if leak {
				leaks++
			}
			writeRuns(w, &runs, evs, leak, msg, Ev{})
		}
		w.close()
		report(Ev{"engine": "bubble", "subject": "wf", "runs": runs, "events": w.n, "leaks": leaks, "source": "tlc-schedules"})
		return
	}
	for i := 0; i < n; i++ {
		var evs []Ev
		var leak bool
		var msg string
		switch i % 3 {
		case 0:
			evs, leak, msg = runWatchable(t, rng)
		case 1:
			evs, leak, msg = runFuture(t, rng)
		default:
			evs, leak, msg = runLazy(t, 1+rng.Intn(6))
		}
		if leak {
			leaks++
		}
		writeRuns(w, &runs, evs, leak, msg, Ev{})
	}
	for rep := 0; rep < 5; rep++ {
		for v := 0; v < 3; v++ {
			evs, leak, msg := runWatchableGated(t, v)
			if leak {
				leaks++
			}
			writeRuns(w, &runs, evs, leak, msg, Ev{})
		}
	}
	firstSetRace(w, &runs, envInt("VH_RACE_N", 5000))
	w.close()
	report(Ev{"engine": "bubble", "subject": "wf", "runs": runs, "events": w.n, "leaks": leaks})
}
