package bubble

import (
	"context"
	"math/rand"
	"os"
	"runtime"
	"sync"
	"testing"

	"github.com/bradenaw/juniper/iterator"
	"github.com/bradenaw/juniper/parallel"
	"github.com/bradenaw/juniper/stream"
)

// gateIter: an iterator whose Next blocks until the harness releases the next message.
type gateIter struct {
	q chan srcMsg
	r *Run
}

func (g *gateIter) Next() (int, bool) {
	m := <-g.q
	if m.kind == 0 {
		g.r.emit(Ev{"ev": "taken", "v": m.v})
		return m.v, true
	}
	g.r.emit(Ev{"ev": "srcend", "i": 0})
	return 0, false
}

type moStep struct {
	A   string // item end srcerr rel next cancel close
	V   int
	Ctx int
}

type moScen struct {
	Kind   string
	P, Buf int
	Fail   map[int]bool
	Steps  []moStep
	MCtx   int  // the context given to MapStream itself: 0 = background, 2 = context 2 (cancellable by a step)
	Pre    bool // context 2 is cancelled before MapStream is called
}

func genMapOrd(rng *rand.Rand, kind string) moScen {
	s := moScen{Kind: kind, P: []int{-1, 1, 2, 3}[rng.Intn(4)], Buf: []int{-1, 0, 1, 2, 4}[rng.Intn(5)], Fail: map[int]bool{}}
	if kind == "stream" && rng.Intn(3) == 0 {
		s.MCtx = 2
		s.Pre = rng.Intn(4) == 0
	}
	n := rng.Intn(7)
	items, rel := 0, []int{}
	finished := false
	for k := 0; k < 6+rng.Intn(14); k++ {
		c := rng.Intn(100)
		switch {
		case c < 25 && items < n:
			items++
			if kind == "stream" && rng.Intn(8) == 0 {
				s.Fail[items] = true
			}
			s.Steps = append(s.Steps, moStep{A: "item", V: items})
			rel = append(rel, items)
		case c < 50 && len(rel) > 0: // release some pending call of f - late items may finish first
			j := rng.Intn(len(rel))
			s.Steps = append(s.Steps, moStep{A: "rel", V: rel[j]})
			rel = append(rel[:j], rel[j+1:]...)
		case c < 80:
			ctx := 0
			if kind == "stream" && rng.Intn(5) == 0 {
				ctx = 1
			}
			s.Steps = append(s.Steps, moStep{A: "next", Ctx: ctx})
		case c < 85 && kind == "stream":
			if s.MCtx == 2 && rng.Intn(2) == 0 {
				s.Steps = append(s.Steps, moStep{A: "cancel", Ctx: 2})
			} else {
				s.Steps = append(s.Steps, moStep{A: "cancel", Ctx: 1})
			}
		case c < 93 && !finished && items == n:
			finished = true
			if kind == "stream" && rng.Intn(4) == 0 {
				s.Steps = append(s.Steps, moStep{A: []string{"srcerr", "srcerr", "srccanc"}[rng.Intn(3)]})
			} else {
				s.Steps = append(s.Steps, moStep{A: "end"})
			}
		case c >= 97 && kind == "stream":
			s.Steps = append(s.Steps, moStep{A: "close"})
			return s
		}
	}
	// the rest: finish the source, release everything, drain
	for items < n {
		items++
		s.Steps = append(s.Steps, moStep{A: "item", V: items})
		rel = append(rel, items)
	}
	if !finished {
		s.Steps = append(s.Steps, moStep{A: "end"})
	}
	rng.Shuffle(len(rel), func(i, j int) { rel[i], rel[j] = rel[j], rel[i] })
	for _, v := range rel {
		s.Steps = append(s.Steps, moStep{A: "rel", V: v})
	}
	for k := 0; k < n+2; k++ {
		s.Steps = append(s.Steps, moStep{A: "next"})
	}
	return s
}

func runMapOrd(t *testing.T, s moScen) ([]Ev, bool, string) {
	return bubble(t, func(r *Run) {
		var gmu sync.Mutex
		gates := map[int]chan struct{}{}
		gate := func(v int) chan struct{} {
			gmu.Lock()
			defer gmu.Unlock()
			if gates[v] == nil {
				gates[v] = make(chan struct{})
			}
			return gates[v]
		}
		released := map[int]bool{}
		release := func(v int) {
			g := gate(v)
			gmu.Lock()
			defer gmu.Unlock()
			if !released[v] {
				released[v] = true
				close(g)
			}
		}
		f := func(v int) (int, error) {
			r.emit(Ev{"ev": "fbegin", "v": v})
			<-gate(v)
			if s.Fail[v] {
				r.emit(Ev{"ev": "fend", "v": v, "err": 100 + v})
				return 0, &parErr{100 + v}
			}
			r.emit(Ev{"ev": "fend", "v": v, "err": 0})
			return 1000 + v, nil
		}
		q := make(chan srcMsg, 64)
		var nextFn func(ctx context.Context) Ev
		var closeFn func()
		var src *gateSrc
		if s.Kind == "iter" {
			it := parallel.MapIterator[int, int](&gateIter{q: q, r: r}, s.P, s.Buf, func(v int) int { x, _ := f(v); return x })
			nextFn = func(ctx context.Context) Ev {
				v, ok := it.Next()
				if !ok {
					return Ev{"k": "end", "v": 0, "e": ""}
				}
				return Ev{"k": "val", "v": v, "e": ""}
			}
			_ = iterator.Empty[int]
		} else {
			src = &gateSrc{q: q, r: r}
			if s.Pre {
				r.Cancel(2)
			}
			st := parallel.MapStream[int, int](r.Ctx(s.MCtx), src, s.P, s.Buf, func(ctx context.Context, v int) (int, error) { return f(v) })
			nextFn = func(ctx context.Context) Ev {
				v, err := st.Next(ctx)
				switch {
				case err == nil:
					return Ev{"k": "val", "v": v, "e": ""}
				case err == stream.End:
					return Ev{"k": "end", "v": 0, "e": ""}
				case err == errSrc:
					return Ev{"k": "err", "v": 0, "e": "src"}
				case err == context.Canceled:
					return Ev{"k": "err", "v": 0, "e": "ctx"}
				}
				if pe, ok := err.(*parErr); ok {
					return Ev{"k": "err", "v": pe.id, "e": "f"}
				}
				return Ev{"k": "err", "v": 0, "e": "other:" + err.Error()}
			}
			closeFn = st.Close
		}
		nextID, closed := 0, false
		busy := func() bool {
			r.mu.Lock()
			defer r.mu.Unlock()
			return r.pending[nextID]
		}
		quiesce := func() {
			r.Quiesce()
			b := 0
			if src != nil {
				b = int(src.busy.Load())
			}
			r.mu.Lock()
			r.evs[len(r.evs)-1]["srcbusy"] = b
			r.mu.Unlock()
		}
		do := func(st moStep) {
			switch st.A {
			case "item":
				q <- srcMsg{0, st.V}
			case "end":
				q <- srcMsg{1, 0}
			case "srcerr":
				q <- srcMsg{2, 0}
			case "srccanc":
				q <- srcMsg{3, 0}
			case "rel":
				r.emit(Ev{"ev": "rel", "v": st.V})
				release(st.V)
			case "next":
				if busy() || closed {
					return
				}
				ctx := r.Ctx(st.Ctx)
				nextID = r.Go("Next", Ev{"ctx": st.Ctx}, func() Ev { return nextFn(ctx) })
			case "cancel":
				r.Cancel(st.Ctx)
			case "close":
				if closed || busy() || closeFn == nil {
					return
				}
				closed = true
				r.Go("Close", Ev{"ctx": 0}, func() Ev { closeFn(); return Ev{"k": "nil", "v": 0, "e": ""} })
			}
		}
		for _, st := range s.Steps {
			do(st)
			quiesce()
		}
		// epilogue: release every call of f, cancel, close
		r.Cancel(1)
		for v := 1; v <= 16; v++ {
			release(v)
		}
		quiesce()
		if busy() && s.Kind == "iter" {
			do(moStep{A: "end"})
			quiesce()
		}
		do(moStep{A: "close"})
		quiesce()
		r.emit(Ev{"ev": "reset", "kind": "done", "p": 1, "buf": 0, "gmp": 1, "mctx": 0})
		for k := 0; k < 4; k++ {
			select {
			case q <- srcMsg{1, 0}:
			default:
			}
		}
		synctest_wait()
	})
}

func TestMapOrd(t *testing.T) {
	rng := seededRand()
	w := newTraceWriter(envStr("VH_OUT", "/tmp/mapord.ndjson"))
	n := envInt("VH_N", 100)
	runs, leaks := 0, 0
	if f := os.Getenv("VH_SCHED"); f != "" { // schedules generated by TLC from MapOrdEnv.tla: replayed literally
		var scheds []moScen
		readJSON(t, f, &scheds)
		for _, s := range scheds {
			if s.Fail == nil {
				s.Fail = map[int]bool{}
			}
			evs, leak, msg := runMapOrd(t, s)
			if leak {
				leaks++
			}
			writeRuns(w, &runs, evs, leak, msg, Ev{"kind": s.Kind, "p": s.P, "buf": s.Buf, "gmp": runtime.GOMAXPROCS(-1), "mctx": s.MCtx})
		}
		w.close()
		report(Ev{"engine": "bubble", "subject": "mapord", "runs": runs, "events": w.n, "leaks": leaks, "source": "tlc-schedules"})
		return
	}
	// directed: results are ready, the consumer asks with a context that has already ended, then with a live one: whatever
	// the first call did, no result may be lost (which arm a ready select takes is the runtime's choice: repeated)
	for p := 1; p <= 2; p++ {
		for k := 1; k <= 3; k++ {
			for rep := 0; rep < 4; rep++ {
				s := moScen{Kind: "stream", P: p, Buf: p + 1, Fail: map[int]bool{}}
				for v := 1; v <= k; v++ {
					s.Steps = append(s.Steps, moStep{A: "item", V: v})
				}
				for v := 1; v <= k; v++ {
					s.Steps = append(s.Steps, moStep{A: "rel", V: v})
				}
				s.Steps = append(s.Steps, moStep{A: "cancel", Ctx: 1})
				for v := 0; v <= k; v++ {
					s.Steps = append(s.Steps, moStep{A: "next", Ctx: 1}, moStep{A: "next"})
				}
				s.Steps = append(s.Steps, moStep{A: "end"}, moStep{A: "next"}, moStep{A: "next"})
				evs, leak, msg := runMapOrd(t, s)
				if leak {
					leaks++
				}
				writeRuns(w, &runs, evs, leak, msg, Ev{"kind": s.Kind, "p": s.P, "buf": s.Buf, "gmp": runtime.GOMAXPROCS(-1), "mctx": s.MCtx})
			}
		}
	}
	// directed: the look-ahead is filled (results finished, nobody reads), then Close / a late first Next
	for p := 1; p <= 3; p++ {
		for extra := 0; extra <= 3; extra++ {
			for variant := 0; variant < 2; variant++ {
				buf := p + extra
				s := moScen{Kind: "stream", P: p, Buf: buf, Fail: map[int]bool{}}
				nIt := buf + 3
				for v := 1; v <= nIt; v++ {
					s.Steps = append(s.Steps, moStep{A: "item", V: v})
				}
				for v := nIt; v >= 1; v-- { // late items finish first
					s.Steps = append(s.Steps, moStep{A: "rel", V: v})
				}
				if variant == 0 {
					s.Steps = append(s.Steps, moStep{A: "close"})
				} else {
					s.Steps = append(s.Steps, moStep{A: "next"}, moStep{A: "next"}, moStep{A: "close"})
				}
				evs, leak, msg := runMapOrd(t, s)
				if leak {
					leaks++
				}
				writeRuns(w, &runs, evs, leak, msg, Ev{"kind": s.Kind, "p": s.P, "buf": s.Buf, "gmp": runtime.GOMAXPROCS(-1), "mctx": s.MCtx})
			}
		}
	}
	for i := 0; i < n; i++ {
		s := genMapOrd(rng, []string{"iter", "stream"}[i%2])
		evs, leak, msg := runMapOrd(t, s)
		if leak {
			leaks++
		}
		writeRuns(w, &runs, evs, leak, msg, Ev{"kind": s.Kind, "p": s.P, "buf": s.Buf, "gmp": runtime.GOMAXPROCS(-1), "mctx": s.MCtx})
	}
	w.close()
	report(Ev{"engine": "bubble", "subject": "mapord", "runs": runs, "events": w.n, "leaks": leaks})
}
