package bubble

import (
	"context"
	"math/rand"
	"os"
	"runtime"
	"sync/atomic"
	"testing"
	"time"

	"github.com/bradenaw/juniper/stream"
)

// the sources' and the sender's own errors have their own dynamic types (not the *errors.errorString of errors.New and
// of context.Canceled): code that stores errors of mixed types must cope
type srcError struct{ what string }

func (e *srcError) Error() string { return e.what }

var errSrc error = &srcError{"source error"}

type srcMsg struct {
	kind int // 0 item, 1 end, 2 error
	v    int
}

// gateSrc is a stream whose Next blocks until the harness releases the next message; it honours
// its context. It records the instant it hands an item (or End / its error) to the library.
type gateSrc struct {
	q      chan srcMsg
	r      *Run
	idx    int
	closes int
	done   bool
	doneK  int
	busy   atomic.Int32 // Next calls in flight
	closed atomic.Int32
	kids   int // > 0: every Next derives this many child contexts from its context before it blocks, so that cancelling
	// the context takes a while (the caller of cancel() is busy while the waiters already run)
	keep []context.CancelFunc
}

func (s *gateSrc) Next(ctx context.Context) (int, error) {
	if s.busy.Add(1) > 1 {
		s.r.emit(Ev{"ev": "srcviol", "what": "two Next calls overlap", "i": s.idx})
	}
	defer s.busy.Add(-1)
	if s.closed.Load() > 0 {
		s.r.emit(Ev{"ev": "srcviol", "what": "Next after Close", "i": s.idx})
	}
	if s.done { // sticky end / error
		if s.doneK == 2 {
			return 0, errSrc
		}
		if s.doneK == 3 {
			return 0, context.Canceled
		}
		return 0, stream.End
	}
	for i := 0; i < s.kids; i++ {
		c, cf := context.WithCancel(ctx)
		_, cf2 := context.WithCancel(c)
		s.keep = append(s.keep, cf, cf2)
	}
	select {
	case m := <-s.q:
		switch m.kind {
		case 0:
			s.r.emit(Ev{"ev": "taken", "v": m.v, "i": s.idx})
			return m.v, nil
		case 1:
			s.done, s.doneK = true, 1
			s.r.emit(Ev{"ev": "srcend", "i": s.idx})
			return 0, stream.End
		case 3: // the source's own error happens to be context.Canceled (e.g. its producer was cancelled upstream)
			s.done, s.doneK = true, 3
			s.r.emit(Ev{"ev": "srcerr", "i": s.idx, "c": 1})
			return 0, context.Canceled
		default:
			s.done, s.doneK = true, 2
			s.r.emit(Ev{"ev": "srcerr", "i": s.idx, "c": 0})
			return 0, errSrc
		}
	case <-ctx.Done():
		return 0, ctx.Err()
	}
}

func (s *gateSrc) Close() {
	if s.busy.Load() > 0 {
		s.r.emit(Ev{"ev": "srcviol", "what": "Close while Next is in flight", "i": s.idx})
	}
	if s.closed.Add(1) > 1 {
		s.r.emit(Ev{"ev": "srcviol", "what": "second Close", "i": s.idx})
	}
	s.closes++
	s.r.emit(Ev{"ev": "srcclose", "i": s.idx})
}

type batchStep struct {
	A   string // item end srcerr next cancel adv close hold unhold
	V   int
	Ctx int
	D   int  // milliseconds
	NoQ bool // no quiescence point after this step: the next step races with what this one set in motion
	Y   int  // ... after the driver has given up the processor this many times (the library's goroutines get going)
}

func genBatch(rng *rand.Rand, maxwait int, withHold bool) []batchStep {
	var out []batchStep
	n := 4 + rng.Intn(12)
	v := 0
	finished := false
	held := false
	for i := 0; i < n; i++ {
		c := rng.Intn(100)
		switch {
		case c < 30:
			if !finished {
				burst := 1 + rng.Intn(3)
				for j := 0; j < burst; j++ {
					v++
					out = append(out, batchStep{A: "item", V: v})
				}
			}
		case c < 55:
			ctx := 0
			if rng.Intn(3) == 0 {
				ctx = 1 + rng.Intn(2)
			}
			out = append(out, batchStep{A: "next", Ctx: ctx})
		case c < 72:
			d := []int{1, maxwait / 2, maxwait - 1, maxwait, maxwait + 1, 2 * maxwait}[rng.Intn(6)]
			if d < 1 {
				d = 1
			}
			out = append(out, batchStep{A: "adv", D: d})
		case c < 80:
			out = append(out, batchStep{A: "cancel", Ctx: 1 + rng.Intn(2)})
		case c < 86:
			if !finished {
				finished = true
				if rng.Intn(3) == 0 {
					out = append(out, batchStep{A: []string{"srcerr", "srcerr", "srccanc"}[rng.Intn(3)]})
				} else {
					out = append(out, batchStep{A: "end"})
				}
			}
		case c < 94:
			if withHold {
				if held {
					out = append(out, batchStep{A: "unhold"})
				} else {
					out = append(out, batchStep{A: "hold"})
				}
				held = !held
			}
		default:
			if rng.Intn(3) == 0 {
				out = append(out, batchStep{A: "close"})
				return out
			}
		}
	}
	return out
}

func runBatch(t *testing.T, size, maxwait int, withFunc bool, steps []batchStep) ([]Ev, bool, string) {
	return bubble(t, func(r *Run) {
		src := &gateSrc{q: make(chan srcMsg, 256), r: r}
		var hold chan struct{} // non-nil: full() blocks until it is closed
		var s stream.Stream[[]int]
		mw := time.Duration(maxwait) * time.Millisecond
		if withFunc {
			s = stream.BatchFunc[int](src, mw, func(b []int) bool {
				r.mu.Lock()
				h := hold
				r.mu.Unlock()
				if h != nil {
					<-h
				}
				return len(b) >= size
			})
		} else {
			s = stream.Batch[int](src, mw, size)
		}
		nextID, closed := 0, false
		busy := func() bool {
			r.mu.Lock()
			defer r.mu.Unlock()
			return r.pending[nextID]
		}
		do := func(st batchStep) {
			switch st.A {
			case "item":
				r.emit(Ev{"ev": "item", "v": st.V})
				src.q <- srcMsg{0, st.V}
			case "end":
				src.q <- srcMsg{1, 0}
			case "srcerr":
				src.q <- srcMsg{2, 0}
			case "srccanc":
				src.q <- srcMsg{3, 0}
			case "next":
				if busy() || closed {
					return
				}
				ctx := r.Ctx(st.Ctx)
				nextID = r.Go("Next", Ev{"ctx": st.Ctx}, func() Ev {
					b, err := s.Next(ctx)
					switch {
					case err == nil:
						return Ev{"k": "batch", "items": append([]int{}, b...), "e": ""}
					case err == stream.End:
						return Ev{"k": "end", "items": []int{}, "e": ""}
					case err == errSrc:
						return Ev{"k": "err", "items": []int{}, "e": "src"}
					case err == context.Canceled:
						return Ev{"k": "err", "items": []int{}, "e": "ctx"}
					}
					return Ev{"k": "err", "items": []int{}, "e": "other:" + err.Error()}
				})
			case "cancel":
				r.Cancel(st.Ctx)
			case "adv":
				r.emit(Ev{"ev": "adv", "d": st.D})
				time.Sleep(time.Duration(st.D) * time.Millisecond)
			case "hold":
				r.mu.Lock()
				if hold == nil {
					hold = make(chan struct{})
				}
				r.mu.Unlock()
				r.emit(Ev{"ev": "hold"})
			case "unhold":
				r.mu.Lock()
				h := hold
				hold = nil
				r.mu.Unlock()
				r.emit(Ev{"ev": "unhold"})
				if h != nil {
					close(h)
				}
			case "close":
				if closed || busy() {
					return
				}
				closed = true
				r.Go("Close", Ev{"ctx": 0}, func() Ev { s.Close(); return Ev{"k": "nil", "items": []int{}, "e": ""} })
			}
		}
		for _, st := range steps {
			do(st)
			if !st.NoQ {
				r.Quiesce()
			}
			for y := 0; y < st.Y; y++ {
				runtime.Gosched()
			}
		}
		// epilogue: release the callback, give up pending waits, close
		do(batchStep{A: "unhold"})
		r.Cancel(1)
		r.Cancel(2)
		r.Quiesce()
		if busy() { // a Next with the background context may still wait: let the source finish
			do(batchStep{A: "end"})
			r.Quiesce()
		}
		do(batchStep{A: "close"})
		r.Quiesce()
	})
}

// directedBatch: schedules taken from TLC counterexamples of spec/batch/Batch.tla (mc_f8, mc_f17).
func directedBatch() []struct {
	size, maxwait int
	fn            bool
	steps         []batchStep
} {
	type sc = struct {
		size, maxwait int
		fn            bool
		steps         []batchStep
	}
	return []sc{
		// F17: a waiter arms the timer and gives up; the batcher is held in full() while the timer
		// expires; a second waiter arrives; the stale timer then flushes the next (empty) batch
		{3, 10, true, []batchStep{{A: "item", V: 1}, {A: "next", Ctx: 1}, {A: "cancel", Ctx: 1}, {A: "hold"}, {A: "item", V: 2},
			{A: "adv", D: 15}, {A: "next"}, {A: "unhold"}, {A: "next"}, {A: "item", V: 3}, {A: "next"}, {A: "adv", D: 3}, {A: "item", V: 4}, {A: "adv", D: 20}, {A: "next"}}},
		{2, 10, true, []batchStep{{A: "item", V: 1}, {A: "next", Ctx: 1}, {A: "cancel", Ctx: 1}, {A: "hold"}, {A: "item", V: 2},
			{A: "adv", D: 11}, {A: "next"}, {A: "unhold"}, {A: "item", V: 3}, {A: "next"}, {A: "adv", D: 1}, {A: "next"}}},
		// the timer is re-armed (not created) for a batch whose first item arrived while nobody was waiting: it
		// must fire maxWait after that item, not maxWait after the consumer arrived
		{3, 10, false, []batchStep{{A: "item", V: 1}, {A: "next"}, {A: "adv", D: 10}, {A: "item", V: 2}, {A: "adv", D: 4}, {A: "next"},
			{A: "adv", D: 6}, {A: "adv", D: 5}, {A: "item", V: 3}, {A: "adv", D: 9}, {A: "next"}, {A: "adv", D: 1}, {A: "adv", D: 20}}},
		{2, 50, true, []batchStep{{A: "item", V: 1}, {A: "next"}, {A: "adv", D: 50}, {A: "item", V: 2}, {A: "adv", D: 49}, {A: "next"},
			{A: "adv", D: 1}, {A: "adv", D: 60}}},
		// a waiting consumer's context is cancelled right when a batch is being handed to it (no quiescence point in
		// between; the driver yields a few times so that the hand-over is under way): the batch must not get lost
		{1, 10, false, []batchStep{{A: "next", Ctx: 1}, {A: "item", V: 1, NoQ: true, Y: 2}, {A: "cancel", Ctx: 1}, {A: "next"}, {A: "item", V: 2}, {A: "next"}}},
		{1, 10, false, []batchStep{{A: "next", Ctx: 1}, {A: "item", V: 1, NoQ: true, Y: 4}, {A: "cancel", Ctx: 1}, {A: "next"}, {A: "item", V: 2}, {A: "next"}}},
		{1, 10, true, []batchStep{{A: "next", Ctx: 1}, {A: "item", V: 1, NoQ: true, Y: 7}, {A: "cancel", Ctx: 1}, {A: "next"}, {A: "item", V: 2}, {A: "next"}}},
		{2, 10, false, []batchStep{{A: "item", V: 1}, {A: "next", Ctx: 1}, {A: "item", V: 2, NoQ: true, Y: 3}, {A: "cancel", Ctx: 1}, {A: "next"}, {A: "next"}}},
		{2, 10, false, []batchStep{{A: "item", V: 1}, {A: "next", Ctx: 1}, {A: "item", V: 2, NoQ: true, Y: 6}, {A: "cancel", Ctx: 1}, {A: "next"}, {A: "next"}}},
		// F8: the producer is ahead of the consumer when Close is called
		{2, 10, false, []batchStep{{A: "item", V: 1}, {A: "item", V: 2}, {A: "item", V: 3}, {A: "item", V: 4}, {A: "item", V: 5}, {A: "close"}}},
		{1, 10, false, []batchStep{{A: "item", V: 1}, {A: "item", V: 2}, {A: "next"}, {A: "item", V: 3}, {A: "item", V: 4}, {A: "close"}}},
	}
}

func TestBatch(t *testing.T) {
	rng := seededRand()
	w := newTraceWriter(envStr("VH_OUT", "/tmp/batch.ndjson"))
	n, reps := envInt("VH_N", 50), envInt("VH_REPS", 3)
	runs, leaks := 0, 0
	if f := os.Getenv("VH_SCHED"); f != "" { // schedules generated by TLC from BatchEnv.tla: replayed literally
		var scheds []struct {
			Size, Maxwait int
			Func          bool
			Steps         []batchStep
		}
		readJSON(t, f, &scheds)
		for _, s := range scheds {
			for rep := 0; rep < reps; rep++ {
				evs, leak, msg := runBatch(t, s.Size, s.Maxwait, s.Func, s.Steps)
				if leak {
					leaks++
				}
				writeRuns(w, &runs, evs, leak, msg, Ev{"size": s.Size, "maxwait": s.Maxwait, "func": s.Func})
			}
		}
		w.close()
		report(Ev{"engine": "bubble", "subject": "batch", "runs": runs, "events": w.n, "leaks": leaks, "source": "tlc-schedules"})
		return
	}
	for _, d := range directedBatch() {
		for rep := 0; rep < 8; rep++ { // which ready select arm wins is the runtime's choice: repeat
			evs, leak, msg := runBatch(t, d.size, d.maxwait, d.fn, d.steps)
			if leak {
				leaks++
			}
			writeRuns(w, &runs, evs, leak, msg, Ev{"size": d.size, "maxwait": d.maxwait, "func": d.fn})
		}
	}
	for i := 0; i < n; i++ {
		size := 1 + rng.Intn(3)
		maxwait := []int{10, 50, 1000}[rng.Intn(3)]
		withFunc := i%2 == 1
		steps := genBatch(rng, maxwait, withFunc)
		for rep := 0; rep < reps; rep++ {
			evs, leak, msg := runBatch(t, size, maxwait, withFunc, steps)
			if leak {
				leaks++
			}
			writeRuns(w, &runs, evs, leak, msg, Ev{"size": size, "maxwait": maxwait, "func": withFunc})
		}
	}
	w.close()
	report(Ev{"engine": "bubble", "subject": "batch", "runs": runs, "events": w.n, "leaks": leaks})
}
