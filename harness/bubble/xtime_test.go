package bubble

import (
	"context"
	"errors"
	"math"
	"runtime"
	"testing"
	"time"

	"github.com/bradenaw/juniper/xtime"
)

func ms(d time.Duration) int { return int(d / time.Millisecond) }

// runSleep: one SleepContext call, all quantities in microseconds. dl: deadline offset (-1 none);
// cancelAt: cancellation offset (-1 never, 0 = before the call).
func runSleep(t *testing.T, d, dl, cancelAt int) ([]Ev, bool, string) {
	return bubble(t, func(r *Run) {
		time.Sleep(7 * time.Millisecond) // t0 is not the bubble's epoch
		us := func() int64 { return int64(time.Since(r.t0) / time.Microsecond) }
		t0 := us()
		ctx := context.Background()
		var cancel context.CancelFunc = func() {}
		if dl >= 0 {
			ctx, cancel = context.WithDeadline(ctx, time.Now().Add(time.Duration(dl)*time.Microsecond))
		} else {
			ctx, cancel = context.WithCancel(ctx)
		}
		defer cancel()
		if cancelAt == 0 {
			cancel()
		}
		type out struct {
			res string
			t1  int64
		}
		done := make(chan out, 1)
		go func() {
			err := xtime.SleepContext(ctx, time.Duration(d)*time.Microsecond)
			res := "nil"
			var ts xtime.DeadlineTooSoonError
			switch {
			case err == nil:
			case errors.As(err, &ts):
				res = "toosoon"
			case err == context.Canceled || err == context.DeadlineExceeded:
				res = "ctx"
			default:
				res = "other:" + err.Error()
			}
			done <- out{res, us()}
		}()
		if cancelAt > 0 {
			time.Sleep(time.Duration(cancelAt) * time.Microsecond)
			cancel()
		}
		o := <-done
		abs := func(off int) int64 {
			if off < 0 {
				return -1
			}
			return t0 + int64(off)
		}
		r.emit(Ev{"ev": "sleep", "t0": t0, "d": d, "dl": abs(dl), "cancelAt": abs(cancelAt), "t1": o.t1, "res": o.res})
	})
}

// runSleepExtreme: arguments at the ends of their ranges - the longest possible duration, a deadline that is already over,
// a deadline centuries in the past (the zero time). Logged like any other sleep, the duration clipped to TLC's integers.
func runSleepExtreme(t *testing.T, kind int) ([]Ev, bool, string) {
	return bubble(t, func(r *Run) {
		time.Sleep(7 * time.Millisecond)
		us := func() int64 { return int64(time.Since(r.t0) / time.Microsecond) }
		t0 := us()
		d := time.Duration(math.MaxInt64)
		ctx, cancel := context.WithCancel(context.Background())
		defer cancel()
		dl, cancelAt := int64(-1), int64(-1)
		switch kind {
		case 0: // longest duration, the deadline is now
			ctx, cancel = context.WithDeadline(context.Background(), time.Now())
			dl = t0
		case 1: // a deadline in the distant past, an ordinary duration
			ctx, cancel = context.WithDeadline(context.Background(), time.Time{})
			d = time.Millisecond
			dl = 0
		case 2: // longest duration, a deadline ten minutes ahead
			ctx, cancel = context.WithDeadline(context.Background(), time.Now().Add(10*time.Minute))
			dl = t0 + 600*1000*1000
		case 3: // longest duration, no deadline, cancelled after 1 ms
			cancelAt = t0 + 1000
		case 4: // longest duration, the deadline in the distant past
			ctx, cancel = context.WithDeadline(context.Background(), time.Time{})
			dl = 0
		}
		defer cancel()
		done := make(chan Ev, 1)
		go func() {
			err := xtime.SleepContext(ctx, d)
			res := "nil"
			var ts xtime.DeadlineTooSoonError
			switch {
			case err == nil:
			case errors.As(err, &ts):
				res = "toosoon"
			case err == context.Canceled || err == context.DeadlineExceeded:
				res = "ctx"
			default:
				res = "other:" + err.Error()
			}
			done <- Ev{"res": res, "t1": us()}
		}()
		if kind == 3 {
			time.Sleep(time.Millisecond)
			cancel()
		}
		o := <-done
		ld := int64(d / time.Microsecond)
		if ld > 2000000000 {
			ld = 2000000000
		}
		r.emit(Ev{"ev": "sleep", "t0": t0, "d": ld, "dl": dl, "cancelAt": cancelAt, "t1": o["t1"], "res": o["res"]})
	})
}

type jtStep struct {
	A    string // adv reset stop drain
	D, J int
}

func runTicker(t *testing.T, d, j int, steps []jtStep) ([]Ev, bool, string) {
	return bubble(t, func(r *Run) {
		var tk *xtime.JitterTicker
		p := 0
		func() {
			defer func() {
				if recover() != nil {
					p = 1
				}
			}()
			tk = xtime.NewJitterTicker(time.Duration(d)*time.Millisecond, time.Duration(j)*time.Millisecond)
		}()
		r.emit(Ev{"ev": "new", "d": d, "j": j, "panic": p})
		if tk == nil {
			return
		}
		drain := func() {
			for {
				select {
				case ts := <-tk.C:
					r.emit(Ev{"ev": "tick", "ts": ts.Sub(r.t0).Milliseconds()})
				default:
					return
				}
			}
		}
		stopped := false
		for _, st := range steps {
			switch st.A {
			case "adv":
				// advance in 1 ms slices so that every tick is picked up (the channel holds one)
				for k := 0; k < st.D; k++ {
					time.Sleep(time.Millisecond)
					synctest_wait()
					drain()
				}
			case "reset":
				pp := 0
				func() {
					defer func() {
						if recover() != nil {
							pp = 1
						}
					}()
					tk.Reset(time.Duration(st.D)*time.Millisecond, time.Duration(st.J)*time.Millisecond)
				}()
				stopped = false
				r.emit(Ev{"ev": "jreset", "d": st.D, "j": st.J, "panic": pp})
				if pp == 1 {
					return // a panic inside Reset leaves the ticker's mutex locked: nothing more can be done with it
				}
			case "stop":
				if !stopped {
					tk.Stop()
					stopped = true
					r.emit(Ev{"ev": "stop"})
				}
			}
			synctest_wait()
			drain()
		}
		if !stopped {
			tk.Stop()
			r.emit(Ev{"ev": "stop"})
		}
		// no tick is sent after Stop: watch the channel for 10*d more
		for k := 0; k < 10*d && k < 400; k++ {
			time.Sleep(time.Millisecond)
			synctest_wait()
			drain()
		}
	})
}

// runStopRace: a ticker without jitter fires at k*d exactly. The harness sleeps until such an instant
// and calls Stop at once - no quiescence in between, so Stop and the timer's callback race - then
// watches the channel for 10*d.
func runStopRace(t *testing.T, d, k int) ([]Ev, bool, string) {
	return bubble(t, func(r *Run) {
		tk := xtime.NewJitterTicker(time.Duration(d)*time.Millisecond, 0)
		r.emit(Ev{"ev": "new", "d": d, "j": 0, "panic": 0})
		drain := func() {
			for {
				select {
				case ts := <-tk.C:
					r.emit(Ev{"ev": "tick", "ts": ts.Sub(r.t0).Milliseconds()})
				default:
					return
				}
			}
		}
		for i := 1; i < k; i++ {
			time.Sleep(time.Duration(d) * time.Millisecond)
			synctest_wait()
			drain()
		}
		time.Sleep(time.Duration(d) * time.Millisecond)
		tk.Stop()
		r.emit(Ev{"ev": "stop"})
		synctest_wait()
		drain()
		for i := 0; i < 10*d; i++ {
			time.Sleep(time.Millisecond)
			synctest_wait()
			drain()
		}
	})
}

// runResetRace: like runStopRace, but Reset is called at a firing instant (the timer's callback is already on its way):
// after the Reset only the new period counts - a tick of the old timer must not slip in.
func runResetRace(t *testing.T, d, k, d2 int) ([]Ev, bool, string) {
	return bubble(t, func(r *Run) {
		tk := xtime.NewJitterTicker(time.Duration(d)*time.Millisecond, 0)
		r.emit(Ev{"ev": "new", "d": d, "j": 0, "panic": 0})
		drain := func() {
			for {
				select {
				case ts := <-tk.C:
					r.emit(Ev{"ev": "tick", "ts": ts.Sub(r.t0).Milliseconds()})
				default:
					return
				}
			}
		}
		for i := 1; i < k; i++ {
			time.Sleep(time.Duration(d) * time.Millisecond)
			synctest_wait()
			drain()
		}
		time.Sleep(time.Duration(d) * time.Millisecond)
		tk.Reset(time.Duration(d2)*time.Millisecond, 0)
		r.emit(Ev{"ev": "jreset", "d": d2, "j": 0, "panic": 0})
		synctest_wait()
		drain()
		for i := 0; i < 4*d2; i++ {
			time.Sleep(time.Millisecond)
			synctest_wait()
			drain()
		}
		tk.Stop()
		r.emit(Ev{"ev": "stop"})
		synctest_wait()
		drain()
	})
}

func TestXTime(t *testing.T) {
	rng := seededRand()
	w := newTraceWriter(envStr("VH_OUT", "/tmp/xtime.ndjson"))
	n := envInt("VH_N", 60)
	runs, leaks := 0, 0
	put := func(evs []Ev, leak bool, msg string) {
		// objects the library may keep in a sync.Pool (timers) must not travel from one bubble into the next:
		// two collections empty every pool
		runtime.GC()
		runtime.GC()
		if leak {
			leaks++
		}
		writeRuns(w, &runs, evs, leak, msg, Ev{})
	}
	// SleepContext: every combination of duration x deadline position x cancellation moment
	const hour = 600 * 1000 * 1000                              // "long": 10 min in microseconds (TLC integers are 32 bit)
	for _, d := range []int{-5, 0, 1, 100, 1000, 20000, hour} { // microseconds
		dls := []int{-1, 0, 1, d / 2, d - 100, d - 1, d, d + 1, d + 350, 2 * d, 2 * hour}
		for _, dl := range dls {
			if dl < -1 {
				continue
			}
			for _, c := range []int{-1, 0, 1, d / 2, d - 1, d, d + 5} {
				if c < -1 || c > 3*hour {
					continue
				}
				put(runSleep(t, d, dl, c))
			}
		}
	}
	for kind := 0; kind <= 4; kind++ {
		put(runSleepExtreme(t, kind))
	}
	// Stop exactly at a firing instant (jitter 0 makes the instants known): Stop races the timer's callback
	for i := 0; i < envInt("VH_STOPRACE", 200); i++ {
		d := []int{2, 5, 10}[i%3]
		k := 1 + i%3 // stop at the k-th firing instant
		put(runStopRace(t, d, k))
	}
	for i := 0; i < envInt("VH_STOPRACE", 200); i++ {
		d := []int{2, 5, 10}[i%3]
		put(runResetRace(t, d, 1+i%3, []int{3, 7, 10}[(i/3)%3]))
	}
	// JitterTicker: (d, jitter) incl. jitter = 0, Reset and Stop at every phase relative to a firing timer
	pairs := [][2]int{{2, 0}, {2, 1}, {3, 2}, {10, 0}, {10, 3}, {10, 9}, {50, 25}}
	for i := 0; i < n; i++ {
		pr := pairs[i%len(pairs)]
		var steps []jtStep
		for k := 0; k < 2+rng.Intn(6); k++ {
			switch c := rng.Intn(100); {
			case c < 55:
				steps = append(steps, jtStep{A: "adv", D: 1 + rng.Intn(3*pr[0])})
			case c < 80:
				q := pairs[rng.Intn(len(pairs))]
				steps = append(steps, jtStep{A: "reset", D: q[0], J: q[1]})
			default:
				steps = append(steps, jtStep{A: "stop"})
			}
		}
		put(runTicker(t, pr[0], pr[1], steps))
	}
	// directed: a Reset right after a tick, for every ordered pair of settings (the first period after the Reset
	// must already obey the new d and jitter); the draws are random, so each pair is repeated
	for _, a := range pairs {
		for _, b := range pairs {
			for rep := 0; rep < envInt("VH_RESETREPS", 6); rep++ {
				put(runTicker(t, a[0], a[1], []jtStep{{A: "adv", D: a[0] + a[1]}, {A: "reset", D: b[0], J: b[1]}, {A: "adv", D: 3 * b[0]},
					{A: "reset", D: a[0], J: a[1]}, {A: "adv", D: 2 * a[0]}}))
			}
		}
	}
	w.close()
	report(Ev{"engine": "bubble", "subject": "xtime", "runs": runs, "events": w.n, "leaks": leaks})
}
