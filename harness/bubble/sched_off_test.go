//go:build !verifsched

package bubble

func schedEnable(seed uint64)   {}
func schedDisable()             {}
func schedStats() (p, y uint64) { return 0, 0 }
