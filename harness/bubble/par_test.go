package bubble

import (
	"context"
	"fmt"
	"math/rand"
	"os"
	"runtime"
	"sync"
	"testing"
	"time"

	"github.com/bradenaw/juniper/parallel"
)

type parErr struct{ id int }

func (e *parErr) Error() string { return fmt.Sprintf("call error %d", e.id) }

type parScen struct {
	Variant   string
	N, P      int
	Fail      map[int]bool
	Order     []int // release order of the gated calls (indices); -1 = cancel the caller's context
	PreCancel bool
	Canc      map[int]bool // failing calls whose own error is context.Canceled itself (not the group's cancellation)
	Deadline  bool         // the caller's context ends by its deadline (DeadlineExceeded) instead of being cancelled
	Burst     bool         // the releases follow each other without a quiescence point in between (the calls finish concurrently)
}

func genPar(rng *rand.Rand) parScen {
	s := parScen{Variant: []string{"Do", "DoContext", "Map", "MapContext"}[rng.Intn(4)], Fail: map[int]bool{}}
	s.N = []int{0, 1, 2, 3, 5, 9}[rng.Intn(6)]
	s.P = []int{-1, 0, 1, 2, 3, 12}[rng.Intn(6)]
	if rng.Intn(7) == 0 { // n >> parallelism (work handed out in more than a few rounds)
		s.N = []int{33, 64, 65, 100, 129}[rng.Intn(5)]
		s.P = []int{1, 2, 3}[rng.Intn(3)]
	}
	if s.Variant == "DoContext" || s.Variant == "MapContext" {
		for i := 0; i < s.N; i++ {
			if rng.Intn(5) == 0 {
				s.Fail[i] = true
				if rng.Intn(4) == 0 {
					if s.Canc == nil {
						s.Canc = map[int]bool{}
					}
					s.Canc[i] = true
				}
			}
		}
		s.PreCancel = rng.Intn(10) == 0
	}
	s.Order = rng.Perm(s.N)
	s.Burst = rng.Intn(4) == 0
	s.Deadline = rng.Intn(4) == 0
	if (s.Variant == "DoContext" || s.Variant == "MapContext") && rng.Intn(4) == 0 && s.N > 0 {
		k := rng.Intn(len(s.Order) + 1)
		s.Order = append(s.Order[:k:k], append([]int{-1}, s.Order[k:]...)...)
	}
	return s
}

func runPar(t *testing.T, s parScen) ([]Ev, bool, string) {
	return bubble(t, func(r *Run) {
		gates := make([]chan struct{}, s.N)
		for i := range gates {
			gates[i] = make(chan struct{})
		}
		var relMu sync.Mutex
		released := make([]bool, s.N)
		release := func(i int) {
			relMu.Lock()
			defer relMu.Unlock()
			if !released[i] {
				released[i] = true
				close(gates[i])
			}
		}
		slots := make([]int, s.N) // plain memory written by f, read by the caller after return (barrier / visibility)
		body := func(ctx context.Context, i int) error {
			c := 0
			if ctx != nil && ctx.Err() != nil {
				c = 1
			}
			r.emit(Ev{"ev": "begin", "i": i, "cancelled": c})
			<-gates[i]
			slots[i] = 1000 + i
			var err error
			e := 0
			if s.Fail[i] {
				err = &parErr{100 + i}
				e = 100 + i
				if s.Canc[i] {
					err, e = context.Canceled, -1
				}
			}
			ce := 0
			if ctx != nil && ctx.Err() != nil {
				ce = 1
			}
			r.emit(Ev{"ev": "end", "i": i, "err": e, "cend": ce})
			return err
		}
		ctx := r.Ctx(1)
		endCaller := func() { r.Cancel(1) }
		if s.Deadline { // a deadline context: "cancel" = the (fake) clock passes the deadline
			dctx, dcancel := context.WithDeadline(context.Background(), time.Now().Add(time.Hour))
			defer dcancel()
			ctx = dctx
			endCaller = func() {
				r.emit(Ev{"ev": "cancel", "ctx": 1})
				time.Sleep(time.Hour + time.Second)
			}
		}
		if s.PreCancel {
			endCaller()
		}
		errID := func(err error) int {
			if err == nil {
				return 0
			}
			if pe, ok := err.(*parErr); ok {
				return pe.id
			}
			if err == context.Canceled {
				return -1
			}
			if err == context.DeadlineExceeded {
				return -2
			}
			return -99
		}
		go func() {
			res := Ev{"ev": "ret", "err": 0, "out": []int{}, "panic": 0}
			func() {
				defer func() {
					if p := recover(); p != nil {
						res["panic"] = 1
					}
				}()
				in := make([]int, s.N)
				for i := range in {
					in[i] = i
				}
				switch s.Variant {
				case "Do":
					parallel.Do(s.P, s.N, func(i int) { body(nil, i) })
				case "DoContext":
					res["err"] = errID(parallel.DoContext(ctx, s.P, s.N, body))
				case "Map":
					res["out"] = parallel.Map(s.P, in, func(i int) int { body(nil, i); return 1000 + i })
				case "MapContext":
					out, err := parallel.MapContext(ctx, s.P, in, func(ctx context.Context, i int) (int, error) {
						if err := body(ctx, i); err != nil {
							return 0, err
						}
						return 1000 + i, nil
					})
					res["err"] = errID(err)
					if out != nil {
						res["out"] = out
					}
				}
				// the barrier: every effect of every finished call is visible now
				if res["err"] == 0 {
					for i := range slots {
						if slots[i] != 1000+i {
							res["err"] = -98
						}
					}
				}
			}()
			r.emit(res)
		}()
		synctest_wait()
		r.emit(Ev{"ev": "q"})
		for _, i := range s.Order {
			if i < 0 {
				endCaller()
			} else {
				r.emit(Ev{"ev": "rel", "i": i})
				release(i)
			}
			if s.Burst {
				continue
			}
			synctest_wait()
			r.emit(Ev{"ev": "q"})
		}
		for i := 0; i < s.N; i++ {
			release(i)
		}
		synctest_wait()
		r.emit(Ev{"ev": "q"})
	})
}

func TestPar(t *testing.T) {
	rng := seededRand()
	w := newTraceWriter(envStr("VH_OUT", "/tmp/par.ndjson"))
	n := envInt("VH_N", 100)
	runs, leaks := 0, 0
	if f := os.Getenv("VH_SCHED"); f != "" { // release / cancel orders generated by TLC from ParEnv.tla x headers
		var scheds []parScen
		readJSON(t, f, &scheds)
		for _, s := range scheds {
			if s.Fail == nil {
				s.Fail = map[int]bool{}
			}
			for rep := 0; rep < envInt("VH_REPS", 1); rep++ {
				evs, leak, msg := runPar(t, s)
				if leak {
					leaks++
				}
				writeRuns(w, &runs, evs, leak, msg, Ev{"variant": s.Variant, "n": s.N, "p": s.P, "gmp": runtime.GOMAXPROCS(-1), "deadline": b2i(s.Deadline)})
			}
		}
		w.close()
		report(Ev{"engine": "bubble", "subject": "par", "runs": runs, "events": w.n, "leaks": leaks, "source": "tlc-schedules"})
		return
	}
	for i := 0; i < n; i++ {
		s := genPar(rng)
		evs, leak, msg := runPar(t, s)
		if leak {
			leaks++
		}
		writeRuns(w, &runs, evs, leak, msg, Ev{"variant": s.Variant, "n": s.N, "p": s.P, "gmp": runtime.GOMAXPROCS(-1), "deadline": b2i(s.Deadline)})
	}
	w.close()
	report(Ev{"engine": "bubble", "subject": "par", "runs": runs, "events": w.n, "leaks": leaks})
}

func b2i(b bool) int {
	if b {
		return 1
	}
	return 0
}
