package bubble

import (
	"context"
	"runtime"
	"testing"

	"github.com/bradenaw/juniper/stream"
)

// TestChanShare: several stream.Chan streams over one buffered channel are read concurrently (a work queue); values are
// sent and the channel is closed while receivers wait or are on their way. Judged by Trace_ChanShare.
func TestChanShare(t *testing.T) {
	rng := seededRand()
	w := newTraceWriter(envStr("VH_OUT", "/tmp/chanshare.ndjson"))
	n := envInt("VH_N", 100)
	runs, leaks := 0, 0
	for i := 0; i < n; i++ {
		capc, nr := 1+i%3, 2+i%2
		plan := make([]int, 6+rng.Intn(10))
		for j := range plan {
			plan[j] = rng.Intn(100)
		}
		evs, leak, msg := bubble(t, func(r *Run) {
			c := make(chan int, capc)
			sts := make([]stream.Stream[int], nr)
			last := make([]int, nr)
			for j := range sts {
				sts[j] = stream.Chan(c)
			}
			busy := func(j int) bool {
				r.mu.Lock()
				defer r.mu.Unlock()
				return r.pending[last[j]]
			}
			next, closed := 0, false
			for _, p := range plan {
				switch {
				case p < 35 && !closed: // send if there is room
					// only the harness sends: if there is room now there is room when the send happens. The send record is
					// written first - a waiting receiver may log its result before this goroutine runs again.
					if len(c) < cap(c) {
						next++
						r.emit(Ev{"ev": "send", "v": next})
						c <- next
					}
				case p < 85: // one receiver, or all idle receivers at once, call Next
					js := []int{p % nr}
					if p%5 == 0 {
						js = js[:0]
						for j := 0; j < nr; j++ {
							js = append(js, j)
						}
					}
					for _, j := range js {
						if busy(j) {
							continue
						}
						st := sts[j]
						last[j] = r.Go("Next", Ev{"s": j}, func() Ev {
							v, err := st.Next(context.Background())
							if err == stream.End {
								return Ev{"k": "end", "v": 0}
							} else if err != nil {
								return Ev{"k": "err", "v": 0}
							}
							return Ev{"k": "val", "v": v}
						})
					}
					if p%3 == 0 { // something else happens before the receivers have settled
						for y := 0; y < 1+p%4; y++ {
							runtime.Gosched()
						}
						continue
					}
				case p < 92 && !closed:
					closed = true
					r.emit(Ev{"ev": "closech"})
					close(c)
				}
				r.Quiesce()
			}
			if !closed {
				r.emit(Ev{"ev": "closech"})
				close(c)
			}
			r.Quiesce()
			// every receiver reads to the end
			for round := 0; round < capc+2; round++ {
				for j := 0; j < nr; j++ {
					if busy(j) {
						continue
					}
					st := sts[j]
					last[j] = r.Go("Next", Ev{"s": j}, func() Ev {
						v, err := st.Next(context.Background())
						if err == stream.End {
							return Ev{"k": "end", "v": 0}
						} else if err != nil {
							return Ev{"k": "err", "v": 0}
						}
						return Ev{"k": "val", "v": v}
					})
				}
				r.Quiesce()
			}
		})
		if leak {
			leaks++
		}
		writeRuns(w, &runs, evs, leak, msg, Ev{})
	}
	w.close()
	report(Ev{"engine": "bubble", "subject": "chanshare", "runs": runs, "events": w.n, "leaks": leaks})
}
