// Package bubble runs concurrent scenarios against the library inside testing/synctest bubbles
// (fake clock, exact quiescence) and records call/ret/quiesce events for TLC trace validation.
package bubble

import (
	"bufio"
	"context"
	"encoding/json"
	"fmt"
	"math/rand"
	"os"
	"runtime"
	"strconv"
	"sync"
	"testing"
	"testing/synctest"
	"time"
)

func envInt(name string, def int) int {
	if v, err := strconv.Atoi(os.Getenv(name)); err == nil {
		return v
	}
	return def
}

func envStr(name, def string) string {
	if v := os.Getenv(name); v != "" {
		return v
	}
	return def
}

type Ev = map[string]any

// Run records one scenario execution.
type Run struct {
	mu      sync.Mutex
	evs     []Ev
	nextID  int
	pending map[int]bool
	t0      time.Time
	ctxs    map[int]context.CancelFunc
	ctxv    map[int]context.Context
}

func newRun() *Run {
	return &Run{pending: map[int]bool{}, t0: time.Now(), ctxs: map[int]context.CancelFunc{}, ctxv: map[int]context.Context{}}
}

func (r *Run) now() int64 { return int64(time.Since(r.t0) / time.Millisecond) }

func (r *Run) emit(e Ev) {
	r.mu.Lock()
	defer r.mu.Unlock()
	e["t"] = r.now()
	r.evs = append(r.evs, e)
}

// Ctx returns context number id (0 = background), created on first use inside the bubble.
func (r *Run) Ctx(id int) context.Context {
	if id == 0 {
		return context.Background()
	}
	r.mu.Lock()
	defer r.mu.Unlock()
	if c, ok := r.ctxv[id]; ok {
		return c
	}
	c, cancel := context.WithCancel(context.Background())
	r.ctxv[id], r.ctxs[id] = c, cancel
	return c
}

// Cancel cancels context id and records it.
func (r *Run) Cancel(id int) {
	r.Ctx(id)
	r.emit(Ev{"ev": "cancel", "ctx": id})
	r.mu.Lock()
	c := r.ctxs[id]
	r.mu.Unlock()
	c()
}

// Go starts a library call in its own goroutine: the call record is written before the call
// starts and the ret record after it returned (the logged interval contains the real one).
// f returns the result fields; a panic of the library is the result {"k":"panic"}.
func (r *Run) Go(op string, fields Ev, f func() Ev) int {
	r.mu.Lock()
	r.nextID++
	id := r.nextID
	r.pending[id] = true
	e := Ev{"ev": "call", "id": id, "op": op, "t": r.now()}
	for k, v := range fields {
		e[k] = v
	}
	r.evs = append(r.evs, e)
	r.mu.Unlock()
	go func() {
		var res Ev
		func() {
			defer func() {
				if p := recover(); p != nil {
					res = Ev{"k": "panic", "msg": fmt.Sprint(p)}
				}
			}()
			res = f()
		}()
		r.mu.Lock()
		delete(r.pending, id)
		r.evs = append(r.evs, Ev{"ev": "ret", "id": id, "op": op, "res": res, "t": r.now()})
		r.mu.Unlock()
	}()
	return id
}

// Call runs a library call in the calling goroutine (which must not be the scenario driver): call record, the
// call, ret record. Used by consumers that issue several calls back to back without waiting for quiescence.
func (r *Run) Call(op string, fields Ev, f func() Ev) Ev {
	r.mu.Lock()
	r.nextID++
	id := r.nextID
	r.pending[id] = true
	e := Ev{"ev": "call", "id": id, "op": op, "t": r.now()}
	for k, v := range fields {
		e[k] = v
	}
	r.evs = append(r.evs, e)
	r.mu.Unlock()
	var res Ev
	func() {
		defer func() {
			if p := recover(); p != nil {
				res = Ev{"k": "panic", "msg": fmt.Sprint(p)}
			}
		}()
		res = f()
	}()
	r.mu.Lock()
	delete(r.pending, id)
	r.evs = append(r.evs, Ev{"ev": "ret", "id": id, "op": op, "res": res, "t": r.now()})
	r.mu.Unlock()
	return res
}

// Quiesce waits until every goroutine of the bubble is durably blocked and records which calls
// have not returned.
func (r *Run) Quiesce() []int {
	synctest.Wait()
	r.mu.Lock()
	defer r.mu.Unlock()
	pend := []int{}
	for id := range r.pending {
		pend = append(pend, id)
	}
	sortInts(pend)
	r.evs = append(r.evs, Ev{"ev": "q", "pend": pend, "t": r.now()})
	return pend
}

func sortInts(a []int) {
	for i := 1; i < len(a); i++ {
		for j := i; j > 0 && a[j-1] > a[j]; j-- {
			a[j-1], a[j] = a[j], a[j-1]
		}
	}
}

// finish annotates every call record with the result the call eventually returned ("prophecy":
// a fact of the execution that lets the trace spec linearise without guessing) and returns the events.
func (r *Run) finish() []Ev {
	r.mu.Lock()
	defer r.mu.Unlock()
	res := map[int]any{}
	for _, e := range r.evs {
		if id, ok := e["id"].(int); ok && e["ev"] == "ret" {
			res[id] = e["res"]
		}
	}
	for _, e := range r.evs {
		if id, isCall := e["id"].(int); isCall && e["ev"] == "call" {
			if v, ok := res[id]; ok {
				e["res"] = v
			} else {
				e["res"] = Ev{"k": "none"}
			}
		}
	}
	return r.evs
}

// bubble runs body inside a synctest bubble. A bubble that cannot end (goroutines left blocked
// after the epilogue) is reported through leak = true instead of failing the test binary.
func bubble(t *testing.T, body func(r *Run)) (evs []Ev, leak bool, msg string) {
	var r *Run
	// watchdog on the real clock, outside the bubble: a bubble that does not end (a goroutine blocked on a sync.Mutex is
	// not "durably blocked", so neither synctest.Wait nor the deadlock detector ever fire) is dumped and the process ends
	// with a marker; the check decides from the dump whether library code is what is stuck.
	done := make(chan struct{})
	defer close(done)
	go func() {
		select {
		case <-done:
		case <-time.After(time.Duration(envInt("VH_BUBBLE_TIMEOUT", 90)) * time.Second):
			buf := make([]byte, 1<<20)
			n := runtime.Stack(buf, true)
			fmt.Fprintf(os.Stderr, "\nBUBBLE-STUCK: a bubble did not end within its real-time limit\n%s\n", buf[:n])
			os.Exit(3)
		}
	}()
	func() {
		defer func() {
			if p := recover(); p != nil {
				leak, msg = true, fmt.Sprint(p)
				if r == nil { // the bubble never started (e.g. synctest refuses the GODEBUG setting): not a result
					panic(fmt.Sprintf("bubble did not start: %v", p))
				}
			}
		}()
		synctest.Test(t, func(t *testing.T) {
			r = newRun()
			if envInt("VH_PERTURB", 0) > 0 { // instrumented build: seeded schedule perturbation, a fresh seed per run
				bubbleCount++
				schedEnable(uint64(envInt("VERIF_SEED", 1))*1000003 + bubbleCount)
				defer schedDisable()
			}
			body(r)
		})
	}()
	if r == nil {
		return nil, leak, msg
	}
	return r.finish(), leak, msg
}

type traceWriter struct {
	f *os.File
	w *bufio.Writer
	n int
}

func newTraceWriter(path string) *traceWriter {
	f, err := os.Create(path)
	if err != nil {
		panic(err)
	}
	return &traceWriter{f: f, w: bufio.NewWriterSize(f, 1<<20)}
}

func (w *traceWriter) put(e Ev) {
	b, err := json.Marshal(e)
	if err != nil {
		panic(err)
	}
	w.w.Write(b)
	w.w.WriteByte('\n')
	w.n++
}

func (w *traceWriter) close() { w.w.Flush(); w.f.Close() }

func seededRand() *rand.Rand { return rand.New(rand.NewSource(int64(envInt("VERIF_SEED", 1)))) }

// readJSON loads a schedule file written by the checks (TLC-generated behaviours of an environment model).
func readJSON(t *testing.T, path string, v any) {
	b, err := os.ReadFile(path)
	if err != nil {
		t.Fatal(err)
	}
	if err := json.Unmarshal(b, v); err != nil {
		t.Fatal(err)
	}
}

var bubbleCount uint64

func report(v Ev) {
	if p, y := schedStats(); p > 0 {
		v["yield_points_passed"], v["yields"] = p, y
	}
	b, _ := json.Marshal(v)
	fmt.Printf("REPORT %s\n", b)
}

func synctest_wait() { synctest.Wait() }
