package comb

import (
	"bufio"
	"encoding/json"
	"math/rand"
	"os"
)

func seqs(vals, maxLen int) [][]int {
	out := [][]int{{}}
	level := [][]int{{}}
	for l := 1; l <= maxLen; l++ {
		var next [][]int
		for _, s := range level {
			for v := 1; v <= vals; v++ {
				next = append(next, append(append([]int{}, s...), v))
			}
		}
		out = append(out, next...)
		level = next
	}
	return out
}

func script(items []int) []Step {
	out := make([]Step, 0, len(items)+1)
	for _, v := range items {
		out = append(out, Step{StItem, v})
	}
	return append(out, Step{StEnd, 0})
}

// withFault inserts a fault step before item index pos (0..len).
func withFault(sc []Step, pos, kind int) []Step {
	out := append([]Step{}, sc[:pos]...)
	out = append(out, Step{kind, 0})
	return append(out, sc[pos:]...)
}

var predTables = [][]int{{0, 0, 0}, {0, 0, 1}, {0, 1, 0}, {0, 1, 1}, {1, 0, 0}, {1, 0, 1}, {1, 1, 0}, {1, 1, 1}}
var keyTables = [][]int{{1, 1, 1}, {1, 1, 2}, {1, 2, 1}, {1, 2, 2}, {1, 2, 3}}

func paramsFor(usesN, usesPred, usesKey bool, nMin, nMax int) []Params {
	ps := []Params{{Pred: predTables[7], Key: keyTables[4]}}
	if usesN {
		ps = nil
		for n := nMin; n <= nMax; n++ {
			ps = append(ps, Params{N: n, Pred: predTables[7], Key: keyTables[4]})
		}
	}
	if usesPred {
		var out []Params
		for _, p := range ps {
			for _, t := range predTables {
				q := p
				q.Pred = t
				out = append(out, q)
			}
		}
		ps = out
	}
	if usesKey {
		var out []Params
		for _, p := range ps {
			for _, t := range keyTables {
				q := p
				q.Key = t
				out = append(out, q)
			}
		}
		ps = out
	}
	return ps
}

// inputsFor returns the source scripts (fault-free) for a combinator.
func inputsFor(multi bool, maxLen int) [][][]Step {
	var out [][][]Step
	if !multi {
		for _, s := range seqs(3, maxLen) {
			out = append(out, [][]Step{script(s)})
		}
		return out
	}
	subs := seqs(3, 2)
	if maxLen < 4 {
		subs = seqs(2, 2)
	}
	out = append(out, [][]Step{})
	for _, a := range subs {
		out = append(out, [][]Step{script(a)})
		for _, b := range subs {
			out = append(out, [][]Step{script(a), script(b)})
			for _, c := range subs {
				if len(a)+len(b)+len(c) <= maxLen+1 {
					out = append(out, [][]Step{script(a), script(b), script(c)})
				}
			}
		}
	}
	return out
}

type Writer struct {
	f      *os.File
	w      *bufio.Writer
	N      int
	ByComb map[string]int
}

func NewWriter(path string) (*Writer, error) {
	f, err := os.Create(path)
	if err != nil {
		return nil, err
	}
	return &Writer{f: f, w: bufio.NewWriterSize(f, 1<<20), ByComb: map[string]int{}}, nil
}
func (w *Writer) Put(s Session) {
	b, err := json.Marshal(s)
	if err != nil {
		panic(err)
	}
	w.w.Write(b)
	w.w.WriteByte('\n')
	w.N++
	w.ByComb[s.Fam+"."+s.Comb]++
}
func (w *Writer) Close() error {
	if err := w.w.Flush(); err != nil {
		return err
	}
	return w.f.Close()
}

// GenFaultFree (C07): every combinator and reducer x every input up to maxLen x every parameter,
// in the iterator, stream and xslices families.
func GenFaultFree(w *Writer, maxLen int) {
	genFaultFree(w, maxLen)
	// once more with every item value lowered by one inside the library (the zero value of the item type is an item):
	// value-agnostic operations only, inputs one shorter
	ValShift = 1
	genFaultFree(w, maxLen-1)
	ValShift = 0
}

func genFaultFree(w *Writer, maxLen int) {
	for _, c := range Combs() {
		if ValShift != 0 && !Shiftable(c.Name) {
			continue
		}
		ins := inputsFor(c.Multi, maxLen)
		nMin := c.NMin
		if c.Name == "First" {
			nMin = -1
		}
		for _, p := range paramsFor(c.UsesN, c.UsesPred, c.UsesKey, nMin, maxLen+1) {
			for _, in := range ins {
				if c.I != nil {
					w.Put(RunIter(c, p, in))
				}
				if c.S != nil {
					w.Put(RunStream(c, p, in, nil, -1))
				}
				if c.L != nil {
					w.Put(RunSlice(c, p, in))
				}
			}
		}
	}
	for _, r := range Reducers() {
		if r.Name == "SampleStream" || (ValShift != 0 && !Shiftable(r.Name)) {
			continue
		}
		ins := inputsFor(r.Multi, maxLen)
		for _, p := range paramsFor(r.UsesN, false, false, 0, maxLen+1) {
			for _, in := range ins {
				if r.I != nil {
					w.Put(RunReduceIter(r, p, in))
				}
				if r.S != nil {
					w.Put(RunReduceStream(r, p, in, false))
				}
			}
		}
	}
}

// faultScripts: every single fault (transient / permanent) at every position of every source,
// and pairs of faults (transient then transient / permanent).
func faultScripts(in [][]Step) [][][]Step {
	var out [][][]Step
	for si := range in {
		n := len(in[si]) - 1 // items
		for pos := 0; pos <= n; pos++ {
			for _, kind := range []int{StTran, StFail} {
				v := append([][]Step{}, in...)
				v[si] = withFault(in[si], pos, kind)
				out = append(out, v)
				if kind == StTran {
					for pos2 := pos + 1; pos2 <= n+1; pos2++ {
						for _, kind2 := range []int{StTran, StFail} {
							v2 := append([][]Step{}, in...)
							v2[si] = withFault(v[si], pos2, kind2)
							out = append(out, v2)
						}
					}
				}
			}
		}
	}
	return out
}

var ctxPatterns = [][]bool{nil, {true}, {false, true}, {false, false, true}, {true, true}, {false, true, false, true}, {true, false, true}}

// GenFaults (C08, C09): stream family with source faults, callback failures, expired contexts
// and every stopping point. The product space is sampled with probability keep (1 = exhaustive).
func GenFaults(w *Writer, maxLen int, rng *rand.Rand, keep float64) {
	genFaults(w, maxLen, rng, keep)
	// a sample once more with shifted item values (the zero value of the item type is an item), short inputs
	ValShift = 1
	ml := maxLen
	if ml > 2 {
		ml = 2
	}
	genFaults(w, ml, rng, keep*0.3)
	ValShift = 0
}

func genFaults(w *Writer, maxLen int, rng *rand.Rand, keep float64) {
	take := func() bool { return keep >= 1 || rng.Float64() < keep }
	for _, c := range Combs() {
		if c.S == nil || (ValShift != 0 && !Shiftable(c.Name)) {
			continue
		}
		ins := inputsFor(c.Multi, maxLen)
		nMin := c.NMin
		for _, p := range paramsFor(c.UsesN, c.UsesPred, c.UsesKey, nMin, maxLen) {
			for _, in := range ins {
				total := 0
				for _, s := range in {
					total += len(s) - 1
				}
				var scripts [][][]Step
				scripts = append(scripts, in)
				if c.Name != "FlattenSlices" && c.Name != "FromIterator" && c.Name != "Chan" && c.Name != "Empty" { // their sources are iterators: no faults
					scripts = append(scripts, faultScripts(in)...)
				}
				for _, sc := range scripts {
					for _, pat := range ctxPatterns {
						for stop := -1; stop <= total; stop++ {
							if take() {
								w.Put(RunStream(c, p, sc, pat, stop))
							}
							// the context ends during the call (inside the source) instead of before it
							if anyTrue(pat) && c.Name != "Chan" && take() { // (Chan's source is read by a pump goroutine)
								MidCall = pat
								SrcIgnoreCtx = true
								w.Put(RunStream(c, p, sc, nil, stop))
								SrcIgnoreCtx = false
								MidCall = nil
							}
							// the same with sources that do not look at the context they are given
							if anyTrue(pat) && take() {
								SrcIgnoreCtx = true
								w.Put(RunStream(c, p, sc, pat, stop))
								SrcIgnoreCtx = false
							}
						}
					}
				}
				if c.HasCb {
					for cbf := 1; cbf <= total; cbf++ {
						q := p
						q.CbFail = cbf
						if take() {
							w.Put(RunStream(c, q, in, nil, -1))
						}
					}
				}
			}
		}
	}
	for _, r := range Reducers() {
		if r.S == nil || (ValShift != 0 && !Shiftable(r.Name)) {
			continue
		}
		ins := inputsFor(r.Multi, maxLen)
		for _, p := range paramsFor(r.UsesN, false, false, 0, maxLen+1) {
			for _, in := range ins {
				scripts := append([][][]Step{in}, faultScripts(in)...)
				for _, sc := range scripts {
					for _, exp := range []bool{false, true} {
						if take() {
							w.Put(RunReduceStream(r, p, sc, exp))
						}
					}
				}
				if r.HasCb {
					for cbf := 1; cbf <= len(in[0])-1; cbf++ {
						q := p
						q.CbFail = cbf
						w.Put(RunReduceStream(r, q, in, false))
					}
				}
			}
		}
	}
}

// GenRandom: longer random inputs (length <= 24 over 3 values) through every family.
func GenRandom(w *Writer, rng *rand.Rand, n int) {
	combs := Combs()
	for i := 0; i < n; i++ {
		c := combs[rng.Intn(len(combs))]
		ValShift = 0
		if i%3 == 2 && Shiftable(c.Name) {
			ValShift = 1
		}
		p := Params{N: rng.Intn(8), Pred: predTables[rng.Intn(8)], Key: keyTables[rng.Intn(5)]}
		if c.UsesN && p.N < c.NMin {
			p.N = c.NMin
		}
		if c.Name == "Counter" || c.Name == "Repeat" {
			p.N = rng.Intn(30) - 2
		}
		ns := 1
		if c.Multi {
			ns = rng.Intn(5)
		}
		in := make([][]Step, ns)
		for j := range in {
			l := rng.Intn(25)
			items := make([]int, l)
			for k := range items {
				items[k] = 1 + rng.Intn(3)
			}
			in[j] = script(items)
		}
		if c.I != nil {
			w.Put(RunIter(c, p, in))
		}
		if c.S != nil {
			w.Put(RunStream(c, p, in, nil, -1))
		}
		if c.L != nil {
			w.Put(RunSlice(c, p, in))
		}
	}
	ValShift = 0
	// the reducers over long inputs (their parameter up to 12: buffer arithmetic that depends on n and the length)
	reds := Reducers()
	for i := 0; i < n/2; i++ {
		r := reds[rng.Intn(len(reds))]
		if r.Name == "SampleStream" {
			continue
		}
		p := Params{N: rng.Intn(13), Pred: predTables[0], Key: keyTables[0]}
		ns := 1
		if r.Multi {
			ns = rng.Intn(4)
		}
		in := make([][]Step, ns)
		for j := range in {
			l := rng.Intn(30)
			items := make([]int, l)
			for k := range items {
				items[k] = 1 + rng.Intn(3)
			}
			in[j] = script(items)
		}
		if r.I != nil {
			w.Put(RunReduceIter(r, p, in))
		}
		if r.S != nil {
			w.Put(RunReduceStream(r, p, in, false))
		}
	}
}

func anyTrue(b []bool) bool {
	for _, x := range b {
		if x {
			return true
		}
	}
	return false
}
