package comb

import (
	"context"
	"math/rand"

	"github.com/bradenaw/juniper/iterator"
	"github.com/bradenaw/juniper/stream"
	"github.com/bradenaw/juniper/xmath/xrand"
)

// Call is one consumer Next with its outcome.
type Call struct {
	Ctx int   `json:"ctx"` // 1 = the context given to this call was already expired
	K   int   `json:"k"`   // 0 output, 1 End, 2 error, 3 panic
	E   int   `json:"e"`   // error id
	V   []int `json:"v"`   // the output (scalars are singletons)
	T   int   `json:"t"`   // source items taken so far (all sources)
}

type Ledger struct {
	Calls          int `json:"calls"`
	Closes         int `json:"closes"`
	NextAfterClose int `json:"nac"`
	Overlap        int `json:"overlap"`
}

// Session is one recorded scenario; field names are those read by spec/seq/Session.tla.
type Session struct {
	Op      string    `json:"op"` // "S"
	Fam     string    `json:"fam"`
	Comb    string    `json:"comb"`
	N       int       `json:"n"`
	Pred    []int     `json:"pred"`
	Key     []int     `json:"key"`
	CbFail  int       `json:"cbfail"`
	CbFired int       `json:"cbfired"`
	Script  [][][]int `json:"script"` // per source: steps [kind, val]
	Calls   []Call    `json:"calls"`
	Ret     *Call     `json:"ret,omitempty"` // reducers and xslices: the returned value
	Outs    [][]int   `json:"outs"`          // xslices: the whole result
	Closed  int       `json:"closed"`
	Ledger  []Ledger  `json:"ledger"`
	Panic   string    `json:"panic"`
}

// MidCall[i]: the context of consumer call i is live when the call starts and ends while the library is inside the source
// (the first source asked during that call cancels it). Recorded like an expired context: the call may fail with the
// context's error or deliver, and nothing may be lost either way.
var MidCall []bool

// SrcIgnoreCtx: the sources of the sessions recorded from now on do not look at their context
var SrcIgnoreCtx bool

func mkSrcs(script [][]Step) []*Src {
	out := make([]*Src, len(script))
	for i, s := range script {
		out[i] = &Src{Script: s, IgnoreCtx: SrcIgnoreCtx}
	}
	return out
}

func taken(src []*Src) int {
	t := 0
	for _, s := range src {
		t += s.Taken
	}
	return t
}

func ledgers(src []*Src) []Ledger {
	out := make([]Ledger, len(src))
	for i, s := range src {
		out[i] = Ledger{Calls: s.Calls, Closes: s.Closes, NextAfterClose: s.NextAfterClose}
		if s.Overlap {
			out[i].Overlap = 1
		}
	}
	return out
}

func scriptJSON(script [][]Step) [][][]int {
	out := make([][][]int, len(script))
	for i, s := range script {
		out[i] = make([][]int, len(s))
		for j, st := range s {
			out[i][j] = []int{st.Kind, st.Val}
		}
	}
	return out
}

func base(fam string, c Comb, p Params, script [][]Step) Session {
	return Session{Op: "S", Fam: fam, Comb: c.Name, N: p.N, Pred: p.Pred, Key: p.Key, CbFail: p.CbFail,
		Script: scriptJSON(script), Calls: []Call{}, Ledger: []Ledger{}, Outs: [][]int{}}
}

func try(f func()) (msg string) {
	defer func() {
		if r := recover(); r != nil {
			msg = "panic"
			if e, ok := r.(error); ok {
				msg = "panic: " + e.Error()
			} else if s, ok := r.(string); ok {
				msg = "panic: " + s
			}
		}
	}()
	f()
	return ""
}

// RunIter: fault-free iterator family; calls Next until End plus two more calls.
func RunIter(c Comb, p Params, script [][]Step) Session {
	s := base("iter", c, p, script)
	src := mkSrcs(script)
	s.Panic = try(func() {
		it := c.I(src, p)
		ends := 0
		for i := 0; i < 64 && ends < 3; i++ {
			v, ok := it.Next()
			if ok {
				s.Calls = append(s.Calls, Call{K: 0, V: unshift(v), T: taken(src)})
			} else {
				ends++
				s.Calls = append(s.Calls, Call{K: 1, V: []int{}, T: taken(src)})
			}
		}
	})
	s.Ledger = ledgers(src)
	return s
}

// RunSlice: xslices family.
func RunSlice(c Comb, p Params, script [][]Step) Session {
	s := base("slice", c, p, script)
	in := make([][]int, len(script))
	for i, sc := range script {
		in[i] = []int{}
		for _, st := range sc {
			if st.Kind == StItem {
				in[i] = append(in[i], st.Val-ValShift)
			}
		}
	}
	s.Panic = try(func() {
		out := c.L(in, p)
		s.Outs = [][]int{}
		for _, o := range out {
			s.Outs = append(s.Outs, unshift(append([]int{}, o...)))
		}
	})
	return s
}

// RunStream: stream family. expired[i] says whether consumer call i gets an expired context;
// the consumer stops after stopOuts outputs (-1: reads to the end), then calls Close.
func RunStream(c Comb, p Params, script [][]Step, expired []bool, stopOuts int) Session {
	s := base("stream", c, p, script)
	src := mkSrcs(script)
	p.Fired = &s.CbFired
	dead, cancel := context.WithCancel(context.Background())
	cancel()
	s.Panic = try(func() {
		st := c.S(src, p)
		outs, ends, perms := 0, 0, 0
		for i := 0; i < 40 && ends < 3 && perms < 2; i++ {
			if stopOuts >= 0 && outs >= stopOuts {
				break
			}
			ctx := context.Background()
			call := Call{V: []int{}}
			if i < len(expired) && expired[i] {
				ctx = dead
				call.Ctx = 1
			}
			if i < len(MidCall) && MidCall[i] {
				mc, mcancel := context.WithCancel(context.Background())
				for _, sr := range src {
					sr.OnCall = mcancel
				}
				ctx = mc
				call.Ctx = 1
				defer mcancel()
			}
			v, err := st.Next(ctx)
			for _, sr := range src {
				sr.OnCall = nil
			}
			switch {
			case err == nil:
				call.K, call.V = 0, unshift(v)
				outs++
			case err == stream.End:
				call.K = 1
				ends++
			default:
				call.K, call.E = 2, ErrID(err)
				if call.E == EPerm {
					perms++
				}
			}
			call.T = taken(src)
			s.Calls = append(s.Calls, call)
			if call.E == ECb || call.E == EOther {
				break // callback failures are permanent: the session ends here
			}
		}
		st.Close()
		s.Closed = 1
	})
	s.Ledger = ledgers(src)
	return s
}

// Reducer describes a consuming function.
type Reducer struct {
	Name  string
	UsesN bool
	Multi bool
	HasCb bool
	I     func(src []*Src, p Params) []int                               // iterator version (nil if none)
	S     func(ctx context.Context, src []*Src, p Params) ([]int, error) // stream version
}

func Reducers() []Reducer {
	return []Reducer{
		{Name: "Collect",
			I: func(s []*Src, p Params) []int { return append([]int{}, iterator.Collect(s[0].Iter())...) },
			S: func(ctx context.Context, s []*Src, p Params) ([]int, error) {
				out, err := stream.Collect[int](ctx, s[0])
				return append([]int{}, out...), err
			}},
		{Name: "Last", UsesN: true,
			I: func(s []*Src, p Params) []int { return append([]int{}, iterator.Last(s[0].Iter(), p.N)...) },
			S: func(ctx context.Context, s []*Src, p Params) ([]int, error) {
				out, err := stream.Last[int](ctx, s[0], p.N)
				return append([]int{}, out...), err
			}},
		{Name: "One",
			I: func(s []*Src, p Params) []int {
				x, ok := iterator.One(s[0].Iter())
				if !ok {
					return []int{}
				}
				return []int{x}
			},
			S: func(ctx context.Context, s []*Src, p Params) ([]int, error) {
				x, err := stream.One[int](ctx, s[0])
				if err != nil {
					return []int{}, err
				}
				return []int{x}, nil
			}},
		{Name: "Reduce", HasCb: true,
			I: func(s []*Src, p Params) []int {
				return []int{iterator.Reduce(s[0].Iter(), 100, func(a, x int) int { return a + x })}
			},
			S: func(ctx context.Context, s []*Src, p Params) ([]int, error) {
				c := &cb{p: p}
				x, err := stream.Reduce[int, int](ctx, s[0], 100, func(a, x int) (int, error) {
					if err := c.fail(); err != nil {
						return a, err
					}
					return a + x, nil
				})
				if err != nil {
					return []int{}, err
				}
				return []int{x}, nil
			}},
		{Name: "Equal", Multi: true,
			I: func(s []*Src, p Params) []int {
				if iterator.Equal(srcsI(s)...) {
					return []int{1}
				}
				return []int{0}
			}},
		{Name: "SampleStream", UsesN: true, // xrand.SampleStream: only ownership and membership are judged here
			S: func(ctx context.Context, s []*Src, p Params) ([]int, error) {
				out, err := xrand.RSampleStream[int](ctx, rand.New(rand.NewSource(7)), s[0], p.N)
				return append([]int{}, out...), err
			}},
	}
}

func RunReduceIter(r Reducer, p Params, script [][]Step) Session {
	s := Session{Op: "S", Fam: "iter", Comb: r.Name, N: p.N, Pred: p.Pred, Key: p.Key, CbFail: p.CbFail, Script: scriptJSON(script), Calls: []Call{}, Outs: [][]int{}}
	src := mkSrcs(script)
	s.Panic = try(func() {
		v := r.I(src, p)
		s.Ret = &Call{K: 0, V: unshift(v), T: taken(src)}
	})
	s.Ledger = ledgers(src)
	return s
}

func RunReduceStream(r Reducer, p Params, script [][]Step, expired bool) Session {
	s := Session{Op: "S", Fam: "stream", Comb: r.Name, N: p.N, Pred: p.Pred, Key: p.Key, CbFail: p.CbFail, Script: scriptJSON(script), Calls: []Call{}, Outs: [][]int{}}
	src := mkSrcs(script)
	p.Fired = &s.CbFired
	ctx := context.Background()
	ret := Call{V: []int{}}
	if expired {
		c, cancel := context.WithCancel(ctx)
		cancel()
		ctx = c
		ret.Ctx = 1
	}
	s.Panic = try(func() {
		v, err := r.S(ctx, src, p)
		if err != nil {
			ret.K, ret.E = 2, ErrID(err)
		} else {
			ret.V = unshift(v)
		}
		ret.T = taken(src)
		s.Ret = &ret
		s.Closed = 1
	})
	s.Ledger = ledgers(src)
	return s
}

// ReplayExact performs exactly the consumer calls of a behaviour exported from spec/seq/Pull.tla
// (one per entry of expired) and returns what the code did, for a call-by-call comparison.
func ReplayExact(c Comb, p Params, script [][]Step, expired []bool) Session {
	s := base("stream", c, p, script)
	src := mkSrcs(script)
	p.Fired = &s.CbFired
	dead, cancel := context.WithCancel(context.Background())
	cancel()
	s.Panic = try(func() {
		st := c.S(src, p)
		for _, x := range expired {
			ctx := context.Background()
			call := Call{V: []int{}}
			if x {
				ctx = dead
				call.Ctx = 1
			}
			v, err := st.Next(ctx)
			switch {
			case err == nil:
				call.K, call.V = 0, v
			case err == stream.End:
				call.K = 1
			default:
				call.K, call.E = 2, ErrID(err)
			}
			call.T = taken(src)
			s.Calls = append(s.Calls, call)
		}
		st.Close()
		s.Closed = 1
	})
	s.Ledger = ledgers(src)
	return s
}
