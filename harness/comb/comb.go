// Package comb runs iterator / stream / xslices combinators over instrumented, scripted sources
// and records one "session" per scenario for validation by spec/seq (C07, C08, C09).
package comb

import (
	"context"
	"errors"
	"sync/atomic"

	"github.com/bradenaw/juniper/iterator"
	"github.com/bradenaw/juniper/stream"
	"github.com/bradenaw/juniper/xslices"
)

// Step kinds of a source script.
const (
	StItem = 0 // deliver Val
	StTran = 1 // fail once with ErrTransient, then go on
	StFail = 2 // fail with ErrPermanent, now and forever
	StEnd  = 3 // end of stream (sticky)
)

var (
	ErrTransient = errors.New("transient source error")
	ErrPermanent = errors.New("permanent source error")
	ErrCallback  = errors.New("callback error")
)

// error ids in records
const (
	ENone        = 0
	ETran        = 1
	EPerm        = 2
	ECtx         = 3
	ECb          = 4
	EMoreThanOne = 5
	EEmpty       = 6
	EOther       = 9
)

func ErrID(err error) int {
	switch {
	case err == nil:
		return ENone
	case err == ErrTransient:
		return ETran
	case err == ErrPermanent:
		return EPerm
	case err == ErrCallback:
		return ECb
	case err == context.Canceled || err == context.DeadlineExceeded:
		return ECtx
	case err == stream.ErrMoreThanOne:
		return EMoreThanOne
	case err == stream.ErrEmpty:
		return EEmpty
	}
	return EOther
}

type Step struct {
	Kind int
	Val  int
}

// ValShift = 1: the library sees every item value lowered by one (spec value 1 is the Go value 0: the zero value of the
// item type is itself an item); outputs are raised again before they are recorded. Only for value-agnostic operations.
var ValShift int

func unshift(v []int) []int {
	if ValShift == 0 {
		return v
	}
	out := make([]int, len(v))
	for i, x := range v {
		out[i] = x + ValShift
	}
	return out
}

// Shiftable: the operation does not compute with item values (so it can be run with shifted values)
func Shiftable(name string) bool {
	switch name {
	case "Counter", "Repeat", "Reduce", "Equal", "SampleStream":
		return false
	}
	return true
}

// Src is an instrumented scripted source, usable as iterator (items only) and as stream.
type Src struct {
	OnCall         func() // called once at the start of the next Next / INext (the context of the consumer's call ends *during* the call)
	IgnoreCtx      bool   // the source does not look at the context it is given (a closed channel, an in-memory source)
	Script         []Step
	pos            int
	Taken          int // items handed out
	Calls          int // Next calls
	Closes         int
	NextAfterClose int
	Overlap        bool
	in             atomic.Int32
}

func (s *Src) enter() {
	if s.in.Add(1) != 1 {
		s.Overlap = true
	}
}
func (s *Src) leave() { s.in.Add(-1) }

// iterator face: transient/fail steps are skipped (iterators cannot fail)
func (s *Src) INext() (int, bool) {
	s.Calls++
	if f := s.OnCall; f != nil {
		s.OnCall = nil
		f()
	}
	for s.pos < len(s.Script) {
		st := s.Script[s.pos]
		if st.Kind == StItem {
			s.pos++
			s.Taken++
			return st.Val - ValShift, true
		}
		if st.Kind == StEnd {
			return 0, false
		}
		s.pos++
	}
	return 0, false
}

type iterFace struct{ s *Src }

func (f iterFace) Next() (int, bool)        { return f.s.INext() }
func (s *Src) Iter() iterator.Iterator[int] { return iterFace{s} }

// stream face
func (s *Src) Next(ctx context.Context) (int, error) {
	s.enter()
	defer s.leave()
	s.Calls++
	if s.Closes > 0 {
		s.NextAfterClose++
	}
	if f := s.OnCall; f != nil {
		s.OnCall = nil
		f()
	}
	if err := ctx.Err(); err != nil && !s.IgnoreCtx {
		return 0, err // an expired context consumes nothing
	}
	if s.pos >= len(s.Script) {
		return 0, stream.End
	}
	st := s.Script[s.pos]
	switch st.Kind {
	case StItem:
		s.pos++
		s.Taken++
		return st.Val - ValShift, nil
	case StTran:
		s.pos++
		return 0, ErrTransient
	case StFail:
		return 0, ErrPermanent
	}
	return 0, stream.End
}

func (s *Src) Close() {
	s.enter()
	defer s.leave()
	s.Closes++
}

// Params of a combinator instance.
type Params struct {
	N      int   // n / chunk size
	Pred   []int // Pred[v-1] = 1 iff keep/while holds for value v
	Key    []int // same(a,b) iff Key[a-1] == Key[b-1]
	CbFail int   // the CbFail-th callback invocation fails (0 = never) - stream family only
	Fired  *int  // set to 1 when that failure was actually handed to the library
}

func (p Params) pred(v int) bool    { return p.Pred[v-1+ValShift] == 1 }
func (p Params) same(a, b int) bool { return p.Key[a-1+ValShift] == p.Key[b-1+ValShift] }

type outI = iterator.Iterator[[]int]
type outS = stream.Stream[[]int]

func one(x int) []int { return []int{x} }

type mapI[T any] struct {
	in iterator.Iterator[T]
	f  func(T) []int
}

func (m mapI[T]) Next() ([]int, bool) {
	x, ok := m.in.Next()
	if !ok {
		return nil, false
	}
	return m.f(x), true
}

type mapS[T any] struct {
	in stream.Stream[T]
	f  func(context.Context, T) ([]int, error)
}

func (m mapS[T]) Next(ctx context.Context) ([]int, error) {
	x, err := m.in.Next(ctx)
	if err != nil {
		return nil, err
	}
	return m.f(ctx, x)
}
func (m mapS[T]) Close() { m.in.Close() }

func scalarsI(it iterator.Iterator[int]) outI { return mapI[int]{it, one} }
func scalarsS(s stream.Stream[int]) outS {
	return mapS[int]{s, func(_ context.Context, x int) ([]int, error) { return one(x), nil }}
}
func listsI(it iterator.Iterator[[]int]) outI {
	return mapI[[]int]{it, func(x []int) []int { return append([]int{}, x...) }}
}
func listsS(s stream.Stream[[]int]) outS {
	return mapS[[]int]{s, func(_ context.Context, x []int) ([]int, error) { return append([]int{}, x...), nil }}
}

// cb counts callback invocations and fails the CbFail-th (stream callbacks only).
type cb struct {
	p Params
	n int
}

func (c *cb) fail() error {
	c.n++
	if c.p.CbFail != 0 && c.n == c.p.CbFail {
		if c.p.Fired != nil {
			*c.p.Fired = 1
		}
		return ErrCallback
	}
	return nil
}

// Comb describes one combinator in its three families.
type Comb struct {
	Name                            string
	Multi                           bool // takes several sources
	UsesN, UsesPred, UsesKey, HasCb bool
	NMin                            int
	I                               func(src []*Src, p Params) outI
	S                               func(src []*Src, p Params) outS
	L                               func(in [][]int, p Params) [][]int // xslices version, nil if none
}

func srcsI(src []*Src) []iterator.Iterator[int] {
	out := make([]iterator.Iterator[int], len(src))
	for i, s := range src {
		out[i] = s.Iter()
	}
	return out
}
func srcsS(src []*Src) []stream.Stream[int] {
	out := make([]stream.Stream[int], len(src))
	for i, s := range src {
		out[i] = s
	}
	return out
}
func singles(xs []int) [][]int {
	out := make([][]int, len(xs))
	for i, x := range xs {
		out[i] = one(x)
	}
	return out
}

func fill(s *Src) <-chan int {
	c := make(chan int, 64)
	for {
		x, ok := s.INext()
		if !ok {
			break
		}
		c <- x
	}
	close(c)
	return c
}

// Combs is the table of combinators under test.
func Combs() []Comb {
	return []Comb{
		{Name: "Id", // Slice / FromIterator / plain source
			I: func(s []*Src, p Params) outI { return scalarsI(s[0].Iter()) },
			S: func(s []*Src, p Params) outS { return scalarsS(s[0]) },
		},
		{Name: "FromIterator",
			I: func(s []*Src, p Params) outI { return scalarsI(iterator.Slice(iterator.Collect(s[0].Iter()))) },
			S: func(s []*Src, p Params) outS { return scalarsS(stream.FromIterator(s[0].Iter())) },
		},
		{Name: "Counter", UsesN: true, NMin: -1,
			I: func(s []*Src, p Params) outI { return scalarsI(iterator.Counter(p.N)) },
		},
		{Name: "Repeat", UsesN: true, NMin: -1,
			I: func(s []*Src, p Params) outI { return scalarsI(iterator.Repeat(2, p.N)) },
			L: func(in [][]int, p Params) [][]int { return singles(xslices.Repeat(2, max(p.N, 0))) },
		},
		{Name: "Empty",
			I: func(s []*Src, p Params) outI { return scalarsI(iterator.Empty[int]()) },
			S: func(s []*Src, p Params) outS { return scalarsS(stream.Empty[int]()) },
		},
		{Name: "Chan", // the channel is filled from the source up front and closed
			I: func(s []*Src, p Params) outI { return scalarsI(iterator.Chan(fill(s[0]))) },
			S: func(s []*Src, p Params) outS { return scalarsS(stream.Chan(fill(s[0]))) },
		},
		{Name: "WithPeek",
			I: func(s []*Src, p Params) outI { return scalarsI(iterator.WithPeek(s[0].Iter())) },
			S: func(s []*Src, p Params) outS { return scalarsS(stream.WithPeek[int](s[0])) },
		},
		{Name: "Chunk", UsesN: true, NMin: 1,
			I: func(s []*Src, p Params) outI { return listsI(iterator.Chunk(s[0].Iter(), p.N)) },
			S: func(s []*Src, p Params) outS { return listsS(stream.Chunk[int](s[0], p.N)) },
			L: func(in [][]int, p Params) [][]int { return xslices.Chunk(in[0], p.N) },
		},
		{Name: "Compact", UsesKey: true,
			I: func(s []*Src, p Params) outI { return scalarsI(iterator.CompactFunc(s[0].Iter(), p.same)) },
			S: func(s []*Src, p Params) outS { return scalarsS(stream.CompactFunc[int](s[0], p.same)) },
			L: func(in [][]int, p Params) [][]int { return singles(xslices.CompactFunc(in[0], p.same)) },
		},
		{Name: "CompactEq",
			I: func(s []*Src, p Params) outI { return scalarsI(iterator.Compact(s[0].Iter())) },
			S: func(s []*Src, p Params) outS { return scalarsS(stream.Compact[int](s[0])) },
			L: func(in [][]int, p Params) [][]int { return singles(xslices.Compact(in[0])) },
		},
		{Name: "Filter", UsesPred: true, HasCb: true,
			I: func(s []*Src, p Params) outI { return scalarsI(iterator.Filter(s[0].Iter(), p.pred)) },
			S: func(s []*Src, p Params) outS {
				c := &cb{p: p}
				return scalarsS(stream.Filter[int](s[0], func(_ context.Context, x int) (bool, error) {
					if err := c.fail(); err != nil {
						return false, err
					}
					return p.pred(x), nil
				}))
			},
			L: func(in [][]int, p Params) [][]int { return singles(xslices.Filter(in[0], p.pred)) },
		},
		{Name: "First", UsesN: true,
			I: func(s []*Src, p Params) outI { return scalarsI(iterator.First(s[0].Iter(), p.N)) },
			S: func(s []*Src, p Params) outS { return scalarsS(stream.First[int](s[0], p.N)) },
		},
		{Name: "Flatten", Multi: true,
			I: func(s []*Src, p Params) outI { return scalarsI(iterator.Flatten(iterator.Slice(srcsI(s)))) },
			S: func(s []*Src, p Params) outS {
				return scalarsS(stream.Flatten(stream.FromIterator(iterator.Slice(srcsS(s)))))
			},
		},
		{Name: "FlattenSlices", Multi: true,
			S: func(s []*Src, p Params) outS {
				// a stream of slices: each source is collected lazily into one slice
				outer := iterator.Map(iterator.Slice(s), func(x *Src) []int { return iterator.Collect(x.Iter()) })
				return scalarsS(stream.FlattenSlices(stream.FromIterator(outer)))
			},
		},
		{Name: "Join", Multi: true,
			I: func(s []*Src, p Params) outI { return scalarsI(iterator.Join(srcsI(s)...)) },
			S: func(s []*Src, p Params) outS { return scalarsS(stream.Join(srcsS(s)...)) },
			L: func(in [][]int, p Params) [][]int { return singles(xslices.Join(in...)) },
		},
		{Name: "JoinNested", Multi: true, // joins built from sub-slices of one argument slice with spare capacity, then joined again:
			// a Join must not write into (or keep aliasing in a harmful way) the slice it was called with
			I: func(s []*Src, p Params) outI {
				if len(s) < 3 {
					return scalarsI(iterator.Join(srcsI(s)...))
				}
				all := srcsI(s)
				its := make([]iterator.Iterator[int], 2, len(s)+2)
				its[0], its[1] = all[0], all[2]
				head := iterator.Join(its[:1]...)
				head = iterator.Join(head, all[1])
				tail := iterator.Join(its[1:2]...)
				rest := append([]iterator.Iterator[int]{head, tail}, all[3:]...)
				return scalarsI(iterator.Join(rest...))
			},
			S: func(s []*Src, p Params) outS {
				if len(s) < 3 {
					return scalarsS(stream.Join(srcsS(s)...))
				}
				all := srcsS(s)
				sts := make([]stream.Stream[int], 2, len(s)+2)
				sts[0], sts[1] = all[0], all[2]
				head := stream.Join(sts[:1]...)
				head = stream.Join(head, all[1])
				tail := stream.Join(sts[1:2]...)
				rest := append([]stream.Stream[int]{head, tail}, all[3:]...)
				return scalarsS(stream.Join(rest...))
			},
		},
		{Name: "Map", HasCb: true,
			I: func(s []*Src, p Params) outI {
				return scalarsI(iterator.Map(s[0].Iter(), func(x int) int { return x + 10 }))
			},
			S: func(s []*Src, p Params) outS {
				c := &cb{p: p}
				return scalarsS(stream.Map[int, int](s[0], func(_ context.Context, x int) (int, error) {
					if err := c.fail(); err != nil {
						return 0, err
					}
					return x + 10, nil
				}))
			},
			L: func(in [][]int, p Params) [][]int {
				return singles(xslices.Map(in[0], func(x int) int { return x + 10 }))
			},
		},
		{Name: "Runs", UsesKey: true,
			I: func(s []*Src, p Params) outI {
				return mapI[iterator.Iterator[int]]{iterator.Runs(s[0].Iter(), p.same), func(in iterator.Iterator[int]) []int {
					out := []int{}
					for {
						x, ok := in.Next()
						if !ok {
							return out
						}
						out = append(out, x)
					}
				}}
			},
			S: func(s []*Src, p Params) outS {
				return &runsDrain{outer: stream.Runs[int](s[0], p.same)}
			},
			L: func(in [][]int, p Params) [][]int { return xslices.Runs(in[0], p.same) },
		},
		{Name: "RunsHeads", UsesKey: true, // the consumer reads only the first item of every run; Runs drains the rest itself
			I: func(s []*Src, p Params) outI {
				return mapI[iterator.Iterator[int]]{iterator.Runs(s[0].Iter(), p.same), func(in iterator.Iterator[int]) []int {
					x, _ := in.Next()
					return []int{x}
				}}
			},
			S: func(s []*Src, p Params) outS {
				return &runsHeads{outer: stream.Runs[int](s[0], p.same)}
			},
		},
		{Name: "RunsStale", UsesKey: true, // like Runs, but the consumer keeps every run's handle and polls all earlier ones before
			// reading a new run: a run that is over stays over (whatever it yields is added to the output)
			I: func(s []*Src, p Params) outI {
				var old []iterator.Iterator[int]
				return mapI[iterator.Iterator[int]]{iterator.Runs(s[0].Iter(), p.same), func(in iterator.Iterator[int]) []int {
					out := []int{}
					for _, h := range old {
						if x, ok := h.Next(); ok {
							out = append(out, 1000+x) // marked: never part of a legal output
						}
					}
					old = append(old, in)
					for {
						x, ok := in.Next()
						if !ok {
							return out
						}
						out = append(out, x)
					}
				}}
			},
			S: func(s []*Src, p Params) outS {
				return &runsDrain{outer: stream.Runs[int](s[0], p.same), stale: true}
			},
		},
		{Name: "While", UsesPred: true, HasCb: true,
			I: func(s []*Src, p Params) outI { return scalarsI(iterator.While(s[0].Iter(), p.pred)) },
			S: func(s []*Src, p Params) outS {
				c := &cb{p: p}
				return scalarsS(stream.While[int](s[0], func(_ context.Context, x int) (bool, error) {
					if err := c.fail(); err != nil {
						return false, err
					}
					return p.pred(x), nil
				}))
			},
		},
	}
}

// runsDrain turns stream.Runs into a stream of lists; a failure while draining a run keeps the
// partial run so that a retry continues it (the inner stream is still usable).
type runsDrain struct {
	outer stream.Stream[stream.Stream[int]]
	inner stream.Stream[int]
	part  []int
	stale bool // poll the handles of all earlier runs before reading a new one
	old   []stream.Stream[int]
}

func (r *runsDrain) Next(ctx context.Context) ([]int, error) {
	if r.inner == nil {
		in, err := r.outer.Next(ctx)
		if err != nil {
			return nil, err
		}
		r.inner = in
		r.part = []int{}
		if r.stale {
			for _, h := range r.old {
				if x, err := h.Next(context.Background()); err == nil {
					r.part = append(r.part, 1000+x) // marked: never part of a legal output
				}
			}
			r.old = append(r.old, in)
		}
	}
	for {
		x, err := r.inner.Next(ctx)
		if err == stream.End {
			out := r.part
			r.inner, r.part = nil, nil
			return out, nil
		} else if err != nil {
			return nil, err
		}
		r.part = append(r.part, x)
	}
}
func (r *runsDrain) Close() { r.outer.Close() }

// runsHeads reads the head of every run and leaves the rest of the run to the outer stream's own
// draining; a failure while reading the head is retried on the same inner stream.
type runsHeads struct {
	outer stream.Stream[stream.Stream[int]]
	inner stream.Stream[int]
}

func (r *runsHeads) Next(ctx context.Context) ([]int, error) {
	if r.inner == nil {
		in, err := r.outer.Next(ctx)
		if err != nil {
			return nil, err
		}
		r.inner = in
	}
	x, err := r.inner.Next(ctx)
	if err != nil {
		return nil, err
	}
	r.inner = nil
	return []int{x}, nil
}
func (r *runsHeads) Close() { r.outer.Close() }
